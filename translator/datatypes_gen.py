"""Data type tables of pyecore -> coq/Gen/DataTypes.v   (property C17; also usable by C03/C15/C08-C10).

Reads, with Python's `ast` only (nothing is imported or executed):
  /repo/pyecore/ecore.py       every  X = EDataType('X', ...)  + the default to_string/from_string of
                               class EDataType, the instanceClassName setter, EEnum.from_string,
                               EEnum.getEEnumLiteral, EEnumLiteral.__str__
  /repo/pyecore/innerutils.py  javaTransMap, parse_date (shape + format list)
  /repo/pyecore/type/type.py   every  X = EDataType('X', instanceClassName=..., ...)

FAIL CLOSED.  Two levels:
  * a conversion (lambda / callable / type / default) that is not in the closed list below is emitted as
    `..._unrecognised "<source text>"`: the file still compiles, the extracted model answers "not modelled",
    and the coverage theorem of Props/C17.v does not compile any more;
  * a structural surprise (EDataType called in an unknown way, a data type re-bound or patched after its
    declaration, parse_date / the default methods written differently, an import that changes what a name
    means) makes main() return an error string: the runner exits 1 and every check reports
    'translator refused the source'.
"""
import ast
import os
import sys

HERE = os.path.dirname(os.path.abspath(__file__))
VERIF = os.path.dirname(HERE)
REPO = os.environ.get('VERIF_REPO', '/repo')
OUT = os.path.join(VERIF, 'coq', 'Gen', 'DataTypes.v')


class Refuse(Exception):
    pass


def write_if_changed(path, text):
    old = open(path).read() if os.path.exists(path) else None
    if old != text:
        os.makedirs(os.path.dirname(path), exist_ok=True)
        with open(path, 'w') as f:
            f.write(text)


# ---------------------------------------------------------------- Coq text
def cstr(s):
    if not isinstance(s, str) or any(ord(c) > 126 or ord(c) < 32 for c in s):
        raise Refuse(f'string with a non printable-ASCII character: {s!r}')
    return '"' + s.replace('"', '""') + '"'


def cbool(b):
    return 'true' if b else 'false'


PYTYPES = {'str': 'PT_str', 'bool': 'PT_bool', 'int': 'PT_int', 'float': 'PT_float', 'Decimal': 'PT_Decimal',
           'datetime': 'PT_datetime', 'bytes': 'PT_bytes', 'bytearray': 'PT_bytearray', 'dict': 'PT_dict',
           'list': 'PT_list', 'set': 'PT_set', 'type': 'PT_type', 'object': 'PT_object'}


def src(node):
    return ast.unparse(node)


def pytype_of(node):
    if isinstance(node, ast.Name) and node.id in PYTYPES:
        return PYTYPES[node.id]
    return f'(PT_unrecognised {cstr(src(node))})'


def default_of(node):
    if node is None:
        return 'DF_None'
    if isinstance(node, ast.Constant):
        v = node.value
        if v is None:
            return 'DF_None'
        if v is False:
            return 'DF_False'
        if type(v) is int and abs(v) < 1000:
            return f'(DF_int ({v})%Z)'
        if type(v) is float and v == 0.0 and repr(v) == '0.0':
            return 'DF_float_zero'
        if v == '' and type(v) is str:
            return 'DF_str_empty'
    return f'(DF_unrecognised {cstr(src(node))})'


class _Rename(ast.NodeTransformer):
    def __init__(self, old):
        self.old = old

    def visit_Name(self, n):
        return ast.copy_location(ast.Name(id='x', ctx=n.ctx), n) if n.id == self.old else n

    def visit_arg(self, n):
        if n.arg == self.old:
            n.arg = 'x'
        return n


def norm_lambda(node):
    """source text of a one-parameter lambda with the parameter renamed to x; None if not of that shape"""
    if not isinstance(node, ast.Lambda):
        return None
    a = node.args
    if a.posonlyargs or a.kwonlyargs or a.vararg or a.kwarg or a.defaults or a.kw_defaults or len(a.args) != 1:
        return None
    old = a.args[0].arg
    names = {n.id for n in ast.walk(node.body) if isinstance(n, ast.Name)}
    if old != 'x' and 'x' in names:
        return None
    import copy
    return src(_Rename(old).visit(copy.deepcopy(node)))


def ts_of(node, names):
    """to_string=<node>"""
    n = norm_lambda(node)
    if n == 'lambda x: str(x).lower()' and names.get('str') == 'builtin':
        return 'TS_str_lower'
    if n is not None:
        b = node.body
        if (isinstance(b, ast.Call) and isinstance(b.func, ast.Attribute) and b.func.attr == 'strftime'
                and isinstance(b.func.value, ast.Name) and b.func.value.id == node.args.args[0].arg
                and len(b.args) == 1 and not b.keywords and isinstance(b.args[0], ast.Constant)
                and isinstance(b.args[0].value, str)):
            return f'(TS_strftime {cstr(b.args[0].value)})'
    if isinstance(node, ast.Name) and node.id == 'str' and names.get('str') == 'builtin':
        return 'TS_str'
    return f'(TS_unrecognised {cstr(src(node))})'


def fs_of(node, names):
    """from_string=<node>"""
    if isinstance(node, ast.Name):
        what = names.get(node.id)
        if node.id == 'int' and what == 'builtin':
            return 'FS_int'
        if node.id == 'float' and what == 'builtin':
            return 'FS_float'
        if node.id == 'Decimal' and what == 'decimal.Decimal':
            return 'FS_Decimal'
        if node.id == 'parse_date' and what == 'innerutils.parse_date':
            return 'FS_parse_date'
    n = norm_lambda(node)
    if n == "lambda x: x in ['True', 'true']":
        return 'FS_in_True_true'
    if n == "lambda x: x in ['True', 'true'] or x is True":
        return 'FS_in_True_true_or_is_True'
    return f'(FS_unrecognised {cstr(src(node))})'


# ---------------------------------------------------------------- name environment of a module
BUILTINS = ('str', 'int', 'float', 'bool', 'bytes', 'bytearray', 'dict', 'list', 'set', 'type', 'object')


def name_env(tree, path, protected=('Decimal', 'datetime', 'parse_date', 'javaTransMap')):
    """What the names used in the tables denote at module level.  Any module-level (re)binding of a
    builtin we rely on, or an unexpected origin of Decimal/datetime/parse_date/javaTransMap/EDataType, is refused."""
    env = {b: 'builtin' for b in BUILTINS}
    for st in tree.body:
        bound = []
        if isinstance(st, (ast.Import, ast.ImportFrom)):
            for al in st.names:
                nm = al.asname or al.name.split('.')[0]
                mod = getattr(st, 'module', None) or ''
                lvl = getattr(st, 'level', 0)
                origin = f'{"." * lvl}{mod}.{al.name}' if isinstance(st, ast.ImportFrom) else al.name
                if nm in BUILTINS:
                    raise Refuse(f'{path}: builtin {nm} re-bound by an import')
                env[nm] = {'decimal.Decimal': 'decimal.Decimal', 'datetime.datetime': 'datetime.datetime',
                           '.innerutils.parse_date': 'innerutils.parse_date',
                           '.innerutils.javaTransMap': 'innerutils.javaTransMap',
                           'pyecore.ecore.EDataType': 'ecore.EDataType'}.get(origin, 'import:' + origin)
        elif isinstance(st, (ast.FunctionDef, ast.ClassDef)):
            bound = [st.name]
        elif isinstance(st, ast.Assign):
            for t in st.targets:
                bound += [n.id for n in ast.walk(t) if isinstance(n, ast.Name) and isinstance(n.ctx, ast.Store)]
        elif isinstance(st, (ast.AnnAssign, ast.AugAssign)):
            bound += [n.id for n in ast.walk(st.target) if isinstance(n, ast.Name)]
        for nm in bound:
            if nm in BUILTINS or nm in protected:
                raise Refuse(f'{path}: module-level re-binding of {nm}')
            if nm == 'EDataType' and not isinstance(st, ast.ClassDef):
                raise Refuse(f'{path}: EDataType re-bound')
            if nm == 'EDataType':
                env[nm] = 'ecore.EDataType'
    return env


def module_level_calls(tree, fname):
    """every Call to `fname` that is evaluated when the module is imported (outside def bodies; class bodies count)"""
    found = []

    def walk(node):
        for ch in ast.iter_child_nodes(node):
            if isinstance(ch, (ast.FunctionDef, ast.AsyncFunctionDef, ast.Lambda)):
                continue
            if isinstance(ch, ast.Call) and isinstance(ch.func, ast.Name) and ch.func.id == fname:
                found.append(ch)
            walk(ch)
    walk(tree)
    return found


def check_no_patching(tree, path, declared):
    """no module-level statement may touch <declared data type>.from_string/to_string/eType/... after the
    declaration, nor re-bind the name."""
    seen = set()
    for st in tree.body:
        if isinstance(st, (ast.FunctionDef, ast.ClassDef, ast.Import, ast.ImportFrom)):
            continue
        for n in ast.walk(st):
            if isinstance(n, ast.Attribute) and isinstance(n.ctx, (ast.Store, ast.Del)) \
                    and isinstance(n.value, ast.Name) and n.value.id in declared \
                    and n.attr in ('from_string', 'to_string', 'eType', 'instanceClassName', 'default_value',
                                   '_default_value', 'type_as_factory', 'transmap', '__class__', '__dict__'):
                raise Refuse(f'{path}:{n.lineno}: {n.value.id}.{n.attr} is assigned after the declaration')
            if isinstance(n, ast.Name) and isinstance(n.ctx, (ast.Store, ast.Del)) and n.id in declared:
                if n.id in seen:
                    raise Refuse(f'{path}:{n.lineno}: data type {n.id} is bound twice')
                seen.add(n.id)
            if isinstance(n, ast.Call) and isinstance(n.func, ast.Name) and n.func.id in ('setattr', 'delattr') \
                    and n.args and isinstance(n.args[0], ast.Name) and n.args[0].id in declared:
                raise Refuse(f'{path}:{n.lineno}: setattr on data type {n.args[0].id}')
            if isinstance(n, ast.Attribute) and isinstance(n.ctx, (ast.Store, ast.Del)) \
                    and isinstance(n.value, ast.Name) and n.value.id in ('EDataType', 'EEnum', 'EEnumLiteral') \
                    and n.attr in ('from_string', 'to_string', 'transmap', 'getEEnumLiteral', '__str__',
                                   'instanceClassName', '__init__'):
                raise Refuse(f'{path}:{n.lineno}: {n.value.id}.{n.attr} is patched at module level')


# ---------------------------------------------------------------- class EDataType / EEnum / EEnumLiteral
def find_class(tree, name, path):
    cs = [s for s in tree.body if isinstance(s, ast.ClassDef) and s.name == name]
    if len(cs) != 1:
        raise Refuse(f'{path}: expected exactly one class {name}')
    return cs[0]


def methods(cls, name):
    return [s for s in cls.body if isinstance(s, ast.FunctionDef) and s.name == name]


def method_src(cls, name, path, decorators=()):
    ms = [m for m in methods(cls, name) if tuple(src(d) for d in m.decorator_list) == tuple(decorators)]
    if len(ms) != 1:
        raise Refuse(f'{path}: class {cls.name}: expected one method {name} with decorators {decorators}')
    m = ms[0]
    body = [s for s in m.body if not (isinstance(s, ast.Expr) and isinstance(s.value, ast.Constant)
                                      and isinstance(s.value.value, str))]
    return f'({src(m.args)}): ' + '; '.join(src(s).replace('\n', ' ') for s in body)


EXPECT_INIT = ("(self, name=None, eType=None, default_value=None, from_string=None, to_string=None, "
               "instanceClassName=None, type_as_factory=False, **kwargs): super().__init__(name, **kwargs); "
               "self.eType = eType; self.type_as_factory = type_as_factory; self._default_value = default_value; "
               "if instanceClassName:     self.instanceClassName = instanceClassName else:     "
               "self.instanceClassName_ = None; if from_string:     self.from_string = from_string; "
               "if to_string:     self.to_string = to_string")
EXPECT_ICN_SETTER = ("(self, name): self.instanceClassName_ = name; default_type = (object, True, None); "
                     "type_, type_as_factory, default = self.transmap.get(name, default_type); "
                     "self.eType = type_; self.type_as_factory = type_as_factory; self.default_value = default")


def class_defaults(tree, path):
    dt = find_class(tree, 'EDataType', path)
    out = {}
    s = method_src(dt, 'to_string', path)
    out['default_to_string'] = 'TS_str' if s == '(self, value): return str(value)' \
        else f'(TS_unrecognised {cstr("EDataType.to_string" + s)})'
    s = method_src(dt, 'from_string', path)
    out['default_from_string'] = 'FS_id' if s == '(self, value): return value' \
        else f'(FS_unrecognised {cstr("EDataType.from_string" + s)})'
    s = ' '.join(method_src(dt, '__init__', path).split())
    if s != ' '.join(EXPECT_INIT.split()):
        raise Refuse(f'{path}: EDataType.__init__ is not the recognised constructor:\n{s}')
    s = ' '.join(method_src(dt, 'instanceClassName', path, ('instanceClassName.setter',)).split())
    if s != ' '.join(EXPECT_ICN_SETTER.split()):
        raise Refuse(f'{path}: EDataType.instanceClassName setter is not the recognised one:\n{s}')
    tm = [st for st in dt.body if isinstance(st, ast.Assign) and len(st.targets) == 1
          and isinstance(st.targets[0], ast.Name) and st.targets[0].id == 'transmap']
    if len(tm) != 1 or src(tm[0].value) != 'javaTransMap':
        raise Refuse(f'{path}: EDataType.transmap is not javaTransMap')
    en = find_class(tree, 'EEnum', path)
    if [src(b) for b in en.bases] != ['EDataType']:
        raise Refuse(f'{path}: EEnum bases changed')
    if methods(en, 'to_string'):
        out['eenum_to_string'] = f'(TS_unrecognised {cstr("EEnum.to_string" + method_src(en, "to_string", path))})'
    else:
        out['eenum_to_string'] = out['default_to_string']
    s = method_src(en, 'from_string', path)
    out['eenum_from_string'] = 'EFS_getEEnumLiteral_name' if s == '(self, value): return self.getEEnumLiteral(name=value)' \
        else f'(EFS_unrecognised {cstr(s)})'
    s = ' '.join(method_src(en, 'getEEnumLiteral', path).split())
    exp = ('(self, name=None, value=0): try:     if name:         '
           'return next((lit for lit in self.eLiterals if lit.name == name))     '
           'return next((lit for lit in self.eLiterals if lit.value == value)) except StopIteration:     return None')
    out['eenum_getEEnumLiteral'] = 'EGET_name_if_truthy_else_value' if s == ' '.join(exp.split()) \
        else f'(EGET_unrecognised {cstr(s)})'
    lit = find_class(tree, 'EEnumLiteral', path)
    s = method_src(lit, '__str__', path)
    out['eenumliteral_str'] = 'LS_name' if s == '(self): return self.name' else f'(LS_unrecognised {cstr(s)})'
    return out


# ---------------------------------------------------------------- ecore.py declarations
def ecore_decls(tree, path, env, defaults):
    if env.get('Decimal') != 'decimal.Decimal' or env.get('datetime') != 'datetime.datetime':
        raise Refuse(f'{path}: Decimal/datetime are not imported from decimal/datetime')
    decls, names = [], []
    calls = module_level_calls(tree, 'EDataType')
    recognised = set()
    for st in tree.body:
        if not (isinstance(st, ast.Assign) and isinstance(st.value, ast.Call)
                and isinstance(st.value.func, ast.Name) and st.value.func.id == 'EDataType'):
            continue
        call = st.value
        if len(st.targets) != 1 or not isinstance(st.targets[0], ast.Name):
            raise Refuse(f'{path}:{st.lineno}: EDataType(...) not assigned to a single name')
        var = st.targets[0].id
        a = call.args
        if not (1 <= len(a) <= 3) or not isinstance(a[0], ast.Constant) or a[0].value != var:
            raise Refuse(f'{path}:{st.lineno}: {var} = EDataType(...) positional arguments not recognised')
        kw = {}
        for k in call.keywords:
            if k.arg not in ('from_string', 'to_string', 'type_as_factory') or k.arg in kw:
                raise Refuse(f'{path}:{st.lineno}: {var}: keyword {k.arg} not recognised')
            kw[k.arg] = k.value
        if len(a) < 2:
            raise Refuse(f'{path}:{st.lineno}: {var}: no Python type')
        fac = kw.get('type_as_factory')
        if fac is not None and not (isinstance(fac, ast.Constant) and type(fac.value) is bool):
            raise Refuse(f'{path}:{st.lineno}: {var}: type_as_factory is not a literal')
        decls.append('{| dt_name := %s; dt_type := %s; dt_ts := %s; dt_fs := %s; dt_default := %s; dt_factory := %s |}' % (
            cstr(var), pytype_of(a[1]),
            ts_of(kw['to_string'], env) if 'to_string' in kw else defaults['default_to_string'],
            fs_of(kw['from_string'], env) if 'from_string' in kw else defaults['default_from_string'],
            default_of(a[2] if len(a) > 2 else None), cbool(fac.value if fac is not None else False)))
        names.append(var)
        recognised.add(id(call))
    # any other EDataType(...) evaluated at import time (class bodies, nested expressions) is a surprise;
    # EEnum's own super().__init__ is a different call shape and is not matched here
    for c in calls:
        if id(c) not in recognised:
            raise Refuse(f'{path}:{c.lineno}: EDataType(...) in an unrecognised position')
    if len(set(names)) != len(names):
        raise Refuse(f'{path}: a data type is declared twice')
    if not names:
        raise Refuse(f'{path}: no EDataType declaration found')
    return decls, names


# ---------------------------------------------------------------- innerutils.py
EXPECT_PARSE_DATE = ("(str_date): try:     return datetime.fromisoformat(str_date) except Exception:     "
                     "formats = FORMATS     for format in formats:         with ignored(ValueError):             "
                     "return datetime.strptime(str_date, format)     raise ValueError('Date format is unknown')")


def innerutils(tree, path):
    imp = [s for s in tree.body if isinstance(s, ast.ImportFrom) and s.module == 'datetime']
    if len(imp) != 1 or [(a.name, a.asname) for a in imp[0].names] != [('datetime', None)]:
        raise Refuse(f'{path}: `from datetime import datetime` not found as such')
    for st in tree.body:
        for n in ast.walk(st) if not isinstance(st, (ast.FunctionDef, ast.ClassDef)) else []:
            if isinstance(n, ast.Name) and isinstance(n.ctx, ast.Store) and n.id in ('datetime', 'parse_date', 'ignored'):
                raise Refuse(f'{path}: {n.id} re-bound')
    maps = [s for s in tree.body if isinstance(s, ast.Assign) and any(
        isinstance(t, ast.Name) and t.id == 'javaTransMap' for t in s.targets)]
    if len(maps) != 1 or len(maps[0].targets) != 1 or not isinstance(maps[0].value, ast.Dict):
        raise Refuse(f'{path}: javaTransMap is not a single dict literal')
    for st in tree.body:
        if st is maps[0] or isinstance(st, (ast.FunctionDef, ast.ClassDef)):
            continue
        if any(isinstance(n, ast.Name) and n.id == 'javaTransMap' for n in ast.walk(st)):
            raise Refuse(f'{path}:{st.lineno}: javaTransMap is modified after its definition')
    entries = []
    seen = set()
    for k, v in zip(maps[0].value.keys, maps[0].value.values):
        if not (isinstance(k, ast.Constant) and isinstance(k.value, str)) or k.value in seen:
            raise Refuse(f'{path}: javaTransMap key not a unique string literal')
        seen.add(k.value)
        if not (isinstance(v, ast.Tuple) and len(v.elts) == 3 and isinstance(v.elts[1], ast.Constant)
                and type(v.elts[1].value) is bool):
            raise Refuse(f'{path}: javaTransMap[{k.value!r}] is not (type, bool, default)')
        entries.append('{| jt_name := %s; jt_type := %s; jt_factory := %s; jt_default := %s |}' % (
            cstr(k.value), pytype_of(v.elts[0]), cbool(v.elts[1].value), default_of(v.elts[2])))
    fs = [s for s in tree.body if isinstance(s, ast.FunctionDef) and s.name == 'parse_date']
    if len(fs) != 1 or fs[0].decorator_list:
        raise Refuse(f'{path}: parse_date not found (or decorated)')
    f = fs[0]
    formats = None
    for n in ast.walk(f):
        if isinstance(n, ast.Assign) and len(n.targets) == 1 and isinstance(n.targets[0], ast.Name) \
                and n.targets[0].id == 'formats':
            if formats is not None or not isinstance(n.value, (ast.Tuple, ast.List)):
                raise Refuse(f'{path}: parse_date: formats is not a single tuple literal')
            formats = [e.value if isinstance(e, ast.Constant) and isinstance(e.value, str) else None for e in n.value.elts]
            n.value = ast.Name(id='FORMATS', ctx=ast.Load())
    if formats is None or any(x is None for x in formats):
        raise Refuse(f'{path}: parse_date: format list not recognised')
    body = [s for s in f.body if not (isinstance(s, ast.Expr) and isinstance(s.value, ast.Constant))]
    got = ' '.join((f'({src(f.args)}): ' + ' '.join(src(s).replace('\n', ' ') for s in body)).split())
    if got != ' '.join(EXPECT_PARSE_DATE.split()):
        raise Refuse(f'{path}: parse_date does not have the recognised shape '
                     f'(fromisoformat first, then strptime over `formats`):\n{got}')
    ig = [s for s in tree.body if isinstance(s, ast.FunctionDef) and s.name == 'ignored']
    exp_ig = '(*exceptions): try:     yield except exceptions:     pass'
    if len(ig) != 1 or [src(d) for d in ig[0].decorator_list] != ['contextmanager']:
        raise Refuse(f'{path}: ignored() is not the recognised context manager')
    igb = [s for s in ig[0].body if not (isinstance(s, ast.Expr) and isinstance(s.value, ast.Constant))]
    if ' '.join((f'({src(ig[0].args)}): ' + ' '.join(src(s).replace('\n', ' ') for s in igb)).split()) != ' '.join(exp_ig.split()):
        raise Refuse(f'{path}: ignored() body changed')
    return entries, formats


# ---------------------------------------------------------------- type/type.py
def xml_decls(tree, path, env, defaults):
    if env.get('EDataType') != 'ecore.EDataType':
        raise Refuse(f'{path}: EDataType is not imported from pyecore.ecore')
    decls, names = [], []
    recognised = set()
    for st in tree.body:
        if not (isinstance(st, ast.Assign) and isinstance(st.value, ast.Call)
                and isinstance(st.value.func, ast.Name) and st.value.func.id == 'EDataType'):
            continue
        call = st.value
        if len(st.targets) != 1 or not isinstance(st.targets[0], ast.Name):
            raise Refuse(f'{path}:{st.lineno}: EDataType(...) not assigned to a single name')
        var = st.targets[0].id
        if len(call.args) != 1 or not isinstance(call.args[0], ast.Constant) or call.args[0].value != var:
            raise Refuse(f'{path}:{st.lineno}: {var} = EDataType(...) positional arguments not recognised')
        kw = {}
        for k in call.keywords:
            if k.arg not in ('instanceClassName', 'from_string', 'to_string') or k.arg in kw:
                raise Refuse(f'{path}:{st.lineno}: {var}: keyword {k.arg} not recognised')
            kw[k.arg] = k.value
        icn = kw.get('instanceClassName')
        if not (isinstance(icn, ast.Constant) and isinstance(icn.value, str) and icn.value):
            raise Refuse(f'{path}:{st.lineno}: {var}: instanceClassName is not a non-empty string literal')
        decls.append('{| xd_name := %s; xd_icn := %s; xd_ts := %s; xd_fs := %s |}' % (
            cstr(var), cstr(icn.value),
            ts_of(kw['to_string'], env) if 'to_string' in kw else defaults['default_to_string'],
            fs_of(kw['from_string'], env) if 'from_string' in kw else defaults['default_from_string']))
        names.append(var)
        recognised.add(id(call))
    for c in module_level_calls(tree, 'EDataType'):
        if id(c) not in recognised:
            raise Refuse(f'{path}:{c.lineno}: EDataType(...) in an unrecognised position')
    if len(set(names)) != len(names) or not names:
        raise Refuse(f'{path}: XMLTypes declarations not recognised')
    return decls, names


# ---------------------------------------------------------------- output
def coq_list(items, indent='  '):
    if not items:
        return '[]'
    return '[\n' + ';\n'.join(indent + i for i in items) + '\n]'


def generate():
    p_ecore = os.path.join(REPO, 'pyecore', 'ecore.py')
    p_inner = os.path.join(REPO, 'pyecore', 'innerutils.py')
    p_type = os.path.join(REPO, 'pyecore', 'type', 'type.py')
    t_ecore = ast.parse(open(p_ecore).read(), p_ecore)
    t_inner = ast.parse(open(p_inner).read(), p_inner)
    t_type = ast.parse(open(p_type).read(), p_type)
    env_e = name_env(t_ecore, p_ecore)
    env_t = name_env(t_type, p_type, protected=())
    if env_e.get('parse_date') != 'innerutils.parse_date' or env_e.get('javaTransMap') != 'innerutils.javaTransMap':
        raise Refuse(f'{p_ecore}: parse_date / javaTransMap are not imported from .innerutils')
    defaults = class_defaults(t_ecore, p_ecore)
    e_decls, e_names = ecore_decls(t_ecore, p_ecore, env_e, defaults)
    check_no_patching(t_ecore, p_ecore, set(e_names))
    jt, formats = innerutils(t_inner, p_inner)
    x_decls, x_names = xml_decls(t_type, p_type, env_t, defaults)
    check_no_patching(t_type, p_type, set(x_names))
    # the XMLTypes module must not reach into ecore's tables either
    for n in ast.walk(t_type):
        if isinstance(n, ast.Attribute) and isinstance(n.ctx, (ast.Store, ast.Del)) and isinstance(n.value, ast.Attribute) \
                and isinstance(n.value.value, ast.Name) and n.value.value.id == 'Ecore':
            raise Refuse(f'{p_type}:{n.lineno}: assignment into pyecore.ecore objects')
    out = []
    out.append('(* GENERATED by translator/datatypes_gen.py from /repo/pyecore/{ecore.py,innerutils.py,type/type.py}.')
    out.append('   Do not edit: rewritten (when its content changes) by every ./check and ./setup.sh. *)')
    out.append('From Coq Require Import ZArith String List.')
    out.append('From PyecoreV Require Import Model.DataTypeDecl.')
    out.append('Import ListNotations.')
    out.append('Local Open Scope string_scope.')
    out.append('')
    out.append('(* class EDataType: def to_string(self, value) / def from_string(self, value) *)')
    out.append(f'Definition default_to_string : ts_tag := {defaults["default_to_string"]}.')
    out.append(f'Definition default_from_string : fs_tag := {defaults["default_from_string"]}.')
    out.append('')
    out.append('(* class EEnum(EDataType) / class EEnumLiteral *)')
    out.append(f'Definition eenum_to_string : ts_tag := {defaults["eenum_to_string"]}.')
    out.append(f'Definition eenum_from_string : enum_fs_tag := {defaults["eenum_from_string"]}.')
    out.append(f'Definition eenum_getEEnumLiteral : enum_get_tag := {defaults["eenum_getEEnumLiteral"]}.')
    out.append(f'Definition eenumliteral_str : lit_str_tag := {defaults["eenumliteral_str"]}.')
    out.append('')
    out.append('(* ecore.py: X = EDataType(\'X\', type, default, from_string=, to_string=, type_as_factory=) *)')
    out.append(f'Definition ecore_datatypes : list dtdecl := {coq_list(e_decls)}.')
    out.append('')
    out.append('(* innerutils.py: javaTransMap; a missing key gives (object, True, None) (instanceClassName setter) *)')
    out.append(f'Definition java_trans_map : list jtentry := {coq_list(jt)}.')
    out.append('')
    out.append('(* innerutils.parse_date: datetime.fromisoformat first, then datetime.strptime over these formats *)')
    out.append(f'Definition parse_date_formats : list string := {coq_list([cstr(f) for f in formats])}.')
    out.append('')
    out.append('(* type/type.py: X = EDataType(\'X\', instanceClassName=, from_string=, to_string=) *)')
    out.append(f'Definition xml_datatypes : list xmldecl := {coq_list(x_decls)}.')
    out.append('')
    return '\n'.join(out)


def refusal_stub(msg):
    """What is written when the source is refused: every name the models need is defined, and the one
    table entry is a str-typed data type with an unrecognised conversion, so that the extracted model
    still builds (it answers "not modelled") while the coverage theorems of Props/C17.v cannot compile."""
    m = ''.join(c if 32 <= ord(c) <= 126 and c != '"' else ' ' for c in msg)[:400]
    return '\n'.join([
        '(* GENERATED by translator/datatypes_gen.py: THE SOURCE WAS REFUSED (see build/translator.status). *)',
        'From Coq Require Import ZArith String List.',
        'From PyecoreV Require Import Model.DataTypeDecl.',
        'Import ListNotations.',
        'Local Open Scope string_scope.',
        f'Definition refusal : string := "{m}".',
        'Definition default_to_string : ts_tag := TS_unrecognised refusal.',
        'Definition default_from_string : fs_tag := FS_unrecognised refusal.',
        'Definition eenum_to_string : ts_tag := TS_unrecognised refusal.',
        'Definition eenum_from_string : enum_fs_tag := EFS_unrecognised refusal.',
        'Definition eenum_getEEnumLiteral : enum_get_tag := EGET_unrecognised refusal.',
        'Definition eenumliteral_str : lit_str_tag := LS_unrecognised refusal.',
        'Definition ecore_datatypes : list dtdecl := [',
        '  {| dt_name := "translator-refused"; dt_type := PT_str; dt_ts := TS_unrecognised refusal;',
        '     dt_fs := FS_unrecognised refusal; dt_default := DF_None; dt_factory := false |} ].',
        'Definition java_trans_map : list jtentry := [].',
        'Definition parse_date_formats : list string := [].',
        'Definition xml_datatypes : list xmldecl := [',
        '  {| xd_name := "translator-refused"; xd_icn := "java.lang.String"; xd_ts := TS_unrecognised refusal;',
        '     xd_fs := FS_unrecognised refusal |} ].',
        ''])


def main():
    try:
        text = generate()
    except Refuse as e:
        write_if_changed(OUT, refusal_stub(str(e)))
        return f'datatypes_gen refused: {e}'
    write_if_changed(OUT, text)
    return None


if __name__ == '__main__':
    r = main()
    if r:
        print(r, file=sys.stderr)
        sys.exit(1)
