(* C06, references WITH an opposite (metamodels without containment).
   Per command kind, on the kernel model: undo after execute restores every slot, redo after
   that undo restores the state after the command, under the property's side condition (the
   command does not take its value away from an opposite partner):
     Set    on a single-valued reference, opposite single-valued (1-1) or many-valued (1-n),
     Add    on a many-valued reference, opposite single-valued (n-1) or many-valued (n-n),
     Remove on a many-valued reference, opposite single-valued (n-1) or many-valued (n-n).
   Where re-linking goes through append() on a many-valued opposite end (Set 1-n with a previous
   partner, Remove n-n) the slots come back as LISTS only if the owner was the last element of
   its partner's collection; in general they come back with the same MEMBERS (known finding
   F-C06-relink-order, exhibited in Props/C06.v).
   Then the (done, undone) invariant and `k undos then k redos = identity` for words whose
   commands are of these kinds or of the kinds of Proofs/C06Proofs.v.
   Last section: containment references WITHOUT opposite, in any metamodel (Add / Remove on a
   containment collection, Set on a single-valued containment), where the child put under the owner
   is neither contained nor a resource root: values, order AND containers come back.
   Builds on Proofs/C01Proofs.v, Proofs/C01Full.v (value-store equations, symmetry + shape
   invariant) and Proofs/C03Proofs.v (typed slots). *)
From Coq Require Import ZArith List Bool Arith Lia.
From PyecoreV Require Import Lib.PyBase Lib.PyList Model.Kernel Model.KernelIO Model.Commands
     Proofs.PyListFacts Proofs.KernelFacts Proofs.C01Proofs Proofs.C01Full Proofs.C03Proofs Proofs.C06Proofs.
Import ListNotations.
Open Scope nat_scope.

Notation hd1 := C01Proofs.hdv.

(* ====================================================================== *)
(* 1. Frame: without containment, container / resource fields never move   *)
(* ====================================================================== *)
Definition crr (s : state) := (cont s, eres s, rcont s).

Section Frame.
Variable m : mm.
Hypothesis Hnc : no_containment m.

Lemma crr_set_none_raw s k : crr (set_none_raw m s k) = crr s.
Proof. unfold set_none_raw. destruct (f_isref (fd m (snd k))); rewrite ?(uc_clear_id m Hnc); reflexivity. Qed.

Lemma crr_set_obj_raw s k x : crr (set_obj_raw m s k x) = crr s.
Proof. unfold set_obj_raw. destruct (f_isref (fd m (snd k))); rewrite ?(update_container_id m Hnc); reflexivity. Qed.

Lemma crr_coll_remove_raw s k x : crr (coll_remove_raw m s k x) = crr s.
Proof. unfold coll_remove_raw. destruct (vmem (VObj x) (vals s k)); rewrite ?(uc_clear_id m Hnc); reflexivity. Qed.

Lemma crr_coll_append_raw s k x : crr (coll_append_raw m s k x) = crr s.
Proof. unfold coll_append_raw. rewrite (update_container_id m Hnc). reflexivity. Qed.

Lemma crr_inv_add s o c : crr (inv_add s o c) = crr s.
Proof. unfold inv_add. destruct (cmem c (inv s o)); reflexivity. Qed.

Lemma crr_update_opposite_remove s x f y : crr (update_opposite_remove m s x f y) = crr s.
Proof.
  unfold update_opposite_remove. destruct (f_opp (fd m f)) as [g|].
  - destruct (f_many (fd m g)); [destruct (cell_eqb (y, g) (x, f)); [reflexivity | apply crr_coll_remove_raw]
                                | apply crr_set_none_raw].
  - destruct (cmem (x, f) (inv s y)); [reflexivity | apply crr_inv_add].
Qed.

Lemma crr_unlink_elem s x f v : crr (unlink_elem m s x f v) = crr s.
Proof.
  unfold unlink_elem. destruct (f_isref (fd m f)); [|reflexivity]. destruct (obj_of v); [|reflexivity].
  rewrite (uc_clear_id m Hnc). apply crr_update_opposite_remove.
Qed.

Lemma crr_update_opposite_add s x f y : crr (update_opposite_add m s x f y) = crr s.
Proof.
  unfold update_opposite_add. destruct (f_opp (fd m f)) as [g|]; [|apply crr_inv_add].
  destruct (f_many (fd m g)).
  - destruct (cell_eqb (y, g) (x, f)); [reflexivity | apply crr_coll_append_raw].
  - rewrite crr_set_obj_raw. destruct (obj_of (single s (y, g))) as [c|]; [|reflexivity].
    destruct (c =? x); [reflexivity | apply crr_coll_remove_raw].
Qed.

Lemma crr_link_elem s x f v : crr (link_elem m s x f v) = crr s.
Proof.
  unfold link_elem. destruct (f_isref (fd m f)); [|reflexivity]. destruct (obj_of v); [|reflexivity].
  rewrite (update_container_id m Hnc). apply crr_update_opposite_add.
Qed.

Lemma crr_set_full s x f v : crr (snd (set_full m s (x, f) v)) = crr s.
Proof.
  unfold set_full. destruct (check_single m f v); cbn [negb]; [|reflexivity].
  destruct (f_isref (fd m f)); cbn [negb]; [|reflexivity].
  rewrite (update_container_id m Hnc).
  destruct (f_opp (fd m f)) as [g|].
  - set (s3 := match obj_of (single s (x, f)) with
               | Some q =>
                 if match obj_of v with Some y => y =? q | None => false end then set_store m s (x, f) v
                 else if f_many (fd m g) then coll_remove_raw m (set_store m s (x, f) v) (q, g) x
                 else if cell_eqb (q, g) (x, f) then set_store m s (x, f) v
                      else set_none_raw m (set_store m s (x, f) v) (q, g)
               | None => set_store m s (x, f) v end).
    assert (H3 : crr s3 = crr s).
    { unfold s3. destruct (obj_of (single s (x, f))) as [q|]; [|reflexivity].
      destruct (match obj_of v with Some y => y =? q | None => false end); [reflexivity|].
      destruct (f_many (fd m g)); [rewrite crr_coll_remove_raw; reflexivity|].
      destruct (cell_eqb (q, g) (x, f)); [reflexivity | rewrite crr_set_none_raw; reflexivity]. }
    destruct (obj_of v) as [y|]; [|exact H3].
    destruct (f_many (fd m g)); cbn [snd].
    + rewrite crr_coll_append_raw. exact H3.
    + rewrite crr_set_obj_raw.
      destruct (obj_of (single s3 (y, g))) as [c|]; [|exact H3].
      destruct (c =? x); [exact H3 | rewrite crr_set_none_raw; exact H3].
  - cbn [snd]. destruct (obj_of v); destruct (obj_of (single s (x, f))); rewrite ?crr_inv_add; reflexivity.
Qed.

Lemma crr_coll_add_full s x f pos v : crr (snd (coll_add_full m s (x, f) pos v)) = crr s.
Proof.
  unfold coll_add_full. destruct (check_elem m f v); cbn [negb snd]; [|reflexivity].
  exact (crr_link_elem s x f v).
Qed.

Lemma crr_coll_pop_full s x f i : crr (snd (fst (coll_pop_full m s (x, f) i))) = crr s.
Proof.
  unfold coll_pop_full. destruct (vals s (x, f)) as [|a l] eqn:El; [reflexivity|]. rewrite <- El.
  destruct (py_pop i (vals s (x, f))) as [[v l']|]; [|reflexivity]. cbn [fst snd].
  exact (crr_unlink_elem (set_vals s (x, f) l') x f v).
Qed.
End Frame.

(* equal value stores + equal frames = equal observations *)
Lemma obs_eq_intro s t : (forall k, vals s k = vals t k) -> crr s = crr t -> obs_eq s t.
Proof. unfold crr. intros V H. inversion H as [[C E R]]. repeat split; intros; congruence. Qed.

Lemma obs_eq_crr s t : obs_eq s t -> (forall o, cont s o = cont t o) /\ (forall o, eres s o = eres t o) /\ (forall r, rcont s r = rcont t r).
Proof. intros (_ & B & C & D). auto. Qed.

(* pointwise version, for states only known up to obs_eq *)
Definition crr_eq (s t : state) : Prop :=
  (forall o, cont s o = cont t o) /\ (forall o, eres s o = eres t o) /\ (forall r, rcont s r = rcont t r).

Lemma crr_eq_of_eq s t : crr s = crr t -> crr_eq s t.
Proof. unfold crr. intros H. inversion H as [[C E R]]. repeat split; intros; congruence. Qed.

Lemma crr_eq_trans s t u : crr_eq s t -> crr_eq t u -> crr_eq s u.
Proof. intros (A & B & C) (A' & B' & C'). repeat split; intros; [rewrite A | rewrite B | rewrite C]; auto. Qed.

Lemma crr_eq_sym s t : crr_eq s t -> crr_eq t s.
Proof. intros (A & B & C). repeat split; intros; symmetry; auto. Qed.

Lemma obs_eq_intro' s t : (forall k, vals s k = vals t k) -> crr_eq s t -> obs_eq s t.
Proof. intros V (A & B & C). repeat split; assumption. Qed.

Lemma obs_eq_crr_eq s t : obs_eq s t -> crr_eq s t.
Proof. intros (_ & B & C & D). repeat split; assumption. Qed.

(* ====================================================================== *)
(* 2. The value store after EValue._set, as a function of the store before *)
(* ====================================================================== *)
Section Stores.
Variable m : mm.
Hypothesis Hnc : no_containment m.

Definition Sval (V : cell -> list value) (x : oid) (f : fid) (v : value) : cell -> list value :=
  let pv := hd1 (V (x, f)) in
  let V1 := upd V (x, f) [v] in
  if negb (f_isref (fd m f)) then V1 else
  match f_opp (fd m f) with
  | None => V1
  | Some g =>
    let V3 := match obj_of pv with
              | Some q =>
                if (match obj_of v with Some y => y =? q | None => false end) then V1
                else if f_many (fd m g) then
                       (if vmem (VObj x) (V1 (q, g)) then upd V1 (q, g) (raw_remove (VObj x) (V1 (q, g))) else V1)
                else if cell_eqb (q, g) (x, f) then V1 else upd V1 (q, g) [VNone]
              | None => V1
              end in
    match obj_of v with
    | None => V3
    | Some y =>
      if f_many (fd m g) then upd V3 (y, g) (raw_append (f_unique (fd m g)) (VObj x) (V3 (y, g)))
      else
        let V4 := match obj_of (hd1 (V3 (y, g))) with
                  | Some c => if c =? x then V3 else upd V3 (c, f) [VNone]
                  | None => V3
                  end in
        upd V4 (y, g) [VObj x]
    end
  end.

Lemma vals_inv_add s o c : vals (inv_add s o c) = vals s.
Proof. unfold inv_add. destruct (cmem c (inv s o)); reflexivity. Qed.

Lemma vals_set_full s x f v :
  check_single m f v = true ->
  vals (snd (set_full m s (x, f) v)) = Sval (vals s) x f v.
Proof.
  intros Hc. unfold set_full, Sval. rewrite Hc. cbn [negb].
  destruct (f_isref (fd m f)); cbn [negb snd]; [|reflexivity].
  rewrite (update_container_id m Hnc).
  change (single s (x, f)) with (hd1 (vals s (x, f))).
  destruct (f_opp (fd m f)) as [g|].
  - set (pv := hd1 (vals s (x, f))). set (s1 := set_store m s (x, f) v).
    change (upd (vals s) (x, f) [v]) with (vals s1).
    cbv zeta.
    set (s3 := match obj_of pv with
               | Some q =>
                 if match obj_of v with Some y => y =? q | None => false end then s1
                 else if f_many (fd m g) then coll_remove_raw m s1 (q, g) x
                 else if cell_eqb (q, g) (x, f) then s1 else set_none_raw m s1 (q, g)
               | None => s1 end).
    assert (H3 : vals s3 =
                 match obj_of pv with
                 | Some q =>
                   if match obj_of v with Some y => y =? q | None => false end then vals s1
                   else if f_many (fd m g) then
                          (if vmem (VObj x) (vals s1 (q, g)) then upd (vals s1) (q, g) (raw_remove (VObj x) (vals s1 (q, g))) else vals s1)
                   else if cell_eqb (q, g) (x, f) then vals s1 else upd (vals s1) (q, g) [VNone]
                 | None => vals s1 end).
    { unfold s3. destruct (obj_of pv) as [q|]; [|reflexivity].
      destruct (match obj_of v with Some y => y =? q | None => false end); [reflexivity|].
      destruct (f_many (fd m g)); [apply (vals_coll_remove_raw m Hnc)|].
      destruct (cell_eqb (q, g) (x, f)); [reflexivity | apply (vals_set_none_raw m Hnc)]. }
    rewrite <- H3.
    destruct (obj_of v) as [y|]; [|reflexivity].
    destruct (f_many (fd m g)); cbn [snd].
    + apply (vals_coll_append_raw m Hnc).
    + rewrite (vals_set_obj_raw m Hnc). change (single s3 (y, g)) with (hd1 (vals s3 (y, g))).
      destruct (obj_of (hd1 (vals s3 (y, g)))) as [c|]; [|reflexivity].
      destruct (c =? x); [reflexivity|]. rewrite (vals_set_none_raw m Hnc). reflexivity.
  - cbn [snd]. destruct (obj_of v); destruct (obj_of (hd1 (vals s (x, f)))); rewrite ?vals_inv_add; reflexivity.
Qed.

(* outcome of _set: BadValueError exactly when the type check fails *)
Lemma set_full_outcome s x f v :
  fst (set_full m s (x, f) v) = if check_single m f v then None else Some BadValue.
Proof.
  unfold set_full. destruct (check_single m f v); cbn [negb]; [|reflexivity].
  destruct (f_isref (fd m f)); cbn [negb]; [|reflexivity].
  destruct (f_opp (fd m f)) as [g|]; [|reflexivity].
  destruct (obj_of v) as [y|]; [|reflexivity]. destruct (f_many (fd m g)); reflexivity.
Qed.

(* extensionality of the three store functions *)
Lemma Sval_ext V W x f v : (forall k, V k = W k) -> forall k, Sval V x f v k = Sval W x f v k.
Proof.
  intros E. unfold Sval. rewrite (E (x, f)).
  assert (E1 : forall k, upd V (x, f) [v] k = upd W (x, f) [v] k) by (apply upd_ext; exact E).
  destruct (negb (f_isref (fd m f))); [exact E1|].
  destruct (f_opp (fd m f)) as [g|]; [|exact E1]. cbv zeta.
  set (A3 := match obj_of (hd1 (W (x, f))) with
             | Some q => if match obj_of v with Some y => y =? q | None => false end then upd V (x, f) [v]
                         else if f_many (fd m g) then
                                (if vmem (VObj x) (upd V (x, f) [v] (q, g))
                                 then upd (upd V (x, f) [v]) (q, g) (raw_remove (VObj x) (upd V (x, f) [v] (q, g)))
                                 else upd V (x, f) [v])
                         else if cell_eqb (q, g) (x, f) then upd V (x, f) [v] else upd (upd V (x, f) [v]) (q, g) [VNone]
             | None => upd V (x, f) [v] end).
  set (B3 := match obj_of (hd1 (W (x, f))) with
             | Some q => if match obj_of v with Some y => y =? q | None => false end then upd W (x, f) [v]
                         else if f_many (fd m g) then
                                (if vmem (VObj x) (upd W (x, f) [v] (q, g))
                                 then upd (upd W (x, f) [v]) (q, g) (raw_remove (VObj x) (upd W (x, f) [v] (q, g)))
                                 else upd W (x, f) [v])
                         else if cell_eqb (q, g) (x, f) then upd W (x, f) [v] else upd (upd W (x, f) [v]) (q, g) [VNone]
             | None => upd W (x, f) [v] end).
  assert (E3 : forall k, A3 k = B3 k).
  { unfold A3, B3. destruct (obj_of (hd1 (W (x, f)))) as [q|]; [|exact E1].
    destruct (match obj_of v with Some y => y =? q | None => false end); [exact E1|].
    destruct (f_many (fd m g)).
    - rewrite (E1 (q, g)). destruct (vmem (VObj x) (upd W (x, f) [v] (q, g))); [apply upd_ext|]; exact E1.
    - destruct (cell_eqb (q, g) (x, f)); [|apply upd_ext]; exact E1. }
  destruct (obj_of v) as [y|]; [|exact E3].
  destruct (f_many (fd m g)).
  - rewrite (E3 (y, g)). apply upd_ext. exact E3.
  - rewrite (E3 (y, g)). apply upd_ext.
    destruct (obj_of (hd1 (B3 (y, g)))) as [c|]; [|exact E3].
    destruct (c =? x); [|apply upd_ext]; exact E3.
Qed.

Lemma Lval_ext V W x f v : (forall k, V k = W k) -> forall k, Lval m V x f v k = Lval m W x f v k.
Proof.
  intros E. unfold Lval. destruct (f_isref (fd m f)); [|exact E].
  destruct (obj_of v) as [y|]; [|exact E]. destruct (f_opp (fd m f)) as [g|]; [|exact E].
  destruct (f_many (fd m g)).
  - destruct (cell_eqb (y, g) (x, f)); [exact E|]. rewrite (E (y, g)). apply upd_ext. exact E.
  - cbv zeta. rewrite (E (y, g)). apply upd_ext.
    destruct (obj_of (hd1 (W (y, g)))) as [c|]; [|exact E].
    destruct (c =? x); [exact E|]. rewrite (E (c, f)).
    destruct (vmem (VObj y) (W (c, f))); [apply upd_ext|]; exact E.
Qed.

Lemma Uval_ext V W x f v : (forall k, V k = W k) -> forall k, Uval m V x f v k = Uval m W x f v k.
Proof.
  intros E. unfold Uval. destruct (f_isref (fd m f)); [|exact E].
  destruct (obj_of v) as [y|]; [|exact E]. destruct (f_opp (fd m f)) as [g|]; [|exact E].
  destruct (f_many (fd m g)).
  - destruct (cell_eqb (y, g) (x, f)); [exact E|]. rewrite (E (y, g)).
    destruct (vmem (VObj x) (W (y, g))); [apply upd_ext|]; exact E.
  - apply upd_ext. exact E.
Qed.

(* ---------- add / pop as store functions, with their outcomes ---------- *)
Lemma add_full_ok s x f pos v :
  f_many (fd m f) = true -> check_elem m f v = true ->
  exists s', coll_add_full m s (x, f) pos v = (None, s') /\
             (forall k, vals s' k =
                        upd (Lval m (vals s) x f v) (x, f)
                            (match pos with
                             | Some i => raw_insert (f_unique (fd m f)) i v (vals s (x, f))
                             | None => raw_append (f_unique (fd m f)) v (vals s (x, f)) end) k) /\
             crr s' = crr s.
Proof.
  intros Hm Hc. exists (snd (coll_add_full m s (x, f) pos v)). split; [|split].
  - unfold coll_add_full. rewrite Hc. reflexivity.
  - apply (vals_add_full m Hnc); assumption.
  - apply (crr_coll_add_full m Hnc).
Qed.

Lemma pop_full_ok s x f i w l' :
  f_many (fd m f) = true -> py_pop i (vals s (x, f)) = Some (w, l') ->
  exists s', coll_pop_full m s (x, f) i = ((None, s'), Some w) /\
             (forall k, vals s' k = upd (Uval m (vals s) x f w) (x, f) l' k) /\
             crr s' = crr s.
Proof.
  intros Hm P. pose proof (crr_coll_pop_full m Hnc s x f i) as HC.
  unfold coll_pop_full in *. destruct (vals s (x, f)) as [|a l] eqn:El.
  - rewrite py_pop_nil in P. discriminate.
  - rewrite <- El in *. rewrite P in *. cbn [fst snd] in HC. eexists. split; [reflexivity|]. split; [|exact HC].
    intros k. cbn [vals notify push_log]. rewrite (vals_unlink m Hnc). cbn [vals set_vals].
    apply Uval_comm. exact Hm.
Qed.

Lemma pop_full_inv s x f i s1 w :
  coll_pop_full m s (x, f) i = ((None, s1), w) ->
  exists w' l2, py_pop i (vals s (x, f)) = Some (w', l2) /\ w = Some w'.
Proof.
  intros H. unfold coll_pop_full in H.
  destruct (vals s (x, f)) as [|y ys] eqn:E; [inversion H|].
  destruct (py_pop i (y :: ys)) as [[w' l2]|]; [|inversion H].
  inversion H. exists w', l2. auto.
Qed.
End Stores.

(* ====================================================================== *)
(* 3. Releasing and attaching a partner: normal forms and their algebra    *)
(* ====================================================================== *)
Lemma nodup_objs_removed n l y :
  nodup_objs l -> nth_error l n = Some (VObj y) -> ~ In (VObj y) (remove_at n l).
Proof.
  unfold nodup_objs. revert n. induction l as [|a r IH]; intros n ND H; [destruct n; discriminate|].
  destruct n as [|n]; cbn [nth_error remove_at] in *.
  - inversion H; subst a. simpl in ND. inversion ND as [|? ? Hn _]; subst. rewrite <- objs_of_In. exact Hn.
  - assert (ND' : NoDup (objs_of r)).
    { destruct (objs_of_cons_cases a r) as [[z [Ea E1]]|[Ea E1]]; rewrite E1 in ND; [inversion ND; assumption | exact ND]. }
    intros [Ha|Hin]; [|exact (IH n ND' H Hin)].
    subst a. simpl in ND. inversion ND as [|? ? Hn _]; subst. apply Hn. apply objs_of_In. eapply nth_error_In; exact H.
Qed.

Lemma nodup_objs_app_last l0 x : nodup_objs (l0 ++ [VObj x]) -> ~ In (VObj x) l0.
Proof.
  unfold nodup_objs. rewrite objs_of_app. simpl. intros ND Hin. apply objs_of_In in Hin.
  induction (objs_of l0) as [|a r IH]; simpl in *; [contradiction|].
  inversion ND as [|? ? Hn ND']; subst. destruct Hin as [->|Hin]; [|exact (IH ND' Hin)].
  apply Hn. apply in_or_app. right. left. reflexivity.
Qed.

Lemma index_of_veqb_nth v l n :
  index_of veqb v l = Some n -> exists w, nth_error l n = Some w /\ veqb w v = true.
Proof.
  revert n. induction l as [|a r IH]; simpl; intros n H; [discriminate|].
  destruct (veqb a v) eqn:E.
  - inversion H; subst n. exists a. split; [reflexivity | exact E].
  - destruct (index_of veqb v r) as [j|]; [|discriminate]. inversion H; subst n.
    destruct (IH j eq_refl) as (w & Hw & Ew). exists w. split; assumption.
Qed.

Lemma rr_app_last x l : ~ In (VObj x) l -> raw_remove (VObj x) (l ++ [VObj x]) = l.
Proof.
  intros Hn. unfold raw_remove.
  assert (H : remove_first veqb (VObj x) (l ++ [VObj x]) = Some l).
  { induction l as [|a r IH]; simpl.
    - rewrite C06Proofs.veqb_refl. reflexivity.
    - destruct (veqb a (VObj x)) eqn:E.
      + apply veqb_obj_r in E. subst a. exfalso. apply Hn. left. reflexivity.
      + rewrite IH; [reflexivity | intros H; apply Hn; right; exact H]. }
  rewrite H. reflexivity.
Qed.

Lemma upd_id {A} (V : cell -> A) c k : upd V c (V c) k = V k.
Proof. unfold upd. destruct (cell_eqb_spec c k); [subst; reflexivity | reflexivity]. Qed.

(* x is the last element of l *)
Definition lastv (v : value) (l : list value) : Prop := exists l0, l = l0 ++ [v].

Section Pair.
Variable m : mm.
Hypothesis Hnc : no_containment m.
Hypothesis Hwf : wf_opp m.
Variables f g : fid.
Hypothesis Hfg : f_opp (fd m f) = Some g.
Hypothesis Hne : f <> g.

Lemma Hgf : f_opp (fd m g) = Some f.
Proof. exact (proj1 (Hwf f g Hfg)). Qed.

Lemma Hreff : f_isref (fd m f) = true.
Proof. exact (proj1 (proj2 (Hwf f g Hfg))). Qed.

Lemma Huniq_g : f_many (fd m g) = true -> f_unique (fd m g) = true.
Proof. exact (proj2 (proj2 (Hwf g f Hgf))). Qed.

Lemma Huniq_f : f_many (fd m f) = true -> f_unique (fd m f) = true.
Proof. exact (proj2 (proj2 (Hwf f g Hfg))). Qed.

Lemma cell_fg (a b : oid) : ((a, f) : cell) <> (b, g).
Proof. intros E. inversion E. congruence. Qed.

Lemma cell_gf (a b : oid) : ((a, g) : cell) <> (b, f).
Proof. intros E. inversion E. congruence. Qed.

(* x leaves the g-slot of q / enters the g-slot of y *)
Definition relv (V : cell -> list value) (x q : oid) : cell -> list value :=
  upd V (q, g) (if f_many (fd m g) then raw_remove (VObj x) (V (q, g)) else [VNone]).

Definition attv (V : cell -> list value) (x y : oid) : cell -> list value :=
  upd V (y, g) (if f_many (fd m g) then V (y, g) ++ [VObj x] else [VObj x]).

(* the slot of y is free for x *)
Definition free_for (V : cell -> list value) (x y : oid) : Prop :=
  if f_many (fd m g) then ~ In (VObj x) (V (y, g)) else V (y, g) = [VNone].

Lemma relv_ext V W x q : (forall k, V k = W k) -> forall k, relv V x q k = relv W x q k.
Proof. intros E k. unfold relv. rewrite (E (q, g)). apply upd_ext. exact E. Qed.

Lemma attv_ext V W x y : (forall k, V k = W k) -> forall k, attv V x y k = attv W x y k.
Proof. intros E k. unfold attv. rewrite (E (y, g)). apply upd_ext. exact E. Qed.

Lemma Lval_nf V x y :
  free_for V x y -> forall k, Lval m V x f (VObj y) k = attv V x y k.
Proof.
  intros Hf k. unfold Lval, attv, free_for in *. rewrite Hreff, Hfg. cbn [obj_of].
  destruct (f_many (fd m g)) eqn:Mg.
  - destruct (cell_eqb_spec (y, g) (x, f)) as [E|N]; [exfalso; exact (cell_gf y x E)|].
    rewrite (Huniq_g Mg). unfold raw_append. cbn [andb].
    destruct (vmem (VObj x) (V (y, g))) eqn:E; [apply vmem_obj in E; contradiction | reflexivity].
  - cbv zeta. rewrite Hf. reflexivity.
Qed.

Lemma Uval_nf V x y :
  (f_many (fd m g) = true -> In (VObj x) (V (y, g))) ->
  forall k, Uval m V x f (VObj y) k = relv V x y k.
Proof.
  intros Hin k. unfold Uval, relv. rewrite Hreff, Hfg. cbn [obj_of].
  destruct (f_many (fd m g)) eqn:Mg; [|reflexivity].
  destruct (cell_eqb_spec (y, g) (x, f)) as [E|N]; [exfalso; exact (cell_gf y x E)|].
  specialize (Hin eq_refl). apply vmem_obj in Hin. rewrite Hin. reflexivity.
Qed.

(* attach then release: exact *)
Lemma rel_att V x y : free_for V x y -> forall k, relv (attv V x y) x y k = V k.
Proof.
  intros Hf k. unfold relv, attv, free_for in *. rewrite upd_same.
  destruct (f_many (fd m g)).
  - rewrite (rr_app_last x _ Hf). rewrite upd_upd. apply upd_id.
  - rewrite upd_upd. rewrite <- Hf. apply upd_id.
Qed.

(* release then attach: exact when x was the last element (or the end is single-valued) *)
Lemma att_rel V x q :
  (if f_many (fd m g) then exists l0, V (q, g) = l0 ++ [VObj x] /\ ~ In (VObj x) l0 else V (q, g) = [VObj x]) ->
  forall k, attv (relv V x q) x q k = V k.
Proof.
  intros H k. unfold relv, attv. rewrite upd_same.
  destruct (f_many (fd m g)).
  - destruct H as (l0 & E & Hn). rewrite E, (rr_app_last x l0 Hn), upd_upd, <- E. apply upd_id.
  - rewrite upd_upd, <- H. apply upd_id.
Qed.

(* in general: the same members come back, x at the end *)
Lemma att_rel_members V x q :
  f_many (fd m g) = true -> nodup_objs (V (q, g)) -> In (VObj x) (V (q, g)) ->
  (forall k, k <> (q, g) -> attv (relv V x q) x q k = V k) /\
  (forall b, In (VObj b) (attv (relv V x q) x q (q, g)) <-> In (VObj b) (V (q, g))) /\
  lastv (VObj x) (attv (relv V x q) x q (q, g)).
Proof.
  intros Mg ND Hin. unfold relv, attv. rewrite Mg, !upd_same. split; [|split].
  - intros k Nk. rewrite !upd_other by (intros E; apply Nk; symmetry; exact E). reflexivity.
  - intros b. rewrite in_app_iff. destruct (raw_remove_obj_In x _ ND Hin) as [Hr _]. rewrite Hr. simpl.
    destruct (Nat.eq_dec b x) as [->|Nb]; [tauto|]. split; [intros [[H _]|[H|[]]]; [exact H | congruence] | tauto].
  - eexists. reflexivity.
Qed.

(* own-cell writes commute with both *)
Lemma relv_own V a L x q k : relv (upd V (a, f) L) x q k = upd (relv V x q) (a, f) L k.
Proof.
  unfold relv. rewrite (upd_other V (a, f) (q, g)) by apply cell_fg.
  apply upd_comm. apply cell_fg.
Qed.

Lemma attv_own V a L x y k : attv (upd V (a, f) L) x y k = upd (attv V x y) (a, f) L k.
Proof.
  unfold attv. rewrite (upd_other V (a, f) (y, g)) by apply cell_fg.
  apply upd_comm. apply cell_fg.
Qed.

(* different partners do not interfere *)
Lemma attv_relv_comm V x q y k : q <> y -> attv (relv V x q) x y k = relv (attv V x y) x q k.
Proof.
  intros N. unfold attv, relv.
  rewrite (upd_other _ (q, g) (y, g)) by (intros E; inversion E; congruence).
  rewrite (upd_other _ (y, g) (q, g)) by (intros E; inversion E; congruence).
  apply upd_comm. intros E; inversion E; congruence.
Qed.

Lemma relv_at V x q k : k <> (q, g) -> relv V x q k = V k.
Proof. intros N. unfold relv. apply upd_other. intros E; apply N; symmetry; exact E. Qed.

Lemma attv_at V x y k : k <> (y, g) -> attv V x y k = V k.
Proof. intros N. unfold attv. apply upd_other. intros E; apply N; symmetry; exact E. Qed.
End Pair.

(* ====================================================================== *)
(* 4. Add / Remove / Set on references with an opposite                    *)
(* ====================================================================== *)
Lemma pw_trans {A} (F G H : cell -> A) : (forall k, F k = G k) -> (forall k, G k = H k) -> forall k, F k = H k.
Proof. intros E1 E2 k. rewrite E1. apply E2. Qed.

Lemma pw_sym {A} (F G : cell -> A) : (forall k, F k = G k) -> forall k, G k = F k.
Proof. intros E k. symmetry. apply E. Qed.

Section RefCmds.
Variable m : mm.
Hypothesis Hnc : no_containment m.
Hypothesis Hwf : wf_opp m.
Variables f g : fid.
Hypothesis Hfg : f_opp (fd m f) = Some g.
Hypothesis Hne : f <> g.

Notation relv' := (relv m g).
Notation attv' := (attv m g).

Lemma sym_fg s a b : Inv m s -> (In (VObj b) (vals s (a, f)) <-> In (VObj a) (vals s (b, g))).
Proof. intros [Hs _]. exact (Hs f g Hfg a b). Qed.

Lemma nodup_f s a : Inv m s -> nodup_objs (vals s (a, f)).
Proof. intros [_ Hsh]. apply (proj2 (Hsh a f)). congruence. Qed.

Lemma nodup_g s a : Inv m s -> nodup_objs (vals s (a, g)).
Proof. intros [_ Hsh]. apply (proj2 (Hsh a g)). rewrite (Hgf m Hwf f g Hfg). congruence. Qed.

(* --- Add --- *)
Lemma add_ref_inverts s x y idx c1 s' c' :
  f_many (fd m f) = true -> Inv m s ->
  (f_many (fd m g) = false -> vals s (y, g) = [VNone]) ->          (* y is nobody's partner yet *)
  can_execute m s (CAdd x f (VObj y) idx) = (Ok true, c1) ->
  execute m s c1 = ((None, s'), c') ->
  exists i', c' = CAdd x f (VObj y) (Some i') /\
             inverts m c' s s' /\
             (forall k, vals s' k = upd (attv' (vals s) x y) (x, f) (py_insert i' (VObj y) (vals s (x, f))) k) /\
             crr s' = crr s /\ exists pos, s' = snd (coll_add_full m s (x, f) pos (VObj y)).
Proof.
  intros M HI Hfree HC HE. set (V := vals s). set (l := V (x, f)). set (v := VObj y) in *.
  pose proof (Huniq_f m Hwf f g Hfg M) as U.
  cbn [can_execute] in HC. destruct (negb (base_can m x f)); [discriminate|]. rewrite M in HC. cbn [negb] in HC.
  apply pair_eq_inv in HC. destruct HC as [HB Hc1]. subst c1.
  injection HB as HU. unfold v in HU. cbn [is_none negb andb] in HU. apply negb_true_iff in HU.
  rewrite U in HU. cbn [andb] in HU. fold V l in HU. fold v in HU.
  assert (Abs : f_unique (fd m f) = true -> vmem v l = false) by (intros _; exact HU).
  assert (Hny : ~ In (VObj y) l) by (apply vmem_obj_false; exact HU).
  assert (Ff : free_for m g V x y).
  { unfold free_for. destruct (f_many (fd m g)) eqn:Mg; [|apply Hfree; reflexivity].
    intros H. apply Hny. apply (sym_fg s x y HI). exact H. }
  (* the two shapes of the index *)
  assert (EX : exists pos i', (0 <= i' <= zlen l)%Z /\ c' = CAdd x f v (Some i') /\
                              coll_add_full m s (x, f) pos v = (None, s') /\
                              match pos with
                              | Some i => raw_insert (f_unique (fd m f)) i v l
                              | None => raw_append (f_unique (fd m f)) v l end = py_insert i' v l).
  { cbn [execute] in HE. destruct idx as [i|]; apply pair_eq_inv in HE; destruct HE as [H1 H2].
    - exists (Some (ins_pos (zlen l) i)), (ins_pos (zlen l) i). split; [apply clamp_index_range, zlen_nonneg|].
      split; [symmetry; exact H2|]. split; [exact H1 | apply raw_insert_absent; exact Abs].
    - exists None, (zlen l). split; [pose proof (zlen_nonneg l); lia|]. split; [symmetry; exact H2|].
      split; [exact H1|]. rewrite (raw_append_absent _ _ _ Abs), py_insert_len. reflexivity. }
  destruct EX as (pos & i' & Ri & Ec & Ea & El). exists i'. split; [exact Ec|].
  subst v. set (v := VObj y) in *.
  assert (Eproc : s' = snd (coll_add_full m s (x, f) pos v)) by (rewrite Ea; reflexivity).
  destruct (check_elem m f v) eqn:Cv.
  2:{ rewrite (coll_add_bad m s (x, f) pos v Cv) in Ea. discriminate. }
  destruct (add_full_ok m Hnc s x f pos v M Cv) as (s1 & E1 & V1 & C1).
  rewrite E1 in Ea. inversion Ea; subst s1. clear Ea E1. fold V l in V1. rewrite El in V1.
  set (l1 := py_insert i' v l) in *.
  assert (VS : forall k, vals s' k = upd (attv' V x y) (x, f) l1 k).
  { intros k. rewrite V1. apply upd_ext. apply (Lval_nf m Hwf f g Hfg Hne). exact Ff. }
  split; [|split; [exact VS | split; [exact C1 | exists pos; exact Eproc]]].
  clear Eproc. subst c'. split.
  - (* undo *)
    intros t Ht. pose proof Ht as (Vt & _). cbn [can_undo undo idx_or0].
    assert (Et : vals t (x, f) = l1) by (rewrite (Vt (x, f)), VS; apply upd_same).
    rewrite Et. split; [f_equal; apply vmem_In; apply py_insert_In; left; reflexivity|].
    assert (Pp : py_pop i' (vals t (x, f)) = Some (v, l)) by (rewrite Et; apply py_pop_insert; exact Ri).
    destruct (pop_full_ok m Hnc t x f i' v l M Pp) as (t' & Et' & Vt' & Ct').
    exists t'. rewrite Et'. split; [reflexivity|].
    apply obs_eq_intro'.
    + intros k. rewrite Vt'.
      (* Uval (vals t) = relv (upd (attv V) (x,f) l1) = upd (relv (attv V)) (x,f) l1 = upd V (x,f) l1 *)
      assert (E1 : forall k0, Uval m (vals t) x f v k0 = upd V (x, f) l1 k0).
      { intros k0.
        rewrite (Uval_ext m (vals t) (upd (attv' V x y) (x, f) l1) x f v (fun k1 => eq_trans (Vt k1) (VS k1))).
        unfold v. rewrite (Uval_nf m Hwf f g Hfg Hne).
        - rewrite (relv_own m f g Hne). apply upd_ext. apply (rel_att m g). exact Ff.
        - intros Mg. rewrite (upd_other _ (x, f) (y, g)) by (apply (cell_fg f g Hne)).
          unfold attv. rewrite upd_same, Mg. apply in_or_app. right. left. reflexivity. }
      rewrite (upd_ext _ _ (x, f) l E1). rewrite upd_upd. apply upd_id.
    + eapply crr_eq_trans; [apply crr_eq_of_eq; exact Ct'|].
      eapply crr_eq_trans; [apply obs_eq_crr_eq; exact Ht|]. apply crr_eq_of_eq. exact C1.
  - (* redo *)
    intros t Ht. pose proof Ht as (Vt & _). cbn [redo idx_or0].
    destruct (add_full_ok m Hnc t x f (Some i') v M Cv) as (t' & Et' & Vt' & Ct').
    exists t'. rewrite Et'. split; [reflexivity|].
    apply obs_eq_intro'.
    + intros k. rewrite Vt', VS. rewrite (Vt (x, f)). fold V l. rewrite (raw_insert_absent _ _ _ _ Abs).
      apply upd_ext. intros k0. rewrite (Lval_ext m (vals t) V x f v Vt).
      apply (Lval_nf m Hwf f g Hfg Hne). exact Ff.
    + eapply crr_eq_trans; [apply crr_eq_of_eq; exact Ct'|].
      eapply crr_eq_trans; [apply obs_eq_crr_eq; exact Ht|]. apply crr_eq_of_eq. symmetry. exact C1.
Qed.
(* --- Remove --- *)
(* the element the command will remove *)
Definition rm_target (s : state) (x : oid) (v : value) (idx : option Z) (y : oid) : Prop :=
  match idx with
  | Some i => py_get i (vals s (x, f)) = Some (VObj y)
  | None => v = VObj y
  end.

Lemma remove_ref_exec s x v idx c1 s' c' :
  f_many (fd m f) = true -> Inv m s -> typed m s ->
  (forall w, In w (vals s (x, f)) -> exists o, w = VObj o) ->
  can_execute m s (CRemove x f v idx) = (Ok true, c1) ->
  execute m s c1 = ((None, s'), c') ->
  exists i y l2, c' = CRemove x f (VObj y) (Some i) /\ (0 <= i)%Z /\
                 py_pop i (vals s (x, f)) = Some (VObj y, l2) /\ rm_target s x v idx y /\
                 (forall k, vals s' k = upd (relv' (vals s) x y) (x, f) l2 k) /\ crr s' = crr s /\
                 s' = snd (fst (coll_pop_full m s (x, f) i)).
Proof.
  intros M HI HT Hobj HC HE. set (V := vals s). set (l := V (x, f)).
  cbn [can_execute] in HC. destruct (negb (base_can m x f)); [discriminate|]. rewrite M in HC. cbn [negb] in HC.
  assert (EX : exists i v1, (0 <= i)%Z /\
            (let '(o, w) := coll_pop_full m s (x, f) i in
             (o, CRemove x f (match w with Some w' => w' | None => v1 end) (Some i))) = ((None, s'), c') /\
            (forall w' l2 y, py_pop i l = Some (w', l2) -> w' = VObj y -> rm_target s x v idx y)).
  { destruct idx as [i0|].
    - fold V l in HC. destruct (py_get i0 l) as [w0|] eqn:G; [|apply pair_eq_inv in HC; destruct HC; discriminate].
      apply pair_eq_inv in HC. destruct HC as [_ Hc1]. subst c1. cbn [execute] in HE. fold V l in HE.
      destruct (py_get_norm i0 l w0 G) as (k & N & Nth).
      rewrite (norm_index_neg_shift _ _ _ N) in HE. exists k, w0.
      pose proof (norm_index_range _ _ _ N) as Rk. split; [lia|]. split; [exact HE|].
      intros w' l2 y P Ew. destruct (py_pop_nonneg k l w' l2 ltac:(lia) P) as (_ & Nth' & _).
      unfold rm_target. fold V l. rewrite G. congruence.
    - apply pair_eq_inv in HC. destruct HC as [_ Hc1]. subst c1. cbn [execute] in HE. fold V l in HE.
      destruct (index_of veqb v l) as [n|] eqn:Ei; [|apply pair_eq_inv in HE; destruct HE; discriminate].
      exists (Z.of_nat n), v. split; [lia|]. split; [exact HE|].
      intros w' l2 y P Ew. destruct (py_pop_nonneg (Z.of_nat n) l w' l2 ltac:(lia) P) as (_ & Nth' & _).
      rewrite Nat2Z.id in Nth'. destruct (index_of_veqb_nth v l n Ei) as (w & Hw & Ev).
      unfold rm_target. assert (w = w') by congruence. subst w w'.
      rewrite C06Proofs.veqb_sym in Ev. apply veqb_obj_r in Ev. exact Ev. }
  destruct EX as (i & v1 & Hi & HE2 & Htg). clear HE HC.
  destruct (coll_pop_full m s (x, f) i) as [[[e|] s1] w] eqn:EP;
    apply pair_eq_inv in HE2; destruct HE2 as [H1 H2]; [discriminate|].
  inversion H1; subst s1. clear H1.
  destruct (pop_full_inv m s x f i s' w EP) as (w' & l2 & Pp & Ew). subst w. fold V l in Pp.
  destruct (py_pop_nonneg i l w' l2 Hi Pp) as (Hlt & Nth & El2).
  destruct (Hobj w' (nth_error_In _ _ Nth)) as (y & Ey). subst w'.
  pose proof (Htg _ _ y Pp eq_refl) as Tg.
  assert (Hyl : In (VObj y) l) by (eapply nth_error_In; exact Nth).
  assert (Hxy : In (VObj x) (V (y, g))) by (apply (sym_fg s x y HI); exact Hyl).
  destruct (pop_full_ok m Hnc s x f i (VObj y) l2 M Pp) as (s2 & E2 & V2 & C2).
  rewrite EP in E2. inversion E2; subst s2. clear E2.
  exists i, y, l2. split; [symmetry; exact H2|]. split; [exact Hi|]. split; [exact Pp|]. split; [exact Tg|].
  split; [|split; [exact C2 | rewrite EP; reflexivity]].
  intros k. rewrite V2. apply upd_ext. apply (Uval_nf m Hwf f g Hfg Hne). intros _. exact Hxy.
Qed.

(* what undo (insert y back at i) gives from any state that agrees with the state after the removal *)
Lemma remove_ref_undo_store s x y i l2 s' t :
  f_many (fd m f) = true -> Inv m s -> typed m s ->
  (0 <= i)%Z -> py_pop i (vals s (x, f)) = Some (VObj y, l2) ->
  (forall k, vals s' k = upd (relv' (vals s) x y) (x, f) l2 k) ->
  obs_eq t s' ->
  exists t', coll_add_full m t (x, f) (Some i) (VObj y) = (None, t') /\ crr t' = crr t /\
             forall k, vals t' k = upd (attv' (relv' (vals s) x y) x y) (x, f) (vals s (x, f)) k.
Proof.
  intros M HI HT Hi Pp VS Ht. set (V := vals s) in *. set (l := V (x, f)) in *.
  destruct (py_pop_nonneg i l (VObj y) l2 Hi Pp) as (Hlt & Nth & El2).
  assert (Hyl : In (VObj y) l) by (eapply nth_error_In; exact Nth).
  assert (Hxy : In (VObj x) (V (y, g))) by (apply (sym_fg s x y HI); exact Hyl).
  assert (Cw : check_elem m f (VObj y) = true).
  { pose proof (HT (x, f) (VObj y) Hyl) as Ho. unfold okv in Ho. cbn [snd] in Ho. rewrite M in Ho. exact Ho. }
  pose proof (Huniq_f m Hwf f g Hfg M) as U.
  assert (Abs : f_unique (fd m f) = true -> vmem (VObj y) l2 = false).
  { intros _. apply vmem_obj_false. rewrite El2. apply nodup_objs_removed; [apply (nodup_f s x HI) | exact Nth]. }
  pose proof Ht as (Vt & _).
  destruct (add_full_ok m Hnc t x f (Some i) (VObj y) M Cw) as (t' & Et' & Vt' & Ct').
  exists t'. split; [exact Et'|]. split; [exact Ct'|].
  assert (Et : vals t (x, f) = l2) by (rewrite (Vt (x, f)), VS; apply upd_same).
  intros k. rewrite Vt', Et. rewrite (raw_insert_absent _ _ _ _ Abs), (py_insert_pop i l (VObj y) l2 Hi Pp).
  assert (E1 : forall k0, Lval m (vals t) x f (VObj y) k0 = upd (attv' (relv' V x y) x y) (x, f) l2 k0).
  { intros k0.
    rewrite (Lval_ext m (vals t) (upd (relv' V x y) (x, f) l2) x f (VObj y) (fun k1 => eq_trans (Vt k1) (VS k1))).
    rewrite (Lval_nf m Hwf f g Hfg Hne).
    - apply (attv_own m f g Hne).
    - unfold free_for. rewrite (upd_other _ (x, f) (y, g)) by (apply (cell_fg f g Hne)).
      unfold relv. rewrite upd_same. destruct (f_many (fd m g)) eqn:Mg; [|reflexivity].
      destruct (raw_remove_obj_In x (V (y, g)) (nodup_g s y HI) Hxy) as [Hr _].
      intros Hin. apply Hr in Hin. destruct Hin as [_ Hin]. apply Hin. reflexivity. }
  rewrite (upd_ext _ _ (x, f) l E1). apply upd_upd.
Qed.

Lemma remove_ref_inverts s x v idx c1 s' c' :
  f_many (fd m f) = true -> Inv m s -> typed m s ->
  (forall w, In w (vals s (x, f)) -> exists o, w = VObj o) ->
  (* where the opposite end is many-valued, x is the last element of the partner's collection *)
  (f_many (fd m g) = true -> forall y, rm_target s x v idx y -> lastv (VObj x) (vals s (y, g))) ->
  can_execute m s (CRemove x f v idx) = (Ok true, c1) ->
  execute m s c1 = ((None, s'), c') ->
  exists i y l2, c' = CRemove x f (VObj y) (Some i) /\
                 inverts m c' s s' /\
                 (forall k, vals s' k = upd (relv' (vals s) x y) (x, f) l2 k) /\ crr s' = crr s /\
                 s' = snd (fst (coll_pop_full m s (x, f) i)).
Proof.
  intros M HI HT Hobj Hlast HC HE.
  destruct (remove_ref_exec s x v idx c1 s' c' M HI HT Hobj HC HE) as (i & y & l2 & Ec & Hi & Pp & Tg & VS & C2 & Eproc).
  set (V := vals s) in *. set (l := V (x, f)) in *.
  destruct (py_pop_nonneg i l (VObj y) l2 Hi Pp) as (Hlt & Nth & El2).
  assert (Hyl : In (VObj y) l) by (eapply nth_error_In; exact Nth).
  assert (Hxy : In (VObj x) (V (y, g))) by (apply (sym_fg s x y HI); exact Hyl).
  assert (Hback : if f_many (fd m g) then exists l0, V (y, g) = l0 ++ [VObj x] /\ ~ In (VObj x) l0
                  else V (y, g) = [VObj x]).
  { destruct (f_many (fd m g)) eqn:Mg.
    - destruct (Hlast eq_refl y Tg) as (l0 & E0). exists l0. split; [exact E0|].
      apply nodup_objs_app_last. fold V in E0. rewrite <- E0. apply (nodup_g s y HI).
    - destruct HI as [_ Hsh]. destruct (proj1 (Hsh y g) Mg) as (w & Hw). fold V in Hw. rewrite Hw in Hxy |- *.
      destruct Hxy as [H|[]]. congruence. }
  exists i, y, l2. split; [exact Ec|]. split; [|split; [exact VS | split; [exact C2 | exact Eproc]]].
  clear Eproc. subst c'. split.
  - intros t Ht. split; [reflexivity|]. cbn [undo idx_or0].
    destruct (remove_ref_undo_store s x y i l2 s' t M HI HT Hi Pp VS Ht) as (t' & Et' & Ct' & Vt').
    exists t'. rewrite Et'. split; [reflexivity|].
    apply obs_eq_intro'.
    + intros k. rewrite Vt'. fold V l. rewrite (upd_ext _ _ (x, f) l (att_rel m g V x y Hback)). apply upd_id.
    + eapply crr_eq_trans; [apply crr_eq_of_eq; exact Ct'|].
      eapply crr_eq_trans; [apply obs_eq_crr_eq; exact Ht|]. apply crr_eq_of_eq. exact C2.
  - intros t Ht. pose proof Ht as (Vt & _). cbn [redo idx_or0].
    assert (Pt : py_pop i (vals t (x, f)) = Some (VObj y, l2)) by (rewrite (Vt (x, f)); exact Pp).
    destruct (pop_full_ok m Hnc t x f i (VObj y) l2 M Pt) as (t' & Et' & Vt' & Ct').
    exists t'. rewrite Et'. split; [reflexivity|].
    apply obs_eq_intro'.
    + intros k. rewrite Vt', VS. apply upd_ext. intros k0.
      rewrite (Uval_ext m (vals t) V x f (VObj y) Vt).
      apply (Uval_nf m Hwf f g Hfg Hne). intros _. exact Hxy.
    + eapply crr_eq_trans; [apply crr_eq_of_eq; exact Ct'|].
      eapply crr_eq_trans; [apply obs_eq_crr_eq; exact Ht|]. apply crr_eq_of_eq. symmetry. exact C2.
Qed.

(* n-n in general: every slot comes back except that the partner's collection holds x at the end *)
Lemma remove_ref_undo_members s x v idx c1 s' c' :
  f_many (fd m f) = true -> f_many (fd m g) = true -> Inv m s -> typed m s ->
  (forall w, In w (vals s (x, f)) -> exists o, w = VObj o) ->
  can_execute m s (CRemove x f v idx) = (Ok true, c1) ->
  execute m s c1 = ((None, s'), c') ->
  exists y t', rm_target s x v idx y /\ can_undo m s' c' = Ok true /\ undo m s' c' = ((None, t'), c') /\
               (forall k, k <> (y, g) -> vals t' k = vals s k) /\
               (forall b, In (VObj b) (vals t' (y, g)) <-> In (VObj b) (vals s (y, g))) /\
               lastv (VObj x) (vals t' (y, g)) /\ crr t' = crr s.
Proof.
  intros M Mg HI HT Hobj HC HE.
  destruct (remove_ref_exec s x v idx c1 s' c' M HI HT Hobj HC HE) as (i & y & l2 & Ec & Hi & Pp & Tg & VS & C2 & _).
  set (V := vals s) in *. set (l := V (x, f)) in *.
  destruct (py_pop_nonneg i l (VObj y) l2 Hi Pp) as (Hlt & Nth & El2).
  assert (Hyl : In (VObj y) l) by (eapply nth_error_In; exact Nth).
  assert (Hxy : In (VObj x) (V (y, g))) by (apply (sym_fg s x y HI); exact Hyl).
  destruct (remove_ref_undo_store s x y i l2 s' s' M HI HT Hi Pp VS (obs_eq_refl s')) as (t' & Et' & Ct' & Vt').
  exists y, t'. subst c'. split; [exact Tg|]. split; [reflexivity|]. cbn [undo idx_or0]. rewrite Et'.
  split; [reflexivity|].
  destruct (att_rel_members m g V x y Mg (nodup_g s y HI) Hxy) as (A1 & A2 & A3).
  split; [|split; [|split; [|rewrite Ct'; exact C2]]].
  - intros k Nk. rewrite Vt'. fold V l.
    destruct (cell_eqb_spec (x, f) k) as [E|N]; [subst k; apply upd_same|].
    rewrite upd_other by exact N. apply A1. exact Nk.
  - intros b. rewrite Vt'. rewrite upd_other by (apply (cell_fg f g Hne)). apply A2.
  - rewrite Vt'. rewrite upd_other by (apply (cell_fg f g Hne)). exact A3.
Qed.

(* --- Set --- *)
(* release the previous partner (if the previous value is an object), attach the new one (if the value is) *)
Definition Rel (w : value) (V : cell -> list value) (x : oid) : cell -> list value :=
  match obj_of w with Some q => relv' V x q | None => V end.
Definition Att (w : value) (V : cell -> list value) (x : oid) : cell -> list value :=
  match obj_of w with Some y => attv' V x y | None => V end.

Lemma Rel_ext w V W x : (forall k, V k = W k) -> forall k, Rel w V x k = Rel w W x k.
Proof. intros E. unfold Rel. destruct (obj_of w); [apply relv_ext|]; exact E. Qed.

Lemma Att_ext w V W x : (forall k, V k = W k) -> forall k, Att w V x k = Att w W x k.
Proof. intros E. unfold Att. destruct (obj_of w); [apply attv_ext|]; exact E. Qed.

Lemma Rel_own w V a L x k : Rel w (upd V (a, f) L) x k = upd (Rel w V x) (a, f) L k.
Proof. unfold Rel. destruct (obj_of w); [apply (relv_own m f g Hne) | reflexivity]. Qed.

Lemma Att_own w V a L x k : Att w (upd V (a, f) L) x k = upd (Att w V x) (a, f) L k.
Proof. unfold Att. destruct (obj_of w); [apply (attv_own m f g Hne) | reflexivity]. Qed.

Lemma Rel_at_f w V x a : Rel w V x (a, f) = V (a, f).
Proof. unfold Rel. destruct (obj_of w); [apply relv_at; apply (cell_fg f g Hne) | reflexivity]. Qed.

Lemma Att_at_f w V x a : Att w V x (a, f) = V (a, f).
Proof. unfold Att. destruct (obj_of w); [apply attv_at; apply (cell_fg f g Hne) | reflexivity]. Qed.

(* the store after x.f = v when x really is in the slot of its previous partner and the new one is free *)
Lemma Sval_nf V x v pv :
  V (x, f) = [pv] ->
  (forall q, pv = VObj q -> In (VObj x) (V (q, g)) /\ v <> VObj q) ->
  (forall y, v = VObj y -> free_for m g V x y) ->
  forall k, Sval m V x f v k = Att v (Rel pv (upd V (x, f) [v]) x) x k.
Proof.
  intros HV Hq Hy k. unfold Sval, Att, Rel. rewrite HV. cbn [C01Proofs.hdv].
  rewrite (Hreff m Hwf f g Hfg), Hfg. cbn [negb]. cbv zeta.
  set (V1 := upd V (x, f) [v]).
  assert (V1g : forall a, V1 (a, g) = V (a, g)) by (intros a; apply upd_other; apply (cell_fg f g Hne)).
  (* the released store *)
  set (V3 := match obj_of pv with
             | Some q => if match obj_of v with Some y => y =? q | None => false end then V1
                         else if f_many (fd m g)
                              then (if vmem (VObj x) (V1 (q, g)) then upd V1 (q, g) (raw_remove (VObj x) (V1 (q, g))) else V1)
                              else if cell_eqb (q, g) (x, f) then V1 else upd V1 (q, g) [VNone]
             | None => V1 end).
  assert (E3 : V3 = match obj_of pv with Some q => relv' V1 x q | None => V1 end).
  { unfold V3. destruct (obj_of pv) as [q|] eqn:Eq; [|reflexivity].
    apply obj_of_Some' in Eq. destruct (Hq q Eq) as [Hin Hvq].
    assert (T : match obj_of v with Some y => y =? q | None => false end = false).
    { destruct (obj_of v) as [y|] eqn:Ey; [|reflexivity]. apply obj_of_Some' in Ey.
      apply Nat.eqb_neq. intros ->. exact (Hvq Ey). }
    rewrite T. unfold relv. destruct (f_many (fd m g)).
    - rewrite V1g. apply vmem_obj in Hin. rewrite Hin. reflexivity.
    - destruct (cell_eqb_spec (q, g) (x, f)) as [E|N]; [exfalso; exact (cell_gf f g Hne q x E) | reflexivity]. }
  rewrite E3. clear E3 V3.
  set (V3 := match obj_of pv with Some q => relv' V1 x q | None => V1 end).
  destruct (obj_of v) as [y|] eqn:Ey; [|reflexivity].
  apply obj_of_Some' in Ey. specialize (Hy y Ey). unfold free_for in Hy.
  assert (V3y : V3 (y, g) = V (y, g)).
  { unfold V3. destruct (obj_of pv) as [q|] eqn:Eq; [|apply V1g].
    apply obj_of_Some' in Eq. destruct (Hq q Eq) as [_ Hvq].
    rewrite relv_at; [apply V1g|]. intros E. inversion E; subst. exact (Hvq eq_refl). }
  unfold attv. rewrite V3y. destruct (f_many (fd m g)) eqn:Mg.
  - rewrite (Huniq_g m Hwf f g Hfg Mg). unfold raw_append. cbn [andb].
    destruct (vmem (VObj x) (V (y, g))) eqn:E; [apply vmem_obj in E; contradiction | reflexivity].
  - rewrite Hy. reflexivity.
Qed.

Lemma set_ref_core s x v p s' c' :
  f_many (fd m f) = false -> Inv m s -> typed m s ->
  (forall y, v = VObj y -> free_for m g (vals s) x y) ->
  execute m s (CSet x f v p) = ((None, s'), c') ->
  let pv := single s (x, f) in
  c' = CSet x f v pv /\ check_single m f v = true /\ check_single m f pv = true /\ vals s (x, f) = [pv] /\
  (forall q, pv = VObj q -> In (VObj x) (vals s (q, g)) /\ v <> VObj q) /\
  (forall k, vals s' k = Att v (Rel pv (upd (vals s) (x, f) [v]) x) x k) /\ crr s' = crr s /\
  (forall t, obs_eq t s' ->
             forall k, vals (snd (set_full m t (x, f) pv)) k = upd (Att pv (Rel pv (vals s) x) x) (x, f) [pv] k) /\
  s' = snd (set_full m s (x, f) v).
Proof.
  intros M HI HT Hfree HE. set (V := vals s).
  destruct HI as [Hs Hsh]. destruct (proj1 (Hsh x f) M) as (pv & Hpv). fold V in Hpv.
  assert (Sg : single s (x, f) = pv) by (unfold single; fold V; rewrite Hpv; reflexivity).
  cbn [execute] in HE. apply pair_eq_inv in HE. destruct HE as [H1 H2]. cbv zeta. rewrite Sg in H2 |- *. clear Sg.
  assert (Cv : check_single m f v = true).
  { pose proof (set_full_outcome m s x f v) as O. rewrite H1 in O. cbn [fst] in O.
    destruct (check_single m f v); [reflexivity | discriminate]. }
  assert (Cp : check_single m f pv = true).
  { pose proof (HT (x, f) pv) as Ho. fold V in Ho. rewrite Hpv in Ho. specialize (Ho (or_introl eq_refl)).
    unfold okv in Ho. cbn [snd] in Ho. rewrite M in Ho. exact Ho. }
  assert (Es' : s' = snd (set_full m s (x, f) v)) by (rewrite H1; reflexivity).
  assert (Cs' : crr s' = crr s) by (rewrite Es'; apply (crr_set_full m Hnc)).
  assert (Hq : forall q, pv = VObj q -> In (VObj x) (V (q, g)) /\ v <> VObj q).
  { intros q Eq. assert (Hin : In (VObj x) (V (q, g))).
    { apply (Hs f g Hfg x q). unfold R. fold V. rewrite Hpv, Eq. left. reflexivity. }
    split; [exact Hin|]. intros Ev. specialize (Hfree q Ev). unfold free_for in Hfree. fold V in Hfree.
    destruct (f_many (fd m g)); [exact (Hfree Hin) | rewrite Hfree in Hin; destruct Hin as [H|[]]; discriminate]. }
  set (G := Att v (Rel pv (upd V (x, f) [v]) x) x).
  assert (VS : forall k, vals s' k = G k).
  { intros k. rewrite Es', (vals_set_full m Hnc s x f v Cv). apply (Sval_nf V x v pv Hpv Hq Hfree). }
  assert (G1 : forall k, G k = upd (Att v (Rel pv V x) x) (x, f) [v] k).
  { intros k. unfold G. rewrite (Att_ext v _ _ x (Rel_own pv V x [v] x)). apply Att_own. }
  split; [symmetry; exact H2|]. split; [exact Cv|]. split; [exact Cp|]. split; [exact Hpv|].
  split; [exact Hq|]. split; [exact VS|]. split; [exact Cs'|]. split; [|exact Es'].
  intros t Ht k. pose proof Ht as (Vt & _).
  rewrite (vals_set_full m Hnc t x f pv Cp).
  rewrite (Sval_ext m (vals t) G x f pv (fun k1 => eq_trans (Vt k1) (VS k1))).
  assert (Gx : G (x, f) = [v]).
  { unfold G. rewrite Att_at_f, Rel_at_f. apply upd_same. }
  assert (Gg : forall a, G (a, g) = Att v (Rel pv V x) x (a, g)).
  { intros a. rewrite G1. apply upd_other. apply (cell_fg f g Hne). }
  rewrite (Sval_nf G x pv v Gx).
  - assert (W1 : forall k0, upd G (x, f) [pv] k0 = upd (Att v (Rel pv V x) x) (x, f) [pv] k0).
    { intros k0. rewrite (upd_ext _ _ (x, f) [pv] G1). apply upd_upd. }
    rewrite (Att_ext pv _ _ x (Rel_ext v _ _ x W1)).
    rewrite (Att_ext pv _ _ x (Rel_own v _ x [pv] x)). rewrite Att_own.
    assert (RA : forall k0, Rel v (Att v (Rel pv V x) x) x k0 = Rel pv V x k0).
    { intros k0. unfold Rel at 1. unfold Att. destruct (obj_of v) as [y|] eqn:Ey; [|reflexivity].
      apply obj_of_Some' in Ey. apply (rel_att m g).
      specialize (Hfree y Ey). unfold free_for in *. fold V in Hfree.
      assert (E : Rel pv V x (y, g) = V (y, g)).
      { unfold Rel. destruct (obj_of pv) as [q|] eqn:Eq; [|reflexivity]. apply obj_of_Some' in Eq.
        apply relv_at. intros E. inversion E as [Eyq]. apply (proj2 (Hq q Eq)). rewrite Ey, Eyq. reflexivity. }
      rewrite E. exact Hfree. }
    apply (upd_ext _ _ (x, f) [pv] (Att_ext pv _ _ x RA)).
  - intros y Ey. split.
    + rewrite Gg. unfold Att. rewrite Ey. cbn [obj_of]. unfold attv. rewrite upd_same.
      destruct (f_many (fd m g)); [apply in_or_app; right|]; left; reflexivity.
    + intros Ep. exact (proj2 (Hq y Ep) Ey).
  - intros q Eq. unfold free_for. rewrite Gg.
    assert (Nv : forall y, v = VObj y -> y <> q) by (intros y Ey ->; exact (proj2 (Hq q Eq) Ey)).
    assert (E : Att v (Rel pv V x) x (q, g) = relv' V x q (q, g)).
    { unfold Att. destruct (obj_of v) as [y|] eqn:Ey.
      - apply obj_of_Some' in Ey. rewrite attv_at by (intros E; inversion E as [Eqy]; exact (Nv y Ey (eq_sym Eqy))).
        unfold Rel. rewrite Eq. reflexivity.
      - unfold Rel. rewrite Eq. reflexivity. }
    rewrite E. unfold relv. rewrite upd_same. destruct (f_many (fd m g)) eqn:Mg; [|reflexivity].
    destruct (Hq q Eq) as [Hin _].
    assert (ND : nodup_objs (V (q, g))) by (apply (proj2 (Hsh q g)); rewrite (Hgf m Hwf f g Hfg); congruence).
    destruct (raw_remove_obj_In x (V (q, g)) ND Hin) as [Hr _].
    intros H. apply Hr in H. destruct H as [_ H]. apply H. reflexivity.
Qed.

Lemma set_ref_inverts s x v p s' c' :
  f_many (fd m f) = false -> Inv m s -> typed m s ->
  (* the new value is not linked to anybody yet (in particular it differs from the previous value) *)
  (forall y, v = VObj y -> free_for m g (vals s) x y) ->
  (* where the opposite end is many-valued, x is the last element of its previous partner's collection *)
  (f_many (fd m g) = true -> forall q, vals s (x, f) = [VObj q] -> lastv (VObj x) (vals s (q, g))) ->
  execute m s (CSet x f v p) = ((None, s'), c') ->
  inverts m c' s s' /\
  (forall k, vals s' k = Att v (Rel (single s (x, f)) (upd (vals s) (x, f) [v]) x) x k) /\ crr s' = crr s /\
  s' = snd (set_full m s (x, f) v).
Proof.
  intros M HI HT Hfree Hlast HE.
  destruct (set_ref_core s x v p s' c' M HI HT Hfree HE) as (Ec & Cv & Cp & Hpv & Hq & VS & Cs' & UN & Eproc).
  set (pv := single s (x, f)) in *. set (V := vals s) in *. destruct HI as [Hs Hsh].
  assert (Hback : forall q, pv = VObj q ->
            if f_many (fd m g) then exists l0, V (q, g) = l0 ++ [VObj x] /\ ~ In (VObj x) l0 else V (q, g) = [VObj x]).
  { intros q Eq. destruct (Hq q Eq) as [Hin _]. destruct (f_many (fd m g)) eqn:Mg.
    - destruct (Hlast eq_refl q) as (l0 & E0); [fold V; rewrite Hpv, Eq; reflexivity|].
      exists l0. split; [exact E0|]. apply nodup_objs_app_last. fold V in E0. rewrite <- E0.
      apply (proj2 (Hsh q g)). rewrite (Hgf m Hwf f g Hfg). congruence.
    - destruct (proj1 (Hsh q g) Mg) as (w & Hw). fold V in Hw. rewrite Hw in Hin |- *.
      destruct Hin as [H|[]]. congruence. }
  split; [|split; [exact VS | split; [exact Cs' | exact Eproc]]].
  clear Eproc. rewrite Ec. split.
  - intros t Ht. split; [reflexivity|]. cbn [undo].
    pose proof (set_full_outcome m t x f pv) as O. rewrite Cp in O.
    exists (snd (set_full m t (x, f) pv)). split.
    { rewrite (surjective_pairing (set_full m t (x, f) pv)). rewrite O. reflexivity. }
    apply obs_eq_intro'.
    + intros k. rewrite (UN t Ht k).
      assert (AR : forall k0, Att pv (Rel pv V x) x k0 = V k0).
      { intros k0. unfold Att, Rel. destruct (obj_of pv) as [q|] eqn:Eq; [|reflexivity].
        apply obj_of_Some' in Eq. apply (att_rel m g). exact (Hback q Eq). }
      rewrite (upd_ext _ _ (x, f) [pv] AR). rewrite <- Hpv. apply upd_id.
    + eapply crr_eq_trans; [apply crr_eq_of_eq; apply (crr_set_full m Hnc)|].
      eapply crr_eq_trans; [apply obs_eq_crr_eq; exact Ht|]. apply crr_eq_of_eq. exact Cs'.
  - intros t Ht. pose proof Ht as (Vt & _). cbn [redo].
    pose proof (set_full_outcome m t x f v) as O. rewrite Cv in O.
    exists (snd (set_full m t (x, f) v)). split.
    { rewrite (surjective_pairing (set_full m t (x, f) v)). rewrite O. reflexivity. }
    apply obs_eq_intro'.
    + intros k. rewrite (vals_set_full m Hnc t x f v Cv), VS.
      rewrite (Sval_ext m (vals t) V x f v Vt). apply (Sval_nf V x v pv Hpv Hq Hfree).
    + eapply crr_eq_trans; [apply crr_eq_of_eq; apply (crr_set_full m Hnc)|].
      eapply crr_eq_trans; [apply obs_eq_crr_eq; exact Ht|]. apply crr_eq_of_eq. symmetry. exact Cs'.
Qed.

(* 1-n in general (x had a partner q): every slot comes back except that q's collection holds x at the end *)
Lemma set_ref_undo_members s x v p s' c' q :
  f_many (fd m f) = false -> f_many (fd m g) = true -> Inv m s -> typed m s ->
  (forall y, v = VObj y -> free_for m g (vals s) x y) ->
  vals s (x, f) = [VObj q] ->
  execute m s (CSet x f v p) = ((None, s'), c') ->
  exists t', can_undo m s' c' = Ok true /\ undo m s' c' = ((None, t'), c') /\
             (forall k, k <> (q, g) -> vals t' k = vals s k) /\
             (forall b, In (VObj b) (vals t' (q, g)) <-> In (VObj b) (vals s (q, g))) /\
             lastv (VObj x) (vals t' (q, g)) /\ crr t' = crr s.
Proof.
  intros M Mg HI HT Hfree Hxq HE.
  destruct (set_ref_core s x v p s' c' M HI HT Hfree HE) as (Ec & Cv & Cp & Hpv & Hq & VS & Cs' & UN & Eproc).
  set (pv := single s (x, f)) in *. set (V := vals s) in *.
  assert (Epv : pv = VObj q) by (fold V in Hxq; rewrite Hxq in Hpv; inversion Hpv; reflexivity).
  destruct (Hq q Epv) as [Hin _].
  assert (ND : nodup_objs (V (q, g))) by (apply (nodup_g s q HI)).
  exists (snd (set_full m s' (x, f) pv)). rewrite Ec. split; [reflexivity|]. cbn [undo].
  pose proof (set_full_outcome m s' x f pv) as O. rewrite Cp in O.
  split; [rewrite (surjective_pairing (set_full m s' (x, f) pv)); rewrite O; reflexivity|].
  destruct (att_rel_members m g V x q Mg ND Hin) as (A1 & A2 & A3).
  assert (EA : forall k, Att pv (Rel pv V x) x k = attv' (relv' V x q) x q k).
  { intros k. unfold Att, Rel. rewrite Epv. reflexivity. }
  split; [|split; [|split]].
  - intros k Nk. rewrite (UN s' (obs_eq_refl s') k).
    destruct (cell_eqb_spec (x, f) k) as [E|N]; [subst k; rewrite upd_same; symmetry; exact Hpv|].
    rewrite upd_other by exact N. rewrite EA. apply A1. exact Nk.
  - intros b. rewrite (UN s' (obs_eq_refl s')). rewrite upd_other by (apply (cell_fg f g Hne)). rewrite EA. apply A2.
  - rewrite (UN s' (obs_eq_refl s')). rewrite upd_other by (apply (cell_fg f g Hne)). rewrite EA. exact A3.
  - rewrite (crr_set_full m Hnc). exact Cs'.
Qed.
End RefCmds.

(* ====================================================================== *)
(* 5. Words: a generic (done, undone) invariant, state-dependent side      *)
(*    conditions                                                           *)
(* ====================================================================== *)
Section GenericWords.
Variable m : mm.
Variable P : state -> Prop.                       (* invariant of the model state *)
Variable ok : state -> cmd -> Prop.               (* side condition of a command in the state it meets *)
Hypothesis P_obs : forall s t, obs_eq s t -> P s -> P t.
Hypothesis ok_exec : forall s c c1 s' c2,
  P s -> ok s c -> can_execute m s c = (Ok true, c1) -> execute m s c1 = ((None, s'), c2) ->
  inverts m c2 s s' /\ P s'.
Hypothesis ok_raise : forall s c c1 e s' c2,
  P s -> ok s c -> can_execute m s c = (Ok true, c1) -> execute m s c1 = ((Some e, s'), c2) -> s' = s.

Inductive gchain : list cmd -> state -> Prop :=
| gchain_nil s : gchain [] s
| gchain_cons c d s0 s : P s0 -> gchain d s0 -> inverts m c s0 s -> gchain (c :: d) s.

Inductive gfuture : state -> list cmd -> Prop :=
| gfuture_nil s : gfuture s []
| gfuture_cons c u s s1 : P s1 -> inverts m c s s1 -> gfuture s1 u -> gfuture s (c :: u).

Lemma gchain_obs_eq d s s' : obs_eq s s' -> gchain d s -> gchain d s'.
Proof.
  intros E H. inversion H; subst; [constructor|].
  econstructor; eauto. eapply inverts_obs_eq; [apply obs_eq_refl | exact E | eassumption].
Qed.

Lemma gfuture_obs_eq u s s' : obs_eq s s' -> gfuture s u -> gfuture s' u.
Proof.
  intros E H. inversion H; subst; [constructor|].
  econstructor; eauto. eapply inverts_obs_eq; [exact E | apply obs_eq_refl | eassumption].
Qed.

Definition ginv (a : astate) : Prop := let '(s, d, u) := a in P s /\ gchain d s /\ gfuture s u.

Definition gop_ok (s : state) (o : sop) : Prop := match o with SExec c => ok s c | _ => True end.

(* every executed command meets its side condition in the state it is executed in *)
Fixpoint run_ok (a : astate) (w : list sop) : Prop :=
  match w with
  | [] => True
  | o :: r => gop_ok (fst (fst a)) o /\ run_ok (snd (a_step m a o)) r
  end.

Lemma g_undo_inv s c d u :
  ginv (s, c :: d, u) ->
  exists t, a_undo m (s, c :: d, u) = (None, (t, d, c :: u)) /\ ginv (t, d, c :: u) /\
            exists s0, obs_eq t s0 /\ inverts m c s0 s.
Proof.
  intros (W & Ch & Fu). inversion Ch as [|c0 d0 s0 s1 W0 Ch0 I]; subst.
  destruct I as [U R]. destruct (U s (obs_eq_refl s)) as (Cu & t & Eu & Ot).
  exists t. unfold a_undo. rewrite Cu, Eu. split; [reflexivity|].
  assert (Os : obs_eq s0 t) by (apply obs_eq_sym; exact Ot).
  split; [|exists s0; split; [exact Ot | split; assumption]].
  split; [eapply P_obs; eauto|]. split; [eapply gchain_obs_eq; eauto|].
  econstructor; [exact W | | exact Fu].
  eapply inverts_obs_eq; [exact Os | apply obs_eq_refl | split; assumption].
Qed.

Lemma g_redo_inv s c d u :
  ginv (s, d, c :: u) ->
  exists t, a_redo m (s, d, c :: u) = (None, (t, c :: d, u)) /\ ginv (t, c :: d, u).
Proof.
  intros (W & Ch & Fu). inversion Fu as [|c0 u0 s0 s1 W1 I Fu1]; subst.
  pose proof I as [U R]. destruct (R s (obs_eq_refl s)) as (t & Er & Ot).
  exists t. unfold a_redo. rewrite Er. split; [reflexivity|].
  assert (Os : obs_eq s1 t) by (apply obs_eq_sym; exact Ot).
  split; [eapply P_obs; eauto|]. split; [|eapply gfuture_obs_eq; eauto].
  econstructor; [exact W | exact Ch |].
  eapply inverts_obs_eq; [apply obs_eq_refl | exact Os | exact I].
Qed.

Lemma g_step_inv a o : ginv a -> gop_ok (fst (fst a)) o -> ginv (snd (a_step m a o)).
Proof.
  destruct a as [[s d] u]. intros Inv Hok. destruct o as [c| |]; unfold a_step.
  - cbn [gop_ok fst] in Hok. destruct Inv as (W & Ch & Fu). unfold a_execute.
    destruct (can_execute m s c) as [[[|]|e] c1] eqn:HC; simpl; try (split; [|split]; assumption).
    destruct (execute m s c1) as [[[e|] s'] c2] eqn:HE; simpl.
    + rewrite (ok_raise s c c1 e s' c2 W Hok HC HE). split; [|split]; assumption.
    + destruct (ok_exec s c c1 s' c2 W Hok HC HE) as (I & W').
      split; [exact W'|]. split; [exact (gchain_cons c2 d s s' W Ch I) | constructor].
  - destruct d as [|c d].
    + simpl. exact Inv.
    + destruct (g_undo_inv s c d u Inv) as (t & E & I & _). rewrite E. exact I.
  - destruct u as [|c u].
    + simpl. exact Inv.
    + destruct (g_redo_inv s c d u Inv) as (t & E & I). rewrite E. exact I.
Qed.

Lemma g_run_inv a w : ginv a -> run_ok a w -> ginv (a_run m a w).
Proof.
  revert a. induction w as [|o w IH]; intros a Inv Hok; [exact Inv|].
  destruct Hok as [H1 H2]. unfold a_run in *. simpl. apply IH; [|exact H2]. apply g_step_inv; assumption.
Qed.

Theorem g_k_undo_k_redo k : forall s d u,
  ginv (s, d, u) -> (k <= length d)%nat ->
  exists s', a_run m (s, d, u) (repeat SUndo k ++ repeat SRedo k) = (s', d, u) /\ obs_eq s' s /\ ginv (s', d, u).
Proof.
  induction k as [|k IH]; intros s d u Inv L.
  - exists s. simpl. split; [reflexivity|]. split; [apply obs_eq_refl | exact Inv].
  - destruct d as [|c d]; [simpl in L; lia|].
    destruct (g_undo_inv s c d u Inv) as (t & Eu & It & s0 & Ots0 & I).
    destruct (IH t d (c :: u) It ltac:(simpl in L; lia)) as (t2 & Er & Ot2 & It2).
    destruct (g_redo_inv t2 c d u It2) as (t3 & E3 & It3).
    exists t3.
    change (repeat SUndo (S k)) with (SUndo :: repeat SUndo k). rewrite (repeat_snoc SRedo k).
    rewrite app_assoc. rewrite a_run_app.
    assert (E1 : a_run m (s, c :: d, u) ((SUndo :: repeat SUndo k) ++ repeat SRedo k) = (t2, d, c :: u)).
    { unfold a_run in *. cbn [app fold_left a_step]. rewrite Eu. cbn [snd]. exact Er. }
    rewrite E1. unfold a_run. cbn [fold_left a_step]. rewrite E3. cbn [snd]. split; [reflexivity|]. split; [|exact It3].
    destruct I as [_ R]. assert (O20 : obs_eq t2 s0) by (eapply obs_eq_trans; eauto).
    destruct (R t2 O20) as (t3' & Er3 & Ot3).
    unfold a_redo in E3. rewrite Er3 in E3. inversion E3; subst. exact Ot3.
Qed.

Theorem g_invariant_of_words s0 w :
  P s0 -> run_ok (s0, [], []) w -> ginv (abs (st_run m (s0, empty_stack) w)).
Proof.
  intros W Hok. destruct (stack_refinement_from_empty m s0 w) as (_ & E). rewrite E.
  apply g_run_inv; [|exact Hok]. split; [exact W|]. split; constructor.
Qed.

Theorem g_k_undo_k_redo_stack s0 w k :
  P s0 -> run_ok (s0, [], []) w ->
  let ms := st_run m (s0, empty_stack) w in
  (k <= length (done_of (snd ms)))%nat ->
  let ms' := st_run m ms (repeat SUndo k ++ repeat SRedo k) in
  obs_eq (fst ms') (fst ms) /\ snd ms' = snd ms.
Proof.
  intros W Hok ms L ms'.
  destruct (stack_refinement_from_empty m s0 w) as (Wf & E). fold ms in Wf, E.
  pose proof (g_invariant_of_words s0 w W Hok) as Inv. fold ms in Inv.
  destruct (stack_refinement m ms (repeat SUndo k ++ repeat SRedo k) Wf) as (Wf' & E'). fold ms' in Wf', E'.
  unfold abs in Inv at 1.
  destruct (g_k_undo_k_redo k (fst ms) (done_of (snd ms)) (undone_of (snd ms)) Inv L) as (s' & Er & Os & _).
  unfold abs in E' at 2. rewrite Er in E'. unfold abs in E'. inversion E' as [[Es Ed Eu]].
  split; [rewrite Es; exact Os|]. apply stack_ext; assumption.
Qed.
End GenericWords.

(* ====================================================================== *)
(* 6. The covered command kinds, with references with an opposite          *)
(* ====================================================================== *)
(* references are typed by classes (so that the slots of a reference hold objects or None) *)
Definition ref_typed (m : mm) : Prop :=
  forall f, f_isref (fd m f) = true -> exists c, f_type (fd m f) = TClass c.

(* unique attribute collections hold no value twice (C04) *)
Definition uniq_attr (m : mm) (s : state) : Prop :=
  forall x f, f_isref (fd m f) = false -> f_many (fd m f) = true -> f_unique (fd m f) = true ->
              nodupv (vals s (x, f)) = true.

(* the invariant of the model state: symmetric opposite ends and shaped slots (C01), typed slots (C03),
   duplicate-free unique attribute collections (C04) *)
Definition J (m : mm) (s : state) : Prop := Inv m s /\ typed m s /\ uniq_attr m s.

Lemma J_obs_eq m s t : obs_eq s t -> J m s -> J m t.
Proof.
  intros (A & _) (HI & HT & HU). split; [|split].
  - apply (Inv_ext m s t); [intros k; symmetry; apply A | exact HI].
  - apply (typed_ext m s t); [intros k; symmetry; apply A | exact HT].
  - intros x f H1 H2 H3. rewrite <- A. apply HU; assumption.
Qed.

Definition ref_pair (m : mm) (f g : fid) : Prop := f_opp (fd m f) = Some g /\ f <> g.

Definition covered2 (m : mm) (s : state) (c : cmd) : Prop :=
  covered m c \/
  match c with
  | CSet x f v _ =>
    exists g, ref_pair m f g /\ f_many (fd m f) = false /\
              (forall y, v = VObj y -> opp_typed m x f) /\
              (forall y, v = VObj y -> free_for m g (vals s) x y) /\
              (f_many (fd m g) = true -> forall q, vals s (x, f) = [VObj q] -> lastv (VObj x) (vals s (q, g)))
  | CAdd x f v _ =>
    exists g y, ref_pair m f g /\ f_many (fd m f) = true /\ v = VObj y /\ opp_typed m x f /\
                (f_many (fd m g) = false -> vals s (y, g) = [VNone])
  | CRemove x f v idx =>
    exists g, ref_pair m f g /\ f_many (fd m f) = true /\
              (f_many (fd m g) = true -> forall y, rm_target f s x v idx y -> lastv (VObj x) (vals s (y, g)))
  | _ => False
  end.

Section Words.
Variable m : mm.
Hypothesis Hnc : no_containment m.
Hypothesis Hwf : wf_opp m.
Hypothesis Hrt : ref_typed m.

Lemma noopp_of_nonref f : f_isref (fd m f) = false -> f_opp (fd m f) = None.
Proof.
  intros H. destruct (f_opp (fd m f)) as [g|] eqn:E; [|reflexivity].
  destruct (Hwf f g E) as [_ [Hr _]]. congruence.
Qed.

Lemma plain_noopp f : plain m f -> f_opp (fd m f) = None.
Proof. intros [H|[_ H]]; [apply noopp_of_nonref; exact H | exact H]. Qed.

Lemma J_cell_wt_single s x f : J m s -> f_many (fd m f) = false -> cell_wt m f (vals s (x, f)).
Proof.
  intros ([_ Hsh] & HT & _) M. unfold cell_wt. rewrite M.
  destruct (proj1 (Hsh x f) M) as (v & Hv). exists v. split; [exact Hv|].
  pose proof (HT (x, f) v) as Ho. rewrite Hv in Ho. specialize (Ho (or_introl eq_refl)).
  unfold okv in Ho. cbn [snd] in Ho. rewrite M in Ho. exact Ho.
Qed.

Lemma J_cell_wt_attr s x f : J m s -> attr_many m f -> cell_wt m f (vals s (x, f)).
Proof.
  intros (_ & HT & HU) [M R]. unfold cell_wt. rewrite M. split.
  - intros v Hv. pose proof (HT (x, f) v Hv) as Ho. unfold okv in Ho. cbn [snd] in Ho. rewrite M in Ho. exact Ho.
  - intros U. apply HU; assumption.
Qed.

(* a command of the kinds of C06Proofs.v: one slot of a feature without opposite changes *)
Lemma J_only_cell s s' x f l1 :
  J m s -> only_cell s s' (x, f) l1 -> cell_wt m f l1 -> f_opp (fd m f) = None -> J m s'.
Proof.
  intros (HI & HT & HU) (V & _) CW Hno.
  assert (Fr : forall k, k <> (x, f) -> vals s' k = vals s k).
  { intros k Nk. rewrite V. apply upd_other. intros E; apply Nk; symmetry; exact E. }
  assert (Eo : vals s' (x, f) = l1) by (rewrite V; apply upd_same).
  split; [|split].
  - apply (Inv_frame_noopp m s s' x f Hwf Hno Fr); [|exact HI].
    intros M. rewrite Eo. unfold cell_wt in CW. rewrite M in CW. destruct CW as (v & Ev & _). exists v. exact Ev.
  - intros k v Hv. destruct (cell_eqb_spec k (x, f)) as [E|N].
    + subst k. rewrite Eo in Hv. unfold okv. cbn [snd]. unfold cell_wt in CW.
      destruct (f_many (fd m f)); [apply (proj1 CW); exact Hv|].
      destruct CW as (w & Ew & Cw). rewrite Ew in Hv. destruct Hv as [<-|[]]. exact Cw.
    + rewrite (Fr k N) in Hv. exact (HT k v Hv).
  - intros a h H1 H2 H3. destruct (cell_eqb_spec (a, h) (x, f)) as [E|N].
    + inversion E; subst a h. rewrite Eo. unfold cell_wt in CW. rewrite H2 in CW. apply (proj2 CW). exact H3.
    + rewrite (Fr _ N). apply HU; assumption.
Qed.

Lemma objs_only s x f : typed m s -> f_isref (fd m f) = true -> f_many (fd m f) = true ->
  forall w, In w (vals s (x, f)) -> exists o, w = VObj o.
Proof.
  intros HT R M w Hw. pose proof (HT (x, f) w Hw) as Ho. unfold okv in Ho. cbn [snd] in Ho. rewrite M in Ho.
  destruct (Hrt f R) as (c & Ec). unfold check_elem in Ho. rewrite R, Ec in Ho.
  destruct w; simpl in Ho; try discriminate. eexists; reflexivity.
Qed.

(* a frame fact: the commands on a pair (f, g) leave the slots of every other feature alone *)
Lemma uniq_attr_frame s s' f g :
  f_isref (fd m f) = true -> f_isref (fd m g) = true ->
  (forall a h, h <> f -> h <> g -> vals s' (a, h) = vals s (a, h)) -> uniq_attr m s -> uniq_attr m s'.
Proof.
  intros Rf Rg Fr HU a h H1 H2 H3. rewrite Fr; [apply HU; assumption | |]; intros ->; congruence.
Qed.

Lemma covered2_exec s c c1 s' c2 :
  J m s -> covered2 m s c ->
  can_execute m s c = (Ok true, c1) -> execute m s c1 = ((None, s'), c2) ->
  inverts m c2 s s' /\ J m s'.
Proof.
  intros HJ [Cv|Cv] HC HE.
  - (* the kinds of C06Proofs.v *)
    destruct c as [x f v p|x f v idx|x f v idx|x f v from to| |]; simpl in Cv; try contradiction.
    + destruct Cv as [P M]. cbn [can_execute] in HC. apply pair_eq_inv in HC. destruct HC as [_ Hc]. subst c1.
      destruct (set_inverts m s x f v p s' c2 P M (J_cell_wt_single s x f HJ M) HE) as (I & OC & CW).
      split; [exact I | exact (J_only_cell s s' x f _ HJ OC CW (plain_noopp f P))].
    + destruct (add_inverts m s x f v idx c1 s' c2 Cv (J_cell_wt_attr s x f HJ Cv) HC HE) as (i' & _ & I & OC & CW).
      split; [exact I | exact (J_only_cell s s' x f _ HJ OC CW (noopp_of_nonref f (proj2 Cv)))].
    + destruct (remove_inverts m s x f v idx c1 s' c2 Cv (J_cell_wt_attr s x f HJ Cv) HC HE) as (i & w & l2 & _ & I & OC & CW).
      split; [exact I | exact (J_only_cell s s' x f _ HJ OC CW (noopp_of_nonref f (proj2 Cv)))].
    + destruct Cv as [A Hx].
      destruct (move_inverts m s x f v from to c1 s' c2 A (J_cell_wt_attr s x f HJ A) Hx HC HE)
        as (fr & w & to' & l2 & _ & I & OC & CW).
      split; [exact I | exact (J_only_cell s s' x f _ HJ OC CW (noopp_of_nonref f (proj2 A)))].
  - (* references with an opposite *)
    destruct HJ as (HI & HT & HU).
    destruct c as [x f v p|x f v idx|x f v idx|x f v from to| |]; try contradiction.
    + destruct Cv as (g & [Hfg Hne] & M & Hot & Hfree & Hlast).
      cbn [can_execute] in HC. apply pair_eq_inv in HC. destruct HC as [_ Hc]. subst c1.
      destruct (set_ref_inverts m Hnc Hwf f g Hfg Hne s x v p s' c2 M HI HT Hfree Hlast HE) as (I & VS & _ & Es).
      split; [exact I|]. split; [|split].
      * rewrite Es. apply (set_gen m Hnc Hwf); assumption.
      * rewrite Es. apply typed_set_full; assumption.
      * apply (uniq_attr_frame s s' f g (Hreff m Hwf f g Hfg) (Hreff m Hwf g f (Hgf m Hwf f g Hfg))); [|exact HU].
        intros a h Nf Ng. rewrite VS. unfold Att, Rel.
        assert (E1 : forall b, ((b, g) : cell) <> (a, h)) by (intros b E; inversion E; congruence).
        assert (E2 : ((x, f) : cell) <> (a, h)) by (intros E; inversion E; congruence).
        destruct (obj_of v); destruct (obj_of (single s (x, f)));
          rewrite ?attv_at, ?relv_at by (intros E; exact (E1 _ (eq_sym E))); apply upd_other; exact E2.
    + destruct Cv as (g & y & [Hfg Hne] & M & Ev & Hot & Hfree). subst v.
      destruct (add_ref_inverts m Hnc Hwf f g Hfg Hne s x y idx c1 s' c2 M HI Hfree HC HE)
        as (i' & _ & I & VS & _ & pos & Es).
      split; [exact I|]. split; [|split].
      * rewrite Es. apply (add_gen m Hnc Hwf); assumption.
      * rewrite Es. apply typed_coll_add_full; assumption.
      * apply (uniq_attr_frame s s' f g (Hreff m Hwf f g Hfg) (Hreff m Hwf g f (Hgf m Hwf f g Hfg))); [|exact HU].
        intros a h Nf Ng. rewrite VS.
        rewrite upd_other by (intros E; inversion E; congruence).
        apply attv_at. intros E; inversion E; congruence.
    + destruct Cv as (g & [Hfg Hne] & M & Hlast).
      pose proof (objs_only s x f HT (Hreff m Hwf f g Hfg) M) as Hobj.
      destruct (remove_ref_inverts m Hnc Hwf f g Hfg Hne s x v idx c1 s' c2 M HI HT Hobj Hlast HC HE)
        as (i & y & l2 & _ & I & VS & _ & Es).
      split; [exact I|]. split; [|split].
      * rewrite Es. apply (pop_gen m Hnc Hwf); assumption.
      * rewrite Es. apply typed_coll_pop_full; assumption.
      * apply (uniq_attr_frame s s' f g (Hreff m Hwf f g Hfg) (Hreff m Hwf g f (Hgf m Hwf f g Hfg))); [|exact HU].
        intros a h Nf Ng. rewrite VS.
        rewrite upd_other by (intros E; inversion E; congruence).
        apply relv_at. intros E; inversion E; congruence.
Qed.

(* outcome of insert/append: BadValueError exactly when the check fails, and then nothing happened *)
Lemma coll_add_raise s k pos v e s' : coll_add_full m s k pos v = (Some e, s') -> s' = s.
Proof.
  destruct k as [x f]. unfold coll_add_full. destruct (check_elem m f v); cbn [negb]; intros H; inversion H. reflexivity.
Qed.

Lemma set_full_raise s k v e s' : set_full m s k v = (Some e, s') -> s' = s.
Proof.
  destruct k as [x f]. intros H. pose proof (set_full_outcome m s x f v) as O. rewrite H in O. cbn [fst] in O.
  destruct (check_single m f v) eqn:C; [discriminate|].
  rewrite (set_full_bad m s (x, f) v C) in H. inversion H. reflexivity.
Qed.

Lemma covered2_raise s c c1 e s' c2 :
  J m s -> covered2 m s c ->
  can_execute m s c = (Ok true, c1) -> execute m s c1 = ((Some e, s'), c2) -> s' = s.
Proof.
  intros HJ Cv HC HE.
  destruct c as [x f v p|x f v idx|x f v idx|x f v from to| |].
  - cbn [can_execute] in HC. apply pair_eq_inv in HC. destruct HC as [_ Hc]. subst c1.
    cbn [execute] in HE. apply pair_eq_inv in HE. destruct HE as [H1 _]. eapply set_full_raise; exact H1.
  - cbn [can_execute] in HC. destruct (negb (base_can m x f)); [discriminate|].
    destruct (negb (f_many (fd m f))); [discriminate|].
    apply pair_eq_inv in HC. destruct HC as [_ Hc]. subst c1. cbn [execute] in HE.
    destruct idx as [i|]; apply pair_eq_inv in HE; destruct HE as [H1 _]; eapply coll_add_raise; exact H1.
  - cbn [can_execute] in HC. destruct (negb (base_can m x f)); [discriminate|].
    destruct (negb (f_many (fd m f))); [discriminate|].
    assert (EX : exists v1 idx1, c1 = CRemove x f v1 idx1).
    { destruct idx as [i0|].
      - destruct (py_get i0 (vals s (x, f))); apply pair_eq_inv in HC; destruct HC as [_ Hc]; subst c1; eauto.
      - apply pair_eq_inv in HC; destruct HC as [_ Hc]; subst c1; eauto. }
    destruct EX as (v1 & idx1 & Hc). subst c1. cbn [execute] in HE.
    match type of HE with (match ?ri with _ => _ end) = _ => destruct ri as [i|e0] end.
    + destruct (coll_pop_full m s (x, f) i) as [[[e1|] s1] w] eqn:EP;
        apply pair_eq_inv in HE; destruct HE as [H1 _]; [|discriminate].
      inversion H1; subst. eapply coll_pop_raise; exact EP.
    + apply pair_eq_inv in HE. destruct HE as [H1 _]. inversion H1. reflexivity.
  - destruct Cv as [Cv|[]]. simpl in Cv. destruct Cv as [A Hx].
    (* the Move of C06Proofs.v: its lemma wants the slot well-typed *)
    assert (W : forall w, In w (vals s (x, f)) -> check_elem m f w = true).
    { pose proof (J_cell_wt_attr s x f HJ A) as CW. unfold cell_wt in CW. rewrite (proj1 A) in CW. exact (proj1 CW). }
    destruct A as [M R].
    cbn [can_execute] in HC.
    destruct (negb (base_can m x f)); [discriminate|]. rewrite M in HC. cbn [negb] in HC.
    assert (EX : exists v1 fr0, c1 = CMove x f v1 fr0 to).
    { destruct (is_none v).
      - destruct from as [i0|]; [|apply pair_eq_inv in HC; destruct HC; discriminate].
        destruct (py_get i0 (vals s (x, f))); apply pair_eq_inv in HC; destruct HC as [_ Hc]; subst c1; eauto.
      - destruct from as [i0|].
        + apply pair_eq_inv in HC; destruct HC as [_ Hc]; subst c1; eauto.
        + destruct (index_of veqb v (vals s (x, f))); apply pair_eq_inv in HC; destruct HC as [_ Hc]; subst c1; eauto. }
    destruct EX as (v1 & fr0 & Hc). subst c1. cbn [execute] in HE. unfold do_move in HE.
    match type of HE with (match coll_pop_full m s (x, f) ?z with _ => _ end) = _ => set (fr := z) in * end.
    destruct (coll_pop_full m s (x, f) fr) as [[[e1|] s1] w] eqn:EP.
    + apply pair_eq_inv in HE. destruct HE as [H1 _]. inversion H1; subst. eapply coll_pop_raise; exact EP.
    + exfalso. destruct (coll_pop_attr_inv m s x f fr s1 w R EP) as (w' & l1 & Pp & Ew). subst w.
      apply pair_eq_inv in HE. destruct HE as [H1 _].
      assert (Hin : In w' (vals s (x, f))).
      { unfold py_pop in Pp. destruct (norm_index (zlen (vals s (x, f))) fr) as [k|]; [|discriminate].
        destruct (nth_error (vals s (x, f)) (Z.to_nat k)) as [y|] eqn:N; [|discriminate].
        inversion Pp; subst. eapply nth_error_In; exact N. }
      match type of H1 with coll_add_full _ _ _ ?pos _ = _ =>
        destruct (coll_add_attr_ok m s1 x f pos w' R (W w' Hin)) as (s2 & E2 & _) end.
      rewrite E2 in H1. discriminate.
  - destruct Cv as [[]|[]].
  - destruct Cv as [[]|[]].
Qed.

(* ---------- the word-level theorems ---------- *)
Theorem refs_invariant_of_words s0 w :
  J m s0 -> run_ok m (covered2 m) (s0, [], []) w ->
  ginv m (J m) (abs (st_run m (s0, empty_stack) w)).
Proof.
  apply (g_invariant_of_words m (J m) (covered2 m) (J_obs_eq m) covered2_exec covered2_raise).
Qed.

Theorem refs_k_undo_k_redo s0 w k :
  J m s0 -> run_ok m (covered2 m) (s0, [], []) w ->
  let ms := st_run m (s0, empty_stack) w in
  (k <= length (done_of (snd ms)))%nat ->
  let ms' := st_run m ms (repeat SUndo k ++ repeat SRedo k) in
  obs_eq (fst ms') (fst ms) /\ snd ms' = snd ms.
Proof.
  apply (g_k_undo_k_redo_stack m (J m) (covered2 m) (J_obs_eq m) covered2_exec covered2_raise).
Qed.
End Words.

(* ====================================================================== *)
(* 7. A metamodel meeting every premise (1-1, 1-n, n-n pairs, attributes)  *)
(* ====================================================================== *)
(* one class, four objects; f0 = n : EInt; f1 = ab11 <-> f2 = ba11 (1-1); f3 = ab1 (single) <-> f4 = ban (many);
   f5 = abnn <-> f6 = bann (n-n) *)
Definition mkref (many : bool) (opp : fid) : fdecl :=
  {| f_owner := 0; f_isref := true; f_many := many; f_unique := true; f_cont := false;
     f_opp := Some opp; f_type := TClass 0; f_default := VNone |}.

Definition ex_mm_refs : mm :=
  {| feats := [ {| f_owner := 0; f_isref := false; f_many := false; f_unique := true; f_cont := false;
                   f_opp := None; f_type := TInt; f_default := VInt 0 |};
                mkref false 2; mkref false 1; mkref false 4; mkref true 3; mkref true 6; mkref true 5 ];
     conf := [(0, 0)]; ocls := [0; 0; 0; 0]; enames := []; nres := 0 |}.

Lemma ex_mm_refs_ok :
  no_containment ex_mm_refs /\ wf_opp ex_mm_refs /\ ref_typed ex_mm_refs /\ J ex_mm_refs (init_state ex_mm_refs).
Proof.
  assert (NC : no_containment ex_mm_refs).
  { intros f. do 7 (destruct f as [|f]; [reflexivity|]). unfold fd; cbn. destruct f; reflexivity. }
  assert (WF : wf_opp ex_mm_refs).
  { intros f g. do 7 (destruct f as [|f]; [cbn; intros H; inversion H; subst; cbn; repeat split; congruence|]).
    unfold fd; cbn. destruct f; discriminate. }
  split; [exact NC|]. split; [exact WF|]. split; [|split; [|split]].
  - intros f. do 7 (destruct f as [|f]; [cbn; intros H; try discriminate; eexists; reflexivity|]).
    unfold fd; cbn. destruct f; discriminate.
  - apply (Inv_init ex_mm_refs WF). intros f.
    do 7 (destruct f as [|f]; [cbn; congruence|]). unfold fd; cbn. destruct f; cbn; congruence.
  - apply typed_init. intros f.
    do 7 (destruct f as [|f]; [cbn; intros; reflexivity|]). unfold fd; cbn. destruct f; intros; reflexivity.
  - intros x f _ M _. cbn [vals init_state snd]. rewrite M. reflexivity.
Qed.

(* a word whose commands meet their side conditions in the states they are executed in: Set on a 1-1 and on a
   1-n reference (without and with a previous partner, x last in its collection), Add and Remove on an n-n
   reference, an unset, an attribute, undo and redo *)
Definition ex_refs_word : list sop :=
  [SExec (CSet 0 1 (VObj 1) VNone);
   SExec (CSet 2 3 (VObj 1) VNone);
   SExec (CSet 0 3 (VObj 1) VNone);
   SExec (CAdd 0 5 (VObj 1) None);
   SExec (CAdd 2 5 (VObj 1) (Some (-3)%Z));
   SExec (CRemove 2 5 VNone (Some 0%Z));
   SExec (CSet 0 3 (VObj 3) VNone);
   SExec (CSet 0 1 VNone VNone);
   SExec (CSet 0 0 (VInt 4) VNone);
   SUndo; SUndo; SRedo].

Lemma opp_typed_ex x f : x < 4 -> opp_typed ex_mm_refs x f.
Proof.
  intros Hx g. do 7 (destruct f as [|f]; [cbn; intros H; inversion H; subst; unfold okv; cbn;
    (do 4 (destruct x as [|x]; [reflexivity|])); lia|]).
  unfold fd; cbn. destruct f; discriminate.
Qed.

Ltac ref_hdr g := right; exists g; split; [split; [reflexivity | discriminate]|]; split; [reflexivity|].
Ltac set_ref g := ref_hdr g; split; [intros; apply opp_typed_ex; lia|].
Ltac notin := let H := fresh in intros H; repeat (destruct H as [H|H]; [discriminate|]); exact H.
Ltac fr := let y := fresh "y" in let E := fresh "E" in
  intros y E; inversion E; subst y; unfold free_for; vm_compute; first [reflexivity | notin].
Ltac nolast := let q := fresh "q" in let E := fresh "E" in intros _ q E; vm_compute in E; discriminate.
Ltac lastw l0 := let q := fresh "q" in let E := fresh "E" in
  intros _ q E; vm_compute in E; inversion E; subst q; exists l0; vm_compute; reflexivity.

Lemma ex_refs_word_ok : run_ok ex_mm_refs (covered2 ex_mm_refs) (init_state ex_mm_refs, [], []) ex_refs_word.
Proof.
  unfold ex_refs_word. cbn [run_ok gop_ok fst].
  split. { set_ref 2. split; [fr | vm_compute; discriminate]. }
  split. { set_ref 4. split; [fr | nolast]. }
  split. { set_ref 4. split; [fr | nolast]. }
  split. { right. exists 6, 1. split; [split; [reflexivity | discriminate]|]. split; [reflexivity|].
           split; [reflexivity|]. split; [apply opp_typed_ex; lia | vm_compute; discriminate]. }
  split. { right. exists 6, 1. split; [split; [reflexivity | discriminate]|]. split; [reflexivity|].
           split; [reflexivity|]. split; [apply opp_typed_ex; lia | vm_compute; discriminate]. }
  split. { ref_hdr 6. intros _ y T. unfold rm_target in T. vm_compute in T. inversion T; subst y.
           exists [VObj 0]. vm_compute. reflexivity. }
  split. { set_ref 4. split; [fr | lastw [VObj 2]]. }
  split. { set_ref 2. split; [intros y E; discriminate | vm_compute; discriminate]. }
  split. { left. split; [left; reflexivity | reflexivity]. }
  repeat split.
Qed.


(* ====================================================================== *)
(* 8. Containment references without opposite (any metamodel)              *)
(* ====================================================================== *)
Lemma root_of_obs_eq fuel s t o : (forall a, cont s a = cont t a) -> root_of fuel s o = root_of fuel t o.
Proof.
  intros E. revert o. induction fuel as [|n IH]; intros o; simpl; [reflexivity|].
  rewrite (E o). destruct (cont t o) as [[p pf]|]; [apply IH | reflexivity].
Qed.

Lemma eresource_of_obs_eq m s t o : obs_eq s t -> eresource_of m s o = eresource_of m t o.
Proof.
  intros (_ & C & E & _). unfold eresource_of. rewrite (root_of_obs_eq _ s t o C). apply E.
Qed.

(* y is neither contained nor a root of the resource it belongs to: it can be put under a container
   without being taken away from anything *)
Definition unowned (m : mm) (s : state) (y : oid) : Prop :=
  cont s y = None /\
  match eresource_of m s y with Some r => nmem y (rcont s r) = false | None => True end.

Lemma unowned_frame m s t y :
  (forall a, cont s a = cont t a) -> (forall a, eres s a = eres t a) -> (forall r, rcont s r = rcont t r) ->
  unowned m s y -> unowned m t y.
Proof.
  intros C E Rc [H1 H2]. split; [rewrite <- C; exact H1|].
  unfold eresource_of in *. rewrite <- (root_of_obs_eq _ s t y C), <- E.
  destruct (eres s (root_of (S (length (ocls m))) s y)) as [r|]; [rewrite <- Rc; exact H2 | exact I].
Qed.

Lemma unowned_obs_eq m s t y : obs_eq s t -> unowned m s y -> unowned m t y.
Proof. intros (_ & C & E & Rc). apply unowned_frame; assumption. Qed.

Definition cont_plain (m : mm) (f : fid) : Prop :=
  f_isref (fd m f) = true /\ f_cont (fd m f) = true /\ f_opp (fd m f) = None.

(* one slot and the container of one object change *)
Definition cell_and_cont (s0 s1 : state) (k : cell) (l1 : list value) (y : oid) (c : option cell) : Prop :=
  (forall k', vals s1 k' = upd (vals s0) k l1 k') /\ (forall o, cont s1 o = updn (cont s0) y c o) /\
  (forall o, eres s1 o = eres s0 o) /\ (forall r, rcont s1 r = rcont s0 r).

Lemma update_container_unowned m s x f y :
  f_cont (fd m f) = true -> unowned m s y ->
  update_container m s x f (Some y) None = set_cont s y (Some (x, f)).
Proof.
  intros Hc [H1 H2]. unfold update_container. rewrite Hc. cbn [negb].
  assert (E : match eresource_of m s y with
              | Some r => if nmem y (rcont s r) then res_remove_raw s r y else s
              | None => s end = s).
  { destruct (eresource_of m s y) as [r|]; [rewrite H2|]; reflexivity. }
  rewrite E, H1. reflexivity.
Qed.

Lemma coll_add_cont_ok m s x f pos y :
  cont_plain m f -> f_many (fd m f) = true -> check_elem m f (VObj y) = true -> unowned m s y ->
  exists s', coll_add_full m s (x, f) pos (VObj y) = (None, s') /\
             cell_and_cont s s' (x, f)
                (match pos with
                 | Some i => raw_insert (f_unique (fd m f)) i (VObj y) (vals s (x, f))
                 | None => raw_append (f_unique (fd m f)) (VObj y) (vals s (x, f)) end) y (Some (x, f)).
Proof.
  intros (R & Hc & Ho) M Ck Hu. unfold coll_add_full, link_elem. rewrite Ck, R. cbn [negb obj_of].
  rewrite (update_container_unowned m s x f y Hc Hu). unfold update_opposite_add. rewrite Ho.
  eexists. split; [reflexivity|].
  unfold inv_add. destruct (cmem (x, f) (inv (set_cont s y (Some (x, f))) y)); repeat split; intros; reflexivity.
Qed.

Lemma coll_pop_cont_ok m s x f i y l' :
  cont_plain m f -> py_pop i (vals s (x, f)) = Some (VObj y, l') ->
  exists s', coll_pop_full m s (x, f) i = ((None, s'), Some (VObj y)) /\
             cell_and_cont s s' (x, f) l' y None.
Proof.
  intros (R & Hc & Ho) P. unfold coll_pop_full, unlink_elem.
  destruct (vals s (x, f)) as [|a r] eqn:E; [rewrite py_pop_nil in P; discriminate|].
  rewrite P, R. cbn [obj_of]. unfold uc_clear. rewrite Hc. unfold update_opposite_remove. rewrite Ho.
  eexists. split; [reflexivity|].
  match goal with |- context [cmem ?c ?l] => destruct (cmem c l) end;
    [|unfold inv_add; match goal with |- context [cmem ?c ?l] => destruct (cmem c l) end];
    repeat split; intros; reflexivity.
Qed.

Lemma cc_back (s s' t t' : state) k l1 y c :
  cell_and_cont s s' k l1 y c -> obs_eq t s' -> cell_and_cont t t' k (vals s k) y (cont s y) -> obs_eq t' s.
Proof.
  intros (V1 & C1 & E1 & R1) (A & B & C & D) (V2 & C2 & E2 & R2).
  repeat split; intros.
  - rewrite V2. unfold upd. destruct (cell_eqb k k0) eqn:E.
    + destruct (cell_eqb_spec k k0); [subst; reflexivity | discriminate].
    + rewrite A, V1. unfold upd. rewrite E. reflexivity.
  - rewrite C2. unfold updn. destruct (Nat.eqb_spec y o) as [->|N]; [reflexivity|].
    rewrite B, C1. unfold updn. destruct (Nat.eqb_spec y o); [contradiction | reflexivity].
  - rewrite E2, C, E1. reflexivity.
  - rewrite R2, D, R1. reflexivity.
Qed.

Lemma cc_again (s s' t t' : state) k l1 y c :
  cell_and_cont s s' k l1 y c -> obs_eq t s -> cell_and_cont t t' k l1 y c -> obs_eq t' s'.
Proof.
  intros (V1 & C1 & E1 & R1) (A & B & C & D) (V2 & C2 & E2 & R2).
  repeat split; intros.
  - rewrite V2, V1. unfold upd. destruct (cell_eqb k k0); [reflexivity | apply A].
  - rewrite C2, C1. unfold updn. destruct (y =? o); [reflexivity | apply B].
  - rewrite E2, E1. apply C.
  - rewrite R2, R1. apply D.
Qed.

Lemma cc_vals s s' k l1 y c : cell_and_cont s s' k l1 y c -> vals s' k = l1.
Proof. intros (V & _). rewrite V. apply upd_same. Qed.

Lemma cc_cont s s' k l1 y c : cell_and_cont s s' k l1 y c -> cont s' y = c.
Proof. intros (_ & C & _). rewrite C. unfold updn. rewrite Nat.eqb_refl. reflexivity. Qed.

(* --- Add to a containment collection without opposite: the child must be unowned --- *)
Lemma add_cont_inverts m s x f y idx c1 s' c' :
  cont_plain m f -> f_many (fd m f) = true -> unowned m s y ->
  can_execute m s (CAdd x f (VObj y) idx) = (Ok true, c1) ->
  execute m s c1 = ((None, s'), c') ->
  exists i', c' = CAdd x f (VObj y) (Some i') /\
             inverts m c' s s' /\
             cell_and_cont s s' (x, f) (py_insert i' (VObj y) (vals s (x, f))) y (Some (x, f)).
Proof.
  intros CP M Hu HC HE. set (l := vals s (x, f)) in *. set (v := VObj y) in *.
  cbn [can_execute] in HC. destruct (negb (base_can m x f)); [discriminate|]. rewrite M in HC. cbn [negb] in HC.
  apply pair_eq_inv in HC. destruct HC as [HB Hc1]. subst c1.
  injection HB as HU. unfold v in HU. cbn [is_none negb andb] in HU. apply negb_true_iff in HU. fold v l in HU.
  assert (Abs : f_unique (fd m f) = true -> vmem v l = false).
  { intros U. rewrite U in HU. exact HU. }
  assert (EX : exists pos i', (0 <= i' <= zlen l)%Z /\ c' = CAdd x f v (Some i') /\
                              coll_add_full m s (x, f) pos v = (None, s') /\
                              match pos with
                              | Some i => raw_insert (f_unique (fd m f)) i v l
                              | None => raw_append (f_unique (fd m f)) v l end = py_insert i' v l).
  { cbn [execute] in HE. destruct idx as [i|]; apply pair_eq_inv in HE; destruct HE as [H1 H2].
    - exists (Some (ins_pos (zlen l) i)), (ins_pos (zlen l) i). split; [apply clamp_index_range, zlen_nonneg|].
      split; [symmetry; exact H2|]. split; [exact H1 | apply raw_insert_absent; exact Abs].
    - exists None, (zlen l). split; [pose proof (zlen_nonneg l); lia|]. split; [symmetry; exact H2|].
      split; [exact H1|]. rewrite (raw_append_absent _ _ _ Abs), py_insert_len. reflexivity. }
  destruct EX as (pos & i' & Ri & Ec & Ea & El). exists i'. split; [exact Ec|].
  destruct (check_elem m f v) eqn:Cv.
  2:{ rewrite (coll_add_bad m s (x, f) pos v Cv) in Ea. discriminate. }
  destruct (coll_add_cont_ok m s x f pos y CP M Cv Hu) as (s1 & E1 & CC).
  fold v in E1. rewrite E1 in Ea. inversion Ea; subst s1. clear Ea E1. fold l v in CC. rewrite El in CC.
  split; [|exact CC]. subst c'. split.
  - intros t Ht. pose proof Ht as (Vt & _). cbn [can_undo undo idx_or0].
    rewrite (Vt (x, f)), (cc_vals _ _ _ _ _ _ CC).
    split; [f_equal; apply vmem_In; apply py_insert_In; left; reflexivity|].
    assert (Pp : py_pop i' (vals t (x, f)) = Some (v, l)).
    { rewrite (Vt (x, f)), (cc_vals _ _ _ _ _ _ CC). apply py_pop_insert. exact Ri. }
    destruct (coll_pop_cont_ok m t x f i' y l CP Pp) as (t' & Et & CCt).
    exists t'. fold v in Et. rewrite Et. split; [reflexivity|].
    apply (cc_back s s' t t' (x, f) _ y _ CC Ht). fold l. rewrite (proj1 Hu). exact CCt.
  - intros t Ht. pose proof Ht as (Vt & _). cbn [redo idx_or0].
    assert (Hut : unowned m t y) by (apply (unowned_obs_eq m s t y (obs_eq_sym _ _ Ht) Hu)).
    destruct (coll_add_cont_ok m t x f (Some i') y CP M Cv Hut) as (t' & Et & CCt).
    exists t'. fold v in Et. rewrite Et. split; [reflexivity|].
    apply (cc_again s s' t t' (x, f) _ y _ CC Ht).
    rewrite (Vt (x, f)) in CCt. fold l v in CCt. rewrite (raw_insert_absent _ _ _ _ Abs) in CCt. exact CCt.
Qed.

(* --- Remove from a containment collection without opposite --- *)
Definition not_root (s : state) (y : oid) : Prop :=
  match eres s y with Some r => nmem y (rcont s r) = false | None => True end.

Lemma remove_cont_inverts m s x f v idx c1 s' c' :
  cont_plain m f -> f_many (fd m f) = true -> cell_wt m f (vals s (x, f)) ->
  (* the children are objects held by (x, f) and no child is listed as a root of a resource *)
  (forall w, In w (vals s (x, f)) -> exists y, w = VObj y /\ cont s y = Some (x, f) /\ not_root s y) ->
  can_execute m s (CRemove x f v idx) = (Ok true, c1) ->
  execute m s c1 = ((None, s'), c') ->
  exists i y l2, c' = CRemove x f (VObj y) (Some i) /\
                 inverts m c' s s' /\ cell_and_cont s s' (x, f) l2 y None.
Proof.
  intros CP M W Hown HC HE. set (l := vals s (x, f)) in *.
  unfold cell_wt in W. rewrite M in W. destruct W as [Wc Wn].
  cbn [can_execute] in HC. destruct (negb (base_can m x f)); [discriminate|]. rewrite M in HC. cbn [negb] in HC.
  assert (EX : exists i v1, (0 <= i)%Z /\
            (let '(o, w) := coll_pop_full m s (x, f) i in
             (o, CRemove x f (match w with Some w' => w' | None => v1 end) (Some i))) = ((None, s'), c')).
  { destruct idx as [i0|].
    - fold l in HC. destruct (py_get i0 l) as [w0|] eqn:G; [|apply pair_eq_inv in HC; destruct HC; discriminate].
      apply pair_eq_inv in HC. destruct HC as [_ Hc1]. subst c1. cbn [execute] in HE. fold l in HE.
      destruct (py_get_norm i0 l w0 G) as (k & N & _).
      rewrite (norm_index_neg_shift _ _ _ N) in HE. exists k, w0. split; [|exact HE].
      apply norm_index_range in N. lia.
    - apply pair_eq_inv in HC. destruct HC as [_ Hc1]. subst c1. cbn [execute] in HE. fold l in HE.
      destruct (index_of veqb v l) as [n|]; [|apply pair_eq_inv in HE; destruct HE; discriminate].
      exists (Z.of_nat n), v. split; [lia | exact HE]. }
  destruct EX as (i & v1 & Hi & HE2). clear HE HC.
  destruct (coll_pop_full m s (x, f) i) as [[[e|] s1] w] eqn:EP;
    apply pair_eq_inv in HE2; destruct HE2 as [H1 H2]; [discriminate|].
  inversion H1; subst s1. clear H1.
  destruct (pop_full_inv m s x f i s' w EP) as (w' & l2 & Pp & Ew). subst w. fold l in Pp.
  destruct (py_pop_nonneg i l w' l2 Hi Pp) as (Hlt & Nth & El2).
  destruct (Hown w' (nth_error_In _ _ Nth)) as (y & Ey & Hcy & Hnr). subst w'.
  destruct (coll_pop_cont_ok m s x f i y l2 CP Pp) as (s2 & E2 & CC).
  rewrite EP in E2. inversion E2; subst s2. clear E2.
  assert (Cw : check_elem m f (VObj y) = true) by (apply Wc; eapply nth_error_In; exact Nth).
  assert (Abs : f_unique (fd m f) = true -> vmem (VObj y) l2 = false).
  { intros U. subst l2. apply nodupv_removed_notin; [apply Wn; exact U | exact Nth]. }
  exists i, y, l2. split; [symmetry; exact H2|]. split; [|exact CC].
  subst c'. split.
  - intros t Ht. pose proof Ht as (Vt & Ct & Et & Rt). split; [reflexivity|]. cbn [undo idx_or0].
    assert (Hut : unowned m t y).
    { assert (Cy : cont t y = None) by (rewrite Ct; apply (cc_cont _ _ _ _ _ _ CC)).
      split; [exact Cy|]. unfold eresource_of. cbn [root_of]. rewrite Cy.
      destruct CC as (_ & _ & E1 & R1). rewrite Et, E1. unfold not_root in Hnr.
      destruct (eres s y) as [r|]; [rewrite Rt, R1; exact Hnr | exact I]. }
    destruct (coll_add_cont_ok m t x f (Some i) y CP M Cw Hut) as (t' & Et' & CCt).
    exists t'. rewrite Et'. split; [reflexivity|].
    apply (cc_back s s' t t' (x, f) _ y _ CC Ht). fold l. rewrite Hcy.
    rewrite (Vt (x, f)), (cc_vals _ _ _ _ _ _ CC) in CCt.
    rewrite (raw_insert_absent _ _ _ _ Abs), (py_insert_pop i l (VObj y) l2 Hi Pp) in CCt. exact CCt.
  - intros t Ht. pose proof Ht as (Vt & _). cbn [redo idx_or0].
    assert (Pt : py_pop i (vals t (x, f)) = Some (VObj y, l2)) by (rewrite (Vt (x, f)); exact Pp).
    destruct (coll_pop_cont_ok m t x f i y l2 CP Pt) as (t' & Et' & CCt).
    exists t'. rewrite Et'. split; [reflexivity|].
    apply (cc_again s s' t t' (x, f) _ y _ CC Ht). exact CCt.
Qed.

(* --- Set on a single-valued containment reference without opposite --- *)
Lemma update_container_set m s x f ov op :
  f_cont (fd m f) = true ->
  (forall y, ov = Some y -> unowned m s y) ->
  (forall y p, ov = Some y -> op = Some p -> y <> p) ->
  update_container m s x f ov op =
  let s1 := match ov with Some y => set_cont s y (Some (x, f)) | None => s end in
  match op with Some p => set_cont s1 p None | None => s1 end.
Proof.
  intros Hc Hu Hne. destruct ov as [y|].
  - pose proof (update_container_unowned m s x f y Hc (Hu y eq_refl)) as E.
    unfold update_container in *. rewrite Hc in *. cbn [negb] in *.
    destruct op as [p|]; [|exact E].
    destruct (Nat.eqb_spec y p) as [Ey|Ny]; [exfalso; exact (Hne y p eq_refl eq_refl Ey)|].
    cbv zeta. f_equal. exact E.
  - unfold update_container. rewrite Hc. cbn [negb]. destruct op; reflexivity.
Qed.

Definition cont_after (C : oid -> option cell) (x : oid) (f : fid) (v pv : value) : oid -> option cell :=
  let C1 := match obj_of v with Some y => updn C y (Some (x, f)) | None => C end in
  match obj_of pv with Some p => updn C1 p None | None => C1 end.

Lemma set_full_cont_ok m s x f v :
  cont_plain m f -> check_single m f v = true ->
  (forall y, v = VObj y -> unowned m s y) ->
  (forall y p, v = VObj y -> single s (x, f) = VObj p -> y <> p) ->
  exists s', set_full m s (x, f) v = (None, s') /\
             (forall k, vals s' k = upd (vals s) (x, f) [v] k) /\
             (forall o, cont s' o = cont_after (cont s) x f v (single s (x, f)) o) /\
             (forall o, eres s' o = eres s o) /\ (forall r, rcont s' r = rcont s r).
Proof.
  intros (R & Hc & Ho) Ck Hu Hne. unfold set_full. rewrite Ck, R. cbn [negb]. rewrite Ho.
  set (pv := single s (x, f)) in *.
  assert (Hu1 : forall y, obj_of v = Some y -> unowned m (set_store m s (x, f) v) y).
  { intros y Ey. apply obj_of_Some' in Ey.
    apply (unowned_frame m s _ y); [reflexivity | reflexivity | reflexivity | exact (Hu y Ey)]. }
  rewrite (update_container_set m (set_store m s (x, f) v) x f (obj_of v) (obj_of pv) Hc Hu1).
  2:{ intros y p Ey Ep. apply obj_of_Some' in Ey. apply obj_of_Some' in Ep. exact (Hne y p Ey Ep). }
  eexists. split; [reflexivity|]. unfold cont_after. cbv zeta.
  destruct (obj_of v) as [y|]; destruct (obj_of pv) as [p|]; unfold inv_add, inv_del;
    repeat match goal with |- context [cmem ?c ?l] => destruct (cmem c l) end;
    repeat split; intros; reflexivity.
Qed.

Lemma set_cont_inverts m s x f v p0 s' c' :
  cont_plain m f -> f_many (fd m f) = false -> cell_wt m f (vals s (x, f)) ->
  (forall y, v = VObj y -> unowned m s y) ->                     (* the new child is taken from nobody *)
  (forall p, vals s (x, f) = [VObj p] -> cont s p = Some (x, f) /\ not_root s p) ->
  execute m s (CSet x f v p0) = ((None, s'), c') ->
  inverts m c' s s' /\
  (forall k, vals s' k = upd (vals s) (x, f) [v] k) /\
  (forall o, cont s' o = cont_after (cont s) x f v (single s (x, f)) o).
Proof.
  intros CP M W Hu Hown HE.
  unfold cell_wt in W. rewrite M in W. destruct W as (pv & Hpv & Cp).
  assert (Sg : single s (x, f) = pv) by (unfold single; rewrite Hpv; reflexivity).
  cbn [execute] in HE. apply pair_eq_inv in HE. destruct HE as [H1 H2]. rewrite Sg in H2 |- *.
  assert (Cv : check_single m f v = true).
  { destruct (check_single m f v) eqn:C; [reflexivity|]. rewrite (set_full_bad m s (x, f) v C) in H1. discriminate. }
  assert (Hne : forall y p, v = VObj y -> pv = VObj p -> y <> p).
  { intros y p Ey Ep E. subst p. destruct (Hu y Ey) as [Hcy _].
    destruct (Hown y) as [Hc' _]; [rewrite Hpv, Ep; reflexivity|]. congruence. }
  destruct (set_full_cont_ok m s x f v CP Cv Hu) as (s1 & E1 & VS & CS & ES & RS).
  { intros y p Ey Ep. rewrite Sg in Ep. exact (Hne y p Ey Ep). }
  rewrite E1 in H1. inversion H1; subst s1. clear H1 E1. rewrite Sg in CS.
  split; [|split; [exact VS | exact CS]].
  (* the containers before, in terms of v and pv *)
  assert (Cy : forall y, v = VObj y -> cont s y = None) by (intros y Ey; exact (proj1 (Hu y Ey))).
  assert (Cpp : forall p, pv = VObj p -> cont s p = Some (x, f) /\ not_root s p).
  { intros p Ep. apply Hown. rewrite Hpv, Ep. reflexivity. }
  subst c'. split.
  - (* undo: x.f = pv *)
    intros t Ht. pose proof Ht as (Vt & Ct & Et & Rt). split; [reflexivity|]. cbn [undo].
    assert (St : single t (x, f) = v) by (unfold single; rewrite (Vt (x, f)), VS, upd_same; reflexivity).
    assert (Hut : forall p, pv = VObj p -> unowned m t p).
    { intros p Ep. destruct (Cpp p Ep) as [Hcp Hnr].
      assert (Cp0 : cont t p = None).
      { rewrite Ct, CS. unfold cont_after. rewrite Ep. cbn [obj_of]. unfold updn. rewrite Nat.eqb_refl. reflexivity. }
      split; [exact Cp0|]. unfold eresource_of. cbn [root_of]. rewrite Cp0. rewrite Et, ES.
      unfold not_root in Hnr. destruct (eres s p) as [r|]; [rewrite Rt, RS; exact Hnr | exact I]. }
    destruct (set_full_cont_ok m t x f pv CP Cp Hut) as (t' & Et' & Vt' & Ct' & Et2 & Rt2).
    { intros p y Ep Ey. rewrite St in Ey. intros E. exact (Hne y p Ey Ep (eq_sym E)). }
    exists t'. rewrite Et'. split; [reflexivity|]. rewrite St in Ct'.
    repeat split; intros.
    + rewrite Vt'. unfold upd. destruct (cell_eqb (x, f) k) eqn:E.
      * destruct (cell_eqb_spec (x, f) k); [subst k; symmetry; exact Hpv | discriminate].
      * rewrite Vt, VS. unfold upd. rewrite E. reflexivity.
    + rewrite Ct'. unfold cont_after.
      assert (Base : forall o', cont t o' = cont_after (cont s) x f v pv o') by (intros o'; rewrite Ct; apply CS).
      unfold cont_after in Base.
      destruct (obj_of pv) as [p|] eqn:Ep; destruct (obj_of v) as [y|] eqn:Ey;
        try apply obj_of_Some' in Ep; try apply obj_of_Some' in Ey; unfold updn in *.
      * pose proof (Hne y p Ey Ep) as Nyp. specialize (Base o).
        destruct (Nat.eqb_spec y o) as [->|Ny].
        -- symmetry. exact (Cy o Ey).
        -- destruct (Nat.eqb_spec p o) as [->|Np]; [symmetry; exact (proj1 (Cpp o Ep))|].
           rewrite Base. reflexivity.
      * specialize (Base o). destruct (Nat.eqb_spec p o) as [->|Np]; [symmetry; exact (proj1 (Cpp o Ep))|].
        rewrite Base. reflexivity.
      * specialize (Base o). destruct (Nat.eqb_spec y o) as [->|Ny]; [symmetry; exact (Cy o Ey)|].
        rewrite Base. reflexivity.
      * apply Base.
    + rewrite Et2, Et, ES. reflexivity.
    + rewrite Rt2, Rt, RS. reflexivity.
  - (* redo: x.f = v *)
    intros t Ht. pose proof Ht as (Vt & Ct & Et & Rt). cbn [redo].
    assert (St : single t (x, f) = pv) by (unfold single; rewrite (Vt (x, f)), Hpv; reflexivity).
    assert (Hut : forall y, v = VObj y -> unowned m t y).
    { intros y Ey. apply (unowned_obs_eq m s t y (obs_eq_sym _ _ Ht)). exact (Hu y Ey). }
    destruct (set_full_cont_ok m t x f v CP Cv Hut) as (t' & Et' & Vt' & Ct' & Et2 & Rt2).
    { intros y p Ey Ep. rewrite St in Ep. exact (Hne y p Ey Ep). }
    exists t'. rewrite Et'. split; [reflexivity|]. rewrite St in Ct'.
    repeat split; intros.
    + rewrite Vt', VS. unfold upd. destruct (cell_eqb (x, f) k); [reflexivity | apply Vt].
    + rewrite Ct', CS. unfold cont_after.
      destruct (obj_of pv) as [p|]; destruct (obj_of v) as [y|]; unfold updn;
        repeat match goal with |- context [?a =? ?b] => destruct (a =? b) end; try reflexivity; apply Ct.
    + rewrite Et2, ES. apply Et.
    + rewrite Rt2, RS. apply Rt.
Qed.

(* a metamodel with containment: f0 = ckids : C0[*] containment, f1 = ckid : C0[0..1] containment, no opposites *)
Definition ex_mm_cont : mm :=
  {| feats := [ {| f_owner := 0; f_isref := true; f_many := true; f_unique := true; f_cont := true;
                   f_opp := None; f_type := TClass 0; f_default := VNone |};
                {| f_owner := 0; f_isref := true; f_many := false; f_unique := true; f_cont := true;
                   f_opp := None; f_type := TClass 0; f_default := VNone |} ];
     conf := [(0, 0)]; ocls := [0; 0; 0; 0]; enames := []; nres := 1 |}.

Lemma ex_mm_cont_premises :
  cont_plain ex_mm_cont 0 /\ cont_plain ex_mm_cont 1 /\ unowned ex_mm_cont (init_state ex_mm_cont) 1.
Proof. repeat split. Qed.
