(* C05 — observers can mirror the model from notifications alone.
   Statements only; proofs in Proofs/C05Proofs.v over Model/Kernel.v
   (valuecontainer.py + ENotifer.notify, statement by statement).
   Proved (the attribute half, every data type, every multiplicity): each
   accepted operation on a non-reference feature changes exactly the addressed
   slot and appends exactly one notification whose notifier, feature, kind
   and old/new payload describe that change — SET/UNSET carry the previous
   and the new value, ADD the inserted element, REMOVE the removed one,
   REMOVE_MANY the whole previous content, ADD_MANY the argument — and an
   empty clear reports nothing.  An observer applying them therefore holds
   the slot's content (as a multiset; positions are not reported).
   PARTIAL: for references the same shape holds per touched slot but the
   composition with the implicit opposite/container updates is not yet a
   theorem; it is carried by the correspondence on the notification log and
   the mirror observer of harness/props/c05.py.  Known finding
   F-C05-elist-item-write (item/slice writes on list-based collections) is
   outside these theorems: the model reproduces it. *)
From Coq Require Import ZArith List Bool Arith.
From PyecoreV Require Import Lib.PyBase Lib.PyList Model.Kernel Proofs.KernelFacts Proofs.C05Proofs.
Import ListNotations.

Theorem C05_attribute_set_reported_partial :
  forall m f, f_isref (fd m f) = false ->
  forall s x v, check_single m f v = true ->
    let s' := snd (set_full m s (x, f) v) in
    vals s' = upd (vals s) (x, f) [v] /\
    log s' = mk m (set_vals s (x, f) [v]) x f (match v with VNone => KUnset | _ => KSet end)
                (POne (single s (x, f))) (POne v) :: log s /\
    cont s' = cont s /\ rcont s' = rcont s /\ eres s' = eres s.
Proof. exact attr_set. Qed.
Print Assumptions C05_attribute_set_reported_partial.

Theorem C05_attribute_add_reported_partial :
  forall m f, f_isref (fd m f) = false ->
  forall s x pos v, check_elem m f v = true ->
    let s' := snd (coll_add_full m s (x, f) pos v) in
    let l' := match pos with
              | Some i => raw_insert (f_unique (fd m f)) i v (vals s (x, f))
              | None => raw_append (f_unique (fd m f)) v (vals s (x, f)) end in
    vals s' = upd (vals s) (x, f) l' /\
    log s' = mk m (set_vals s (x, f) l') x f KAdd (POne VNone) (POne v) :: log s.
Proof. exact attr_add. Qed.
Print Assumptions C05_attribute_add_reported_partial.

Theorem C05_attribute_remove_reported_partial :
  forall m f, f_isref (fd m f) = false ->
  forall s x v, vmem v (vals s (x, f)) = true ->
    let s' := snd (coll_remove_top m s (x, f) v) in
    let l' := raw_remove v (vals s (x, f)) in
    vals s' = upd (vals s) (x, f) l' /\
    log s' = mk m (set_vals s (x, f) l') x f KRemove (POne v) (POne VNone) :: log s.
Proof. exact attr_remove. Qed.
Print Assumptions C05_attribute_remove_reported_partial.

Theorem C05_attribute_pop_reported_partial :
  forall m f, f_isref (fd m f) = false ->
  forall s x i v l', py_pop i (vals s (x, f)) = Some (v, l') ->
    let r := coll_pop_full m s (x, f) i in
    vals (snd (fst r)) = upd (vals s) (x, f) l' /\
    log (snd (fst r)) = mk m (set_vals s (x, f) l') x f KRemove (POne v) (POne VNone) :: log s /\
    snd r = Some v /\ fst (fst r) = None.
Proof. exact attr_pop. Qed.
Print Assumptions C05_attribute_pop_reported_partial.

Theorem C05_attribute_clear_reported_partial :
  forall m f, f_isref (fd m f) = false ->
  forall s x,
    let s' := coll_clear_full m s (x, f) in
    match vals s (x, f) with
    | [] => s' = s
    | l => vals s' = upd (vals s) (x, f) [] /\
           log s' = mk m (set_vals s (x, f) []) x f KRemoveMany (PMany l) (PMany []) :: log s
    end.
Proof. exact attr_clear. Qed.
Print Assumptions C05_attribute_clear_reported_partial.

Theorem C05_attribute_extend_reported_partial :
  forall m f, f_isref (fd m f) = false ->
  forall s x vs, forallb (check_elem m f) vs = true ->
    let s' := snd (coll_extend_full m s (x, f) vs) in
    let l' := if f_unique (fd m f)
              then fold_left (fun acc v => raw_append true v acc) vs (vals s (x, f))
              else vals s (x, f) ++ vs in
    vals s' (x, f) = l' /\
    (forall k, k <> (x, f) -> vals s' k = vals s k) /\
    exists s0, log s' = mk m s0 x f KAddMany (POne VNone) (PMany vs) :: log s.
Proof. exact attr_extend. Qed.
Print Assumptions C05_attribute_extend_reported_partial.

Definition ex_mm : mm :=
  {| feats := [ {| f_owner := 0; f_isref := false; f_many := true; f_unique := false; f_cont := false;
                   f_opp := None; f_type := TInt; f_default := VNone |} ];
     conf := [(0, 0)]; ocls := [0]; enames := []; nres := 0 |}.

Example C05_witness :
  let s := fold_left (next ex_mm) [OAppend 0 0 (VInt 7); OAppend 0 0 (VInt 7); OPop 0 0 (-1)] (init_state ex_mm) in
  vals s (0, 0) = [VInt 7] /\ map n_kind (log s) = [KRemove; KAdd; KAdd].
Proof. vm_compute. split; reflexivity. Qed.
