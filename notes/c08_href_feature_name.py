# Witness (outside Model/XmiDoc.v, where names are abstract identifiers): a metamodel with a FEATURE NAMED "href" does not
# survive XMI save/load -- _decode_node / _decode_attribute read an un-prefixed href attribute as the mark of a proxy.
# Run: /venv/bin/python -P notes/c08_href_feature_name.py   (prints the document, then "load raised KeyError ...")
import sys, tempfile, os
sys.path.insert(0, '/repo')
from pyecore.ecore import *
from pyecore.resources import ResourceSet, URI
p = EPackage('p', nsURI='http://p', nsPrefix='p')
A = EClass('A'); p.eClassifiers.append(A)
A.eStructuralFeatures.append(EAttribute('href', EString))
A.eStructuralFeatures.append(EAttribute('name', EString))
A.eStructuralFeatures.append(EReference('kids', A, upper=-1, containment=True))
r = A(); r.name = 'root'; r.href = 'x'
k = A(); k.name = 'kid'; k.href = 'http://example.org/page'
r.kids.append(k)
d = tempfile.mkdtemp()
rs = ResourceSet(); rs.metamodel_registry[p.nsURI] = p
res = rs.create_resource(URI(os.path.join(d, 'm.xmi'))); res.append(r); res.save()
print(open(os.path.join(d, 'm.xmi')).read())
rs2 = ResourceSet(); rs2.metamodel_registry[p.nsURI] = p
try:
    res2 = rs2.get_resource(URI(os.path.join(d, 'm.xmi')))
    r2 = res2.contents[0]
    print('root href', r2.href, 'kids', [ (type(x).__name__, getattr(x, 'name', None)) for x in r2.kids])
except Exception as e:
    print('load raised', type(e).__name__, e)
