(* C01 completed for metamodels without containment: self-opposite linking,
   shape preservation, the composite operations of `step`, and the assembled
   step / history theorems.  Builds on Proofs/C01Proofs.v. *)
From Coq Require Import ZArith List Bool Arith Lia.
From PyecoreV Require Import Lib.PyBase Lib.PyList Model.Kernel Proofs.PyListFacts Proofs.KernelFacts Proofs.C01Proofs.
Import ListNotations.
Open Scope nat_scope.

Definition Inv (m : mm) (s : state) : Prop := sym m s /\ shape m s.

(* ---------- small facts on values and lists ---------- *)
Lemma veqb_refl v : veqb v v = true.
Proof.
  destruct v; unfold veqb; simpl; rewrite ?Z.eqb_refl, ?Nat.eqb_refl; try reflexivity.
Qed.

Lemma veqb_nonobj w v : obj_of v = None -> veqb w v = true -> obj_of w = None.
Proof. destruct w, v; simpl; intros H1 H2; try reflexivity; try discriminate. Qed.

Lemma objs_of_cons_nonobj v l : obj_of v = None -> objs_of (v :: l) = objs_of l.
Proof. destruct v; simpl; intros H; try reflexivity; discriminate. Qed.

Lemma objs_of_cons_obj y l : objs_of (VObj y :: l) = y :: objs_of l.
Proof. reflexivity. Qed.

Lemma objs_of_cons_cases v l :
  (exists y, v = VObj y /\ objs_of (v :: l) = y :: objs_of l) \/ (obj_of v = None /\ objs_of (v :: l) = objs_of l).
Proof. destruct v; simpl; try (right; split; reflexivity). left. exists o. split; reflexivity. Qed.

Lemma remove_first_objs_nonobj v l l' :
  obj_of v = None -> remove_first veqb v l = Some l' -> objs_of l' = objs_of l.
Proof.
  intros Hv. revert l'. induction l as [|a r IH]; simpl; intros l' H; [discriminate|].
  destruct (veqb a v) eqn:E.
  - inversion H; subst l'. symmetry. apply objs_of_cons_nonobj. exact (veqb_nonobj a v Hv E).
  - destruct (remove_first veqb v r) as [r'|]; [|discriminate]. inversion H; subst l'.
    specialize (IH r' eq_refl).
    destruct (objs_of_cons_cases a r) as [[y [Ea E1]]|[Ea E1]].
    + subst a. simpl. rewrite IH. reflexivity.
    + rewrite E1. rewrite (objs_of_cons_nonobj a r' Ea). exact IH.
Qed.

Lemma raw_remove_objs_nonobj v l : obj_of v = None -> objs_of (raw_remove v l) = objs_of l.
Proof.
  intros Hv. unfold raw_remove. destruct (remove_first veqb v l) as [l'|] eqn:E; [|reflexivity].
  exact (remove_first_objs_nonobj v l l' Hv E).
Qed.

Lemma remove_first_objs_sub v l l' :
  remove_first veqb v l = Some l' ->
  (forall o, In o (objs_of l') -> In o (objs_of l)) /\ (NoDup (objs_of l) -> NoDup (objs_of l')).
Proof.
  revert l'. induction l as [|a r IH]; simpl; intros l' H; [discriminate|].
  destruct (veqb a v) eqn:E.
  - inversion H; subst l'.
    destruct (objs_of_cons_cases a r) as [[y [Ea E1]]|[Ea E1]]; rewrite E1.
    + split; [intros o Ho; right; exact Ho | intros ND; inversion ND; assumption].
    + split; [intros o Ho; exact Ho | intros ND; exact ND].
  - destruct (remove_first veqb v r) as [r'|]; [|discriminate]. inversion H; subst l'.
    destruct (IH r' eq_refl) as [Hsub Hnd].
    destruct (objs_of_cons_cases a r) as [[y [Ea E1]]|[Ea E1]].
    + subst a. simpl. split.
      * intros o [Ho|Ho]; [left; exact Ho | right; apply Hsub; exact Ho].
      * intros ND. inversion ND as [|? ? Hn ND']; subst. constructor; [|apply Hnd; exact ND'].
        intros Ho. apply Hn. apply Hsub. exact Ho.
    + rewrite E1. rewrite (objs_of_cons_nonobj a r' Ea). split; assumption.
Qed.

Lemma nodup_raw_remove v l : nodup_objs l -> nodup_objs (raw_remove v l).
Proof.
  unfold nodup_objs, raw_remove. intros ND.
  destruct (remove_first veqb v l) as [l'|] eqn:E; [|exact ND].
  exact (proj2 (remove_first_objs_sub v l l' E) ND).
Qed.

Lemma remove_first_is_remove_at y l n :
  nodup_objs l -> nth_error l n = Some (VObj y) ->
  remove_first veqb (VObj y) l = Some (remove_at n l).
Proof.
  unfold nodup_objs. revert n. induction l as [|a r IH]; intros n ND H; [destruct n; discriminate|].
  destruct n as [|n]; simpl in *.
  - inversion H; subst a. rewrite veqb_refl. reflexivity.
  - destruct (veqb a (VObj y)) eqn:E.
    + apply veqb_obj_r in E. subst a. simpl in ND. inversion ND as [|? ? Hn ND']; subst.
      exfalso. apply Hn. apply objs_of_In. eapply nth_error_In; eauto.
    + assert (ND' : NoDup (objs_of r)).
      { destruct (objs_of_cons_cases a r) as [[z [Ea E1]]|[Ea E1]]; rewrite E1 in ND;
          [inversion ND; assumption | exact ND]. }
      rewrite (IH n ND' H). reflexivity.
Qed.

Lemma remove_at_objs_nonobj {v} l n :
  nth_error l n = Some v -> obj_of v = None -> objs_of (remove_at n l) = objs_of l.
Proof.
  revert n. induction l as [|a r IH]; intros n H Hv; [destruct n; discriminate|].
  destruct n as [|n]; simpl in *.
  - inversion H; subst a. symmetry. apply objs_of_cons_nonobj. exact Hv.
  - specialize (IH n H Hv).
    destruct (objs_of_cons_cases a r) as [[z [Ea E1]]|[Ea E1]].
    + subst a. simpl. rewrite IH. reflexivity.
    + rewrite E1. rewrite (objs_of_cons_nonobj a _ Ea). exact IH.
Qed.

Lemma py_pop_nth {A} i (l l' : list A) v :
  py_pop i l = Some (v, l') -> exists n, nth_error l n = Some v /\ l' = remove_at n l.
Proof.
  unfold py_pop. destruct (norm_index (zlen l) i) as [k|]; [|discriminate].
  destruct (nth_error l (Z.to_nat k)) eqn:E; [|discriminate]. intros H; inversion H; subst.
  exists (Z.to_nat k). split; [exact E | reflexivity].
Qed.

Lemma objs_of_app_nonobj v l : obj_of v = None -> objs_of (l ++ [v]) = objs_of l.
Proof.
  intros Hv. rewrite objs_of_app. rewrite (objs_of_cons_nonobj v [] Hv). simpl. apply app_nil_r.
Qed.

Lemma objs_of_insert_at_nonobj v n l : obj_of v = None -> objs_of (insert_at n v l) = objs_of l.
Proof.
  intros Hv. revert n. induction l as [|a r IH]; intros [|n]; simpl;
    try (apply (objs_of_cons_nonobj v _ Hv)).
  destruct (objs_of_cons_cases a r) as [[z [Ea E1]]|[Ea E1]].
  - subst a. simpl. rewrite IH. reflexivity.
  - rewrite E1. rewrite (objs_of_cons_nonobj a _ Ea). apply IH.
Qed.

Lemma raw_append_objs_nonobj u v l : obj_of v = None -> objs_of (raw_append u v l) = objs_of l.
Proof.
  intros Hv. unfold raw_append. destruct (u && vmem v l); [reflexivity | apply objs_of_app_nonobj; exact Hv].
Qed.

Lemma raw_insert_objs_nonobj u i v l : obj_of v = None -> objs_of (raw_insert u i v l) = objs_of l.
Proof.
  intros Hv. unfold raw_insert. destruct (u && vmem v l); [reflexivity|].
  unfold py_insert. apply objs_of_insert_at_nonobj. exact Hv.
Qed.

Lemma nodup_insert_at_obj y n l :
  nodup_objs l -> ~ In (VObj y) l -> nodup_objs (insert_at n (VObj y) l).
Proof.
  unfold nodup_objs. intros ND Hn. revert n ND Hn. induction l as [|a r IH]; intros n ND Hn.
  - destruct n; simpl; (constructor; [intros [] | constructor]).
  - destruct n as [|n]; simpl.
    + constructor; [rewrite objs_of_In; exact Hn | exact ND].
    + assert (Hn' : ~ In (VObj y) r) by (intros H; apply Hn; right; exact H).
      destruct (objs_of_cons_cases a r) as [[z [Ea E1]]|[Ea E1]].
      * subst a. simpl in *. inversion ND as [|? ? Hz ND']; subst. constructor; [|apply IH; assumption].
        rewrite objs_of_In. intros H. apply insert_at_In in H. destruct H as [H|H].
        -- apply Hn. left. exact H.
        -- apply Hz. apply objs_of_In. exact H.
      * rewrite E1 in ND. rewrite (objs_of_cons_nonobj a _ Ea). apply IH; assumption.
Qed.

Lemma nodup_raw_insert i v l : nodup_objs l -> nodup_objs (raw_insert true i v l).
Proof.
  intros ND. destruct (obj_of v) as [y|] eqn:Ev.
  - apply obj_of_Some' in Ev. subst v. unfold raw_insert. simpl.
    destruct (vmem (VObj y) l) eqn:E; [exact ND|]. apply vmem_obj_false in E.
    unfold py_insert. apply nodup_insert_at_obj; assumption.
  - unfold nodup_objs. rewrite (raw_insert_objs_nonobj true i v l Ev). exact ND.
Qed.

Lemma nodup_raw_append v l : nodup_objs l -> nodup_objs (raw_append true v l).
Proof.
  intros ND. destruct (obj_of v) as [y|] eqn:Ev.
  - apply obj_of_Some' in Ev. subst v. apply raw_append_nodup. exact ND.
  - unfold nodup_objs. rewrite (raw_append_objs_nonobj true v l Ev). exact ND.
Qed.

Lemma nodup_single v : nodup_objs [v].
Proof. unfold nodup_objs. destruct v; simpl; repeat constructor; intros []. Qed.

Lemma upd_comm {A} (V : cell -> A) k1 k2 a b k :
  k1 <> k2 -> upd (upd V k1 a) k2 b k = upd (upd V k2 b) k1 a k.
Proof.
  intros N. unfold upd. destruct (cell_eqb_spec k2 k), (cell_eqb_spec k1 k); try reflexivity. congruence.
Qed.

Lemma upd_upd {A} (V : cell -> A) k1 a b k : upd (upd V k1 a) k1 b k = upd V k1 b k.
Proof. unfold upd. destruct (cell_eqb k1 k); reflexivity. Qed.

Lemma upd_ext {A} (V W : cell -> A) k1 a : (forall k, V k = W k) -> forall k, upd V k1 a k = upd W k1 a k.
Proof. intros E k. unfold upd. destruct (cell_eqb k1 k); [reflexivity | apply E]. Qed.

(* ---------- symmetry / shape only depend on the objects held ---------- *)
Lemma sym_objs_ext m s s' :
  (forall k, objs_of (vals s' k) = objs_of (vals s k)) -> sym m s -> sym m s'.
Proof.
  intros E H f g Hfg a b. unfold R. rewrite <- !objs_of_In. rewrite !E. rewrite !objs_of_In.
  exact (H f g Hfg a b).
Qed.

Lemma Inv_ext m s s' : (forall k, vals s' k = vals s k) -> Inv m s -> Inv m s'.
Proof. intros E [H1 H2]. split; [exact (sym_ext m s s' E H1) | exact (shape_ext m s s' E H2)]. Qed.

Lemma Inv_objs_ext_cell m s s' x f :
  f_many (fd m f) = true ->
  (forall k, k <> (x, f) -> vals s' k = vals s k) ->
  objs_of (vals s' (x, f)) = objs_of (vals s (x, f)) ->
  Inv m s -> Inv m s'.
Proof.
  intros Hm Hfr Hobj [Hs Hsh]. split.
  - apply (sym_objs_ext m s s'); [|exact Hs]. intros k.
    destruct (cell_eqb_spec k (x, f)) as [E|N]; [subst k; exact Hobj | rewrite (Hfr k N); reflexivity].
  - intros a h. destruct (cell_eqb_spec (a, h) (x, f)) as [E|N].
    + inversion E; subst a h. split; [intros C; congruence|].
      intros Ho. unfold nodup_objs. rewrite Hobj. exact (proj2 (Hsh x f) Ho).
    + rewrite (Hfr _ N). exact (Hsh a h).
Qed.

(* a feature without opposite is nobody's opposite: only the frame matters *)
Lemma Inv_frame_noopp m s s' x f :
  wf_opp m -> f_opp (fd m f) = None ->
  (forall k, k <> (x, f) -> vals s' k = vals s k) ->
  (f_many (fd m f) = false -> exists v, vals s' (x, f) = [v]) ->
  Inv m s -> Inv m s'.
Proof.
  intros Hwf Hno Hfr Hsing [Hs Hsh]. split.
  - intros f' g' Hfg a b. destruct (Hwf f' g' Hfg) as [Hgf _]. unfold R.
    rewrite (Hfr (a, f')) by (intros E; inversion E; congruence).
    rewrite (Hfr (b, g')) by (intros E; inversion E; congruence).
    exact (Hs f' g' Hfg a b).
  - intros a h. destruct (cell_eqb_spec (a, h) (x, f)) as [E|N].
    + inversion E; subst a h. split; [exact Hsing | intros C; congruence].
    + rewrite (Hfr _ N). exact (Hsh a h).
Qed.
