"""Save/load round trip on the implementation, failure signatures, shrinking and replay
shared by C08 (XMI) and C09 (JSON).  Generators and the canonical dump are in ser_gen."""
import copy
import json
import os
import tempfile
import time

from harness import common
from harness import ser_gen as G

OPTION_NAMES = {'xmi': ['uuid', 'serialize_default', 'xmi_type'], 'json': ['uuid', 'serialize_default']}


def _resource_classes():
    common.use_repo()
    from pyecore.resources import URI
    from pyecore.resources.xmi import XMIResource, XMIOptions
    from pyecore.resources.json import JsonResource, JsonOptions
    return URI, XMIResource, XMIOptions, JsonResource, JsonOptions


def new_rset(built, fmt):
    URI, XMIResource, XMIOptions, JsonResource, JsonOptions = _resource_classes()
    rset = built.new_rset()
    if fmt == 'json':
        rset.resource_factory['json'] = lambda uri, **kw: JsonResource(uri, **kw)
    return rset


def save_options(fmt, opts):
    URI, XMIResource, XMIOptions, JsonResource, JsonOptions = _resource_classes()
    o = {}
    if opts.get('serialize_default'):
        o[(XMIOptions if fmt == 'xmi' else JsonOptions).SERIALIZE_DEFAULT_VALUES] = True
    if fmt == 'xmi' and opts.get('xmi_type'):
        o[XMIOptions.OPTION_USE_XMI_TYPE] = True
    return o


class RoundTrip:
    """One save + load in a fresh resource set; keeps what the checks look at."""

    def __init__(self, mm, md, fmt, opts, built=None, keep_loaded=False):
        URI = _resource_classes()[0]
        self.mm, self.md, self.fmt, self.opts = mm, md, fmt, opts
        self.built = built or G.Built(mm)
        self.stage = None          # None = completed; else 'save' / 'load' / 'observe'
        self.exc = None
        self.d0 = self.d1 = None
        self.wf = []
        self.data = None
        self.loaded = None
        with tempfile.TemporaryDirectory(prefix='verif_ser_') as d:
            path = os.path.join(d, 'model.' + ('xmi' if fmt == 'xmi' else 'json'))
            rset = new_rset(self.built, fmt)
            res = rset.create_resource(URI(path), use_uuid=bool(opts.get('uuid')))
            self.inst = G.build_model(self.built, md, res)
            self.source = res
            self.d0 = G.dump(res)
            try:
                res.save(options=save_options(fmt, opts))
            except Exception as e:          # noqa
                self.stage, self.exc = 'save', e
                return
            self.data = open(path, 'rb').read()
            # "a fresh resource set that knows the same metamodel": the same EPackage object, or the
            # same description rendered a second time
            built2 = G.Built(mm) if opts.get('fresh_metamodel') else self.built
            rset2 = new_rset(built2, fmt)
            try:
                res2 = rset2.get_resource(URI(path))
            except Exception as e:          # noqa
                self.stage, self.exc = 'load', e
                return
            try:
                self.d1 = G.dump(res2)
                self.wf = G.wf_problems(res2, mm, unique_clause=(fmt == 'json'))
            except Exception as e:          # noqa
                self.stage, self.exc = 'observe', e
                return
            if keep_loaded:
                self.loaded = res2
        if fmt == 'json' and self.stage is None:
            try:
                self.wf += json_text_problems(mm, md, json.loads(self.data.decode('utf-8')))
            except Exception as e:      # noqa
                self.wf.append(('json-text', None, f'the text written is not the JSON of a model: {type(e).__name__}: {e}'))


def json_text_problems(mm, md, doc):
    """C09 "attribute values with their JSON-native types": in the text, an int/float/bool/str typed attribute value is
    a JSON number/boolean/string (None is null), values of other types are strings"""
    out = []
    native = {'EInt': int, 'ELong': int, 'EBigInteger': int, 'EDouble': float, 'EFloat': float, 'EBoolean': bool,
              'EString': str, 'EChar': str}
    roots = doc if isinstance(doc, list) else [doc]

    def ok(x, typ):
        if x is None:
            return True
        t = native.get(typ, str)
        if t is int:
            return isinstance(x, int) and not isinstance(x, bool)
        if t is float:
            return isinstance(x, float)
        return isinstance(x, t)

    def go(d, cls):
        if 'eClass' in d:
            cls = d['eClass'].rsplit('/', 1)[-1]
        if not any(c['name'] == cls for c in mm['classes']):
            return
        for f in G.all_features(mm, cls):
            if f['name'] not in d:
                continue
            v = d[f['name']]
            if f['kind'] == 'attr':
                vals = v if (f['many'] and isinstance(v, list)) else [v]
                for x in vals:
                    if not ok(x, f['type']):
                        out.append(('json-native-type', f['name'],
                                    f'{f["name"]} ({f["type"]}) is written as JSON {type(x).__name__} {x!r}'))
                        break
            elif f['containment']:
                for c in (v if isinstance(v, list) else [v]):
                    if isinstance(c, dict):
                        go(c, f['type'])
    for r, oid in zip(roots, md['roots']):
        if isinstance(r, dict):
            go(r, md['objs'][str(oid)]['cls'])
    return out


# ---------------------------------------------------------------- signatures
def feature_by_name(mm, name):
    for c in mm['classes']:
        for f in c['features']:
            if f['name'] == name:
                return f
    return None


def _num(tv):
    if tv and tv[0] in ('b', 'i'):
        return tv[1]
    if tv and tv[0] == 'f':
        try:
            return float(tv[1])
        except ValueError:
            return None
    return None


def _py_equal(a, b):
    """tagged values that differ only in their Python type (True == 1 == 1.0, 'RED' vs literal RED)"""
    if a == b:
        return True
    if a and b and a[0] != b[0]:
        x, y = _num(a), _num(b)
        if x is not None and y is not None:
            return x == y
        if {a[0], b[0]} == {'s', 'e'} and a[1] == b[1]:
            return True
    return False


def _key(x):
    return json.dumps(x, sort_keys=True)


def value_class_of_diff(clause, f, v0, v1):
    if clause == 'attribute':
        if f is not None and f['many']:
            v1 = v1 if isinstance(v1, list) else []
            if v0 == []:
                return 'empty-collection'
            if len(v0) == len(v1) and all(_py_equal(a, b) for a, b in zip(v0, v1)):
                return 'cross-type equality'
            if any(e == ['n'] for e in v0):
                return 'None-in-collection'
            if sorted(map(_key, v0)) == sorted(map(_key, v1)):
                return 'order'
            if set(map(_key, v0)) == set(map(_key, v1)):
                return 'duplicates'
            for i, e in enumerate(v0):
                if i >= len(v1) or v1[i] != e:
                    return G.value_class(e)
            return 'extra-values'
        if v0 == ['n']:
            return 'None'
        if v1 is not None and _py_equal(v0, v1):
            return 'cross-type equality'
        return G.value_class(v0)
    if clause == 'reference':
        if f is not None and f['many']:
            v1 = v1 if isinstance(v1, list) else []
            if v0 == []:
                return 'empty-collection'
            if sorted(map(_key, v0)) == sorted(map(_key, v1)):
                return 'order'
            if set(map(_key, v0)) == set(map(_key, v1)):
                return 'duplicates'
            if any(isinstance(t, list) and t and t[0] != 'path' for t in v1):
                return 'unresolved-target'
            if len(v1) < len(v0):
                return 'missing-target'
            return 'wrong-target'
        if v0 is None:
            return 'None'
        if v1 is None:
            return 'missing-target'
        if isinstance(v1, list) and v1 and v1[0] != 'path':
            return 'unresolved-target'
        return 'wrong-target'
    if clause == 'containment':
        if sorted(v0) == sorted(v1):
            return 'order'
        if len(v1) < len(v0):
            return 'missing-child'
        return 'wrong-child'
    return None


def active_options(fmt, opts):
    return sorted(k for k in OPTION_NAMES[fmt] if opts.get(k))


def culprit(mm, md):
    """the single feature still set in a shrunk model, with the class of its value"""
    entries = [(o['cls'], s) for o in md['objs'].values() for s in o['sets']]
    if len(entries) != 1:
        return None, ('no-feature-set' if not entries else 'several-features')
    cls, (fname, v) = entries[0]
    f = G.find_feature(mm, cls, fname)
    if f is None:
        return None, None
    if f['kind'] == 'attr':
        if f['many']:
            vc = 'empty-collection' if v == [] else ('None-in-collection' if any(e == ['n'] for e in v)
                                                      else G.value_class(v[0]))
        else:
            vc = G.value_class(v)
    else:
        vc = 'empty-collection' if v == [] else ('None' if v is None else 'target')
    return f, vc


def failures(prop, mm, md, fmt, opts, rt=None):
    """[(signature, what)] of one case, evaluated on the implementation"""
    rt = rt or RoundTrip(mm, md, fmt, opts)
    base = {'property': prop, 'format': fmt, 'options': active_options(fmt, opts)}
    out = []
    if rt.stage is not None:
        f, vc = culprit(mm, md)
        sig = dict(base, clause=rt.stage + '-raises', exception=type(rt.exc).__name__,
                   feature=G.feature_shape(f), value=vc)
        out.append((sig, f'{rt.stage} raised {type(rt.exc).__name__}: {str(rt.exc)[:200]}'))
        return out
    for clause, path, fname, v0, v1 in G.diff_dumps(rt.d0, rt.d1):
        f = feature_by_name(mm, fname) if fname else None
        vc = value_class_of_diff(clause, f, v0, v1)
        if clause == 'attribute' and f is not None and not f['many'] and vc not in ('None', 'cross-type equality'):
            if v0 == G.type_default(f['type'], mm):
                vc = 'type-default'
            elif G.declared_default(f) is not None and v0 == G.declared_default(f):
                vc = 'declared-default'
        sig = dict(base, clause=clause, feature=G.feature_shape(f), value=vc)
        out.append((sig, f'{clause} differs at {path}{"." + fname if fname else ""}: saved {v0!r} loaded {v1!r}'))
    for clause, fname, text in rt.wf:
        f = feature_by_name(mm, fname) if fname else None
        sig = dict(base, clause=(clause if clause.startswith('json-') else 'loaded-' + clause), feature=G.feature_shape(f), value=None)
        out.append((sig, text))
    return out


# ---------------------------------------------------------------- shrinking
def _subtree(mm, md, oid):
    out = [oid]
    o = md['objs'].get(str(oid))
    if o is None:
        return out
    for fname, v in o['sets']:
        f = G.find_feature(mm, o['cls'], fname)
        if f and f['kind'] == 'ref' and f['containment']:
            for c in (v if isinstance(v, list) else ([] if v is None else [v])):
                out.extend(_subtree(mm, md, c))
    return out


def _drop_objects(mm, md, oids):
    oids = set(oids)
    nd = {'roots': [r for r in md['roots'] if r not in oids], 'objs': {}}
    for k, o in md['objs'].items():
        if int(k) in oids:
            continue
        sets = []
        for fname, v in o['sets']:
            f = G.find_feature(mm, o['cls'], fname)
            if f and f['kind'] == 'ref':
                if isinstance(v, list):
                    v = [x for x in v if x not in oids]
                elif v in oids:
                    continue
            sets.append([fname, v])
        nd['objs'][k] = {'cls': o['cls'], 'sets': sets}
    return nd


def _prune_mm(mm, md):
    """drop the features no object sets (and that are not the opposite of a set one), then unused classes"""
    used = set()
    for o in md['objs'].values():
        for fname, _ in o['sets']:
            used.add(fname)
    for c in mm['classes']:
        for f in c['features']:
            if f['name'] in used and f['kind'] == 'ref' and f['opposite']:
                used.add(f['opposite'])
    for c in mm['classes']:
        for f in c['features']:
            if f['kind'] == 'ref' and f['opposite'] in used:
                used.add(f['name'])
    nm = copy.deepcopy(mm)
    for c in nm['classes']:
        c['features'] = [f for f in c['features'] if f['name'] in used]
    inst = {o['cls'] for o in md['objs'].values()}
    need = set(inst)
    sup = G.supers_closure(nm)
    for c in inst:
        need |= sup[c]
    for c in nm['classes']:
        if c['name'] in need:
            for f in c['features']:
                if f['kind'] == 'ref':
                    need.add(f['type'])
    changed = True
    while changed:
        changed = False
        for c in nm['classes']:
            if c['name'] in need:
                for s in c['supers']:
                    if s not in need:
                        need.add(s)
                        changed = True
                for f in c['features']:
                    if f['kind'] == 'ref' and f['type'] not in need:
                        need.add(f['type'])
                        changed = True
    nm['classes'] = [c for c in nm['classes'] if c['name'] in need]
    return nm


def candidates(case):
    mm, md, fmt, opts = case['mm'], case['md'], case['format'], case['options']
    for k in OPTION_NAMES[fmt] + ['fresh_metamodel']:
        if opts.get(k):
            yield dict(case, options=dict(opts, **{k: False}))
    if len(md['roots']) > 1:
        for r in md['roots']:
            yield dict(case, md=_drop_objects(mm, md, _subtree(mm, md, r)))
    if len(md['roots']) == 1:
        # a subtree alone: one child becomes the only root
        for k in sorted(md['objs'], key=int):
            if int(k) not in md['roots']:
                keep = set(_subtree(mm, md, int(k)))
                nd = _drop_objects(mm, md, [int(x) for x in md['objs'] if int(x) not in keep])
                nd['roots'] = [int(k)]
                yield dict(case, md=nd)
    for k in sorted(md['objs'], key=int, reverse=True):
        if int(k) not in md['roots']:
            yield dict(case, md=_drop_objects(mm, md, _subtree(mm, md, int(k))))
    for k in sorted(md['objs'], key=int):
        o = md['objs'][k]
        for i in range(len(o['sets'])):
            f = G.find_feature(mm, o['cls'], o['sets'][i][0])
            if f and f['kind'] == 'ref' and f['containment'] and o['sets'][i][1] not in ([], None):
                continue            # children are dropped as objects
            nd = copy.deepcopy(md)
            del nd['objs'][k]['sets'][i]
            yield dict(case, md=nd)
    for k in sorted(md['objs'], key=int):
        o = md['objs'][k]
        for i, (fname, v) in enumerate(o['sets']):
            f = G.find_feature(mm, o['cls'], fname)
            if isinstance(v, list) and v and not (f and f['kind'] == 'attr' and not f['many']) \
                    and not (f and f['kind'] == 'ref' and f['containment']):
                for j in range(len(v)):
                    nd = copy.deepcopy(md)
                    del nd['objs'][k]['sets'][i][1][j]
                    yield dict(case, md=nd)
    pm = _prune_mm(mm, md)
    if pm != mm:
        yield dict(case, mm=pm)


def coarse(sig):
    """what must stay the same while shrinking"""
    if sig['clause'].endswith('-raises'):
        return (sig['clause'], sig.get('exception'))
    return (sig['clause'], _key(sig.get('feature')), sig.get('value'))


def shrink(prop, case, sig, deadline):
    """greedy delta debugging: drop options / objects / features / values while a failure of the same kind persists"""
    target = coarse(sig)
    progress = True
    steps = 0
    while progress and time.time() < deadline:
        progress = False
        for cand in candidates(case):
            if time.time() > deadline:
                break
            try:
                fs = failures(prop, cand['mm'], cand['md'], cand['format'], cand['options'])
            except Exception:               # a candidate the generator's renderer cannot build
                continue
            if any(coarse(s) == target for s, _ in fs):
                case = cand
                progress = True
                steps += 1
                break
    fs = failures(prop, case['mm'], case['md'], case['format'], case['options'])
    same = [(s, w) for s, w in fs if coarse(s) == target]
    s, w = same[0] if same else (sig, 'not reproduced after shrinking')
    return case, s, w, steps


def size_of(case):
    md = case['md']
    return {'objects': len(md['objs']), 'sets': sum(len(o['sets']) for o in md['objs'].values()),
            'classes': len(case['mm']['classes'])}


def replay(prop, rep):
    case = rep['case']
    fs = failures(prop, case['mm'], case['md'], case['format'], case['options'])
    print('case:', json.dumps({'format': case['format'], 'options': case['options'], 'model': case['md']})[:2000])
    for s, w in fs:
        print('FAILS', json.dumps(s, sort_keys=True), '--', w)
    want = rep.get('signature')
    hit = [s for s, _ in fs if want is None or common.sig_key(s) == common.sig_key(want)]
    if not hit and fs and want is not None:
        hit = [s for s, _ in fs if coarse(s) == coarse(want)]
    print('REPRODUCED' if hit else 'not reproduced')
    return 1 if hit else 0


# ---------------------------------------------------------------- the oracle loop shared by C08 / C09
def gen_options(rng, fmt):
    o = {'uuid': rng.random() < 0.4, 'serialize_default': rng.random() < 0.4}
    if fmt == 'xmi':
        o['xmi_type'] = rng.random() < 0.2
    o['fresh_metamodel'] = rng.random() < 0.3
    return o


def _hist(d, k):
    d[k] = d.get(k, 0) + 1


def describe_case(stats, mm, md, opts, fmt):
    _hist(stats['options'], ','.join(active_options(fmt, opts) + (['fresh_metamodel'] if opts.get('fresh_metamodel') else [])) or 'none')
    _hist(stats['roots'], len(md['roots']))
    _hist(stats['objects'], min(len(md['objs']), 12))
    for o in md['objs'].values():
        for fname, v in o['sets']:
            f = G.find_feature(mm, o['cls'], fname)
            if f is None:
                continue
            if f['kind'] == 'attr':
                shape = f'attr/{"many" if f["many"] else "single"}/{f["type"]}' + ('/unique' if f['many'] and f['unique'] else '')
                _hist(stats['feature_shapes'], shape)
                vals = v if f['many'] else [v]
                if f['many'] and not v:
                    _hist(stats['value_classes'], 'empty-collection')
                for e in vals:
                    _hist(stats['value_classes'], G.value_class(e) + ('-in-collection' if f['many'] and e == ['n'] else ''))
            else:
                shape = 'ref/' + ('many' if f['many'] else 'single') + ('/containment' if f['containment'] else '') \
                        + ('/opposite' if f['opposite'] else '') + ('/non-unique' if f['many'] and not f['unique'] else '')
                _hist(stats['feature_shapes'], shape)


def new_stats():
    return {'cases': 0, 'options': {}, 'roots': {}, 'objects': {}, 'feature_shapes': {}, 'value_classes': {},
            'distinct_dumps': set(), 'failing_cases': 0, 'shrink_steps': 0, 'samples': [], 'metamodels': 0,
            'regression_cases': 0}


def run_case(prop, fmt, out, stats, mm, md, opts, shrink_deadline, seen_sigs):
    rt = RoundTrip(mm, md, fmt, opts)
    stats['cases'] += 1
    stats['distinct_dumps'].add(hash(json.dumps(rt.d0, sort_keys=True)))
    fs = failures(prop, mm, md, fmt, opts, rt)
    if not fs:
        return
    stats['failing_cases'] += 1
    done = set()
    for sig, what in fs:
        c = coarse(sig)
        if c in done:
            continue
        done.add(c)
        case = {'mm': mm, 'md': md, 'format': fmt, 'options': opts}
        if c in seen_sigs and seen_sigs[c] >= 2:
            continue        # already shrunk twice in this run: enough witnesses of this kind
        seen_sigs[c] = seen_sigs.get(c, 0) + 1
        case2, sig2, what2, steps = shrink(prop, case, sig, min(shrink_deadline(), time.time() + 8))
        stats['shrink_steps'] += steps
        out.fail(sig2, what2, case2)


def oracle_loop(prop, fmt, ctx, out, seconds, stats, regression=()):
    """regression cases first (the witnesses of the defects already repaired), then generated cases until the budget is spent"""
    t_end = time.time() + seconds
    seen = {}
    for name, mm, md, opts in regression:
        run_case(prop, fmt, out, stats, mm, md, opts, lambda: time.time() + 5, seen)
        stats['regression_cases'] += 1
    serial = 0
    rng = ctx.rng
    while time.time() < t_end:
        mm = G.gen_metamodel(rng, serial)
        serial += 1
        stats['metamodels'] += 1
        for j in range(4):
            if time.time() > t_end:
                break
            md = G.gen_model(rng, mm, fmt, odd_ids=rng.random() < 0.3)
            opts = gen_options(rng, fmt)
            describe_case(stats, mm, md, opts, fmt)
            if len(stats['samples']) < 3 and len(md['objs']) >= 3:
                stats['samples'].append({'options': opts, 'model': md, 'classes': [c['name'] for c in mm['classes']]})
            run_case(prop, fmt, out, stats, mm, md, opts, lambda: t_end + 10, seen)
