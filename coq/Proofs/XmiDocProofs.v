(* C08, whole documents: decode_doc mm (encode_doc mm o F) = Some (map forget F) for every
   well-formed forest (Model/XmiDoc.v).  Layers:
     1. text of fragments: parse_frag inverts the rendering (split('/'), split('.'), int());
     2. navigation: the written steps lead back to the canonical path (the analogue on trees of
        C11's navigate_frag / resolve_fragment, which are stated on the kernel state);
     3. phase 1 of the reader rebuilds classes, nesting, attribute values (XmiAttr's many_roundtrip,
        single_roundtrip) and keeps the reference texts;
     4. phase 2 resolves every reference text to the targets it was written from (refs_roundtrip,
        ref_single_roundtrip, layers 1-2). *)
From Coq Require Import ZArith List Bool Lia Arith.
From PyecoreV Require Import Model.XmiAttr Model.Text Model.XmiDoc Proofs.XmiAttrProofs Proofs.TextFacts.
Import ListNotations.
Open Scope Z_scope.

(* ================================================================ generic lists *)
Lemma traverse_map {A B C} (f : B -> option C) (g : A -> B) (h : A -> C) (l : list A) :
  Forall (fun x => f (g x) = Some (h x)) l -> traverse f (map g l) = Some (map h l).
Proof.
  induction 1 as [|x r Hx _ IH]; simpl; [reflexivity|]. rewrite Hx, IH. reflexivity.
Qed.

Lemma traverse_id {A B} (f : A -> option B) (h : A -> B) (l : list A) :
  Forall (fun x => f x = Some (h x)) l -> traverse f l = Some (map h l).
Proof.
  induction 1 as [|x r Hx _ IH]; simpl; [reflexivity|]. rewrite Hx, IH. reflexivity.
Qed.

Lemma collect_app {A B} (f : A -> option (option B)) (a b : list A) (xs ys : list B) :
  collect f a = Some xs -> collect f b = Some ys -> collect f (a ++ b) = Some (xs ++ ys).
Proof.
  revert xs. induction a as [|x r IH]; simpl; intros xs Ha Hb.
  - inversion Ha; subst. exact Hb.
  - destruct (f x) as [o|]; [|discriminate].
    destruct (collect f r) as [zs|]; [|discriminate]. inversion Ha; subst.
    rewrite (IH zs eq_refl Hb). destruct o; reflexivity.
Qed.

Lemma collect_skip {A B} (f : A -> option (option B)) (l : list A) :
  Forall (fun x => f x = Some None) l -> collect f l = Some [].
Proof.
  induction 1 as [|x r Hx _ IH]; simpl; [reflexivity|]. rewrite Hx, IH. reflexivity.
Qed.

Lemma collect_keep {A B C} (f : B -> option (option C)) (g : A -> B) (h : A -> C) (l : list A) :
  Forall (fun x => f (g x) = Some (Some (h x))) l -> collect f (map g l) = Some (map h l).
Proof.
  induction 1 as [|x r Hx _ IH]; simpl; [reflexivity|]. rewrite Hx, IH. reflexivity.
Qed.

Lemma Forall_flat_map {A B} (P : B -> Prop) (g : A -> list B) (l : list A) :
  Forall (fun x => Forall P (g x)) l -> Forall P (flat_map g l).
Proof.
  induction 1 as [|x r Hx _ IH]; simpl; [constructor|]. apply Forall_app. split; assumption.
Qed.

Lemma filter_all_true {A} (p : A -> bool) (l : list A) :
  Forall (fun x => p x = true) l -> filter p l = l.
Proof.
  induction 1 as [|x r Hx _ IH]; simpl; [reflexivity|]. rewrite Hx, IH. reflexivity.
Qed.

Lemma filter_all_false {A} (p : A -> bool) (l : list A) :
  Forall (fun x => p x = false) l -> filter p l = [].
Proof.
  induction 1 as [|x r Hx _ IH]; simpl; [reflexivity|]. rewrite Hx, IH. reflexivity.
Qed.

Lemma filter_app {A} (p : A -> bool) (a b : list A) : filter p (a ++ b) = filter p a ++ filter p b.
Proof. induction a as [|x r IH]; simpl; [reflexivity|]. destruct (p x); simpl; rewrite IH; reflexivity. Qed.

Lemma str_eqb_refl (a : str) : str_eqb a a = true.
Proof. induction a as [|x a IH]; simpl; [reflexivity|]. rewrite Z.eqb_refl, IH. reflexivity. Qed.

Lemma nodup_z_NoDup (l : list Z) : nodup_z l = true -> NoDup l.
Proof.
  induction l as [|x r IH]; simpl; intros H; [constructor|].
  apply andb_true_iff in H. destruct H as [Hx Hr]. constructor; [|exact (IH Hr)].
  intros Hin. apply negb_true_iff in Hx.
  assert (existsb (Z.eqb x) r = true) by (apply existsb_exists; exists x; split; [exact Hin | apply Z.eqb_refl]).
  congruence.
Qed.

(* ================================================================ 1. fragments as text *)
Lemma split_on_aux_app c t : forall cur rest,
  Forall (fun x => x <> c) t -> split_on_aux c cur (t ++ rest) = split_on_aux c (cur ++ t) rest.
Proof.
  induction t as [|x t IH]; intros cur rest H; simpl.
  - rewrite app_nil_r. reflexivity.
  - inversion H as [|x' t' Hx Ht]; subst.
    destruct (Z.eqb_spec x c) as [E|_]; [contradiction|].
    rewrite (IH (cur ++ [x]) rest Ht), <- app_assoc. reflexivity.
Qed.

Lemma split_on_aux_end c cur : split_on_aux c cur [] = [cur].
Proof. reflexivity. Qed.

Lemma break_at_app c a : forall b,
  Forall (fun x => x <> c) a -> match b with [] => True | x :: _ => x = c end ->
  break_at c (a ++ b) = (a, b).
Proof.
  induction a as [|x a IH]; intros b Ha Hb; simpl.
  - destruct b as [|y b']; [reflexivity|]. subst y. simpl. rewrite Z.eqb_refl. reflexivity.
  - inversion Ha as [|x' a' Hx Ha']; subst.
    destruct (Z.eqb_spec x c) as [E|_]; [contradiction|].
    rewrite (IH b Ha' Hb). reflexivity.
Qed.

(* the digits of a natural number *)
Definition dig (i : nat) : str := str_of_Z (Z.of_nat i).

Lemma dig_facts i :
  all_digits (dig i) = true /\ is_empty (dig i) = false /\
  (exists c r, dig i = c :: r /\ is_digit c = true) /\ int_of_text (dig i) = Some (Z.of_nat i).
Proof.
  unfold dig. destruct (str_of_Z_nonneg (Z.of_nat i) (Nat2Z.is_nonneg i)) as (u & Hu & E & _).
  rewrite int_of_str_of_Z. rewrite E. split; [apply all_digits_list_of|].
  destruct (digits_head u Hu) as (c & r & Hl & Hc). rewrite Hl. split; [reflexivity|].
  split; [|reflexivity]. exists c, r. split; [reflexivity | exact Hc].
Qed.

Lemma all_digits_Forall (l : str) : all_digits l = true -> Forall (fun x => 48 <= x <= 57) l.
Proof.
  unfold all_digits. intros H. apply Forall_forall. intros x Hx.
  rewrite forallb_forall in H. apply is_digit_range. exact (H x Hx).
Qed.

Lemma dig_range i : Forall (fun x => 48 <= x <= 57) (dig i).
Proof. apply all_digits_Forall. exact (proj1 (dig_facts i)). Qed.

Lemma Forall_impl' {A} (P Q : A -> Prop) (l : list A) : (forall x, P x -> Q x) -> Forall P l -> Forall Q l.
Proof. intros H HF. exact (Forall_impl Q H HF). Qed.

(* the body of a written step: everything after its '/' *)
Definition body (p : pstep) : str :=
  64 :: name_cp (fst p) :: match snd p with Some i => 46 :: dig i | None => [] end.

Lemma pstep_text_body p : pstep_text p = 47 :: body p.
Proof. reflexivity. Qed.

(* the characters of a fragment *)
Definition fchar (x : Z) : Prop := x = 47 \/ x = 64 \/ x = 46 \/ 48 <= x <= 57 \/ NB <= x.

Lemma body_chars p : 0 <= fst p -> Forall (fun x => fchar x /\ x <> 47) (body p).
Proof.
  intros Hf. unfold body, name_cp. constructor; [cbv beta; unfold fchar; lia|].
  constructor; [cbv beta; unfold fchar, NB; lia|].
  destruct (snd p) as [i|]; [|constructor]. constructor; [cbv beta; unfold fchar; lia|].
  eapply Forall_impl'; [|exact (dig_range i)]. unfold fchar. intros x Hx. cbv beta in *. lia.
Qed.

Lemma split_bodies (ps : list pstep) : Forall (fun p => 0 <= fst p) ps ->
  forall cur, split_on_aux 47 cur (psteps_text ps) = cur :: map body ps.
Proof.
  induction 1 as [|p r Hp _ IH]; intros cur; [reflexivity|].
  unfold psteps_text in *. cbn [flat_map]. rewrite pstep_text_body. cbn [app].
  cbn [split_on_aux]. rewrite Z.eqb_refl.
  rewrite split_on_aux_app.
  - rewrite IH. reflexivity.
  - eapply Forall_impl'; [|exact (body_chars p Hp)]. intros x [_ H]. exact H.
Qed.

Lemma parse_piece_body p : 0 <= fst p -> parse_piece (body p) = Some p.
Proof.
  intros Hf. destruct p as [f oi]. simpl in Hf. unfold parse_piece, body, split_on. cbn [fst snd].
  assert (Hk : parse_key [64; name_cp f] = Some f).
  { unfold parse_key, name_cp. rewrite Z.eqb_refl. cbn [andb].
    destruct (Z.leb_spec NB (NB + f)) as [_|H]; [|lia]. f_equal. lia. }
  assert (Hn : Forall (fun x => x <> 46) [64; name_cp f]).
  { constructor; [cbv beta; lia|]. constructor; [cbv beta; unfold name_cp, NB; lia | constructor]. }
  destruct oi as [i|].
  - change (64 :: name_cp f :: 46 :: dig i) with ([64; name_cp f] ++ 46 :: dig i).
    rewrite split_on_aux_app by exact Hn.
    cbn [app split_on_aux]. rewrite Z.eqb_refl.
    rewrite <- (app_nil_r (dig i)) at 1. rewrite split_on_aux_app.
    + cbn [app split_on_aux]. rewrite Hk.
      destruct (dig_facts i) as (_ & He & _ & Hi). rewrite He, Hi.
      destruct (Z.leb_spec 0 (Z.of_nat i)) as [_|H]; [|lia]. rewrite Nat2Z.id. reflexivity.
    + eapply Forall_impl'; [|exact (dig_range i)]. intros x Hx. cbv beta in *. lia.
  - change [64; name_cp f] with ([64; name_cp f] ++ []).
    rewrite split_on_aux_app by exact Hn.
    cbn [app split_on_aux]. rewrite Hk. reflexivity.
Qed.

Lemma body_nonempty p : is_empty (body p) = false.
Proof. reflexivity. Qed.

Lemma parse_steps_text (ps : list pstep) : Forall (fun p => 0 <= fst p) ps ->
  parse_steps (psteps_text ps) = Some ps /\ parse_steps (47 :: psteps_text ps) = Some ps.
Proof.
  intros H.
  assert (HF : filter (fun x => negb (is_empty x)) (map body ps) = map body ps).
  { apply filter_all_true. apply Forall_forall. intros x Hx. apply in_map_iff in Hx.
    destruct Hx as (p & <- & _). reflexivity. }
  assert (HT : traverse parse_piece (map body ps) = Some ps).
  { rewrite <- (map_id ps) at 2. apply traverse_map.
    eapply Forall_impl'; [|exact H]. intros p Hp. exact (parse_piece_body p Hp). }
  unfold parse_steps, split_on. split.
  - rewrite (split_bodies ps H []). cbn [filter is_empty negb]. rewrite HF. exact HT.
  - cbn [split_on_aux]. rewrite Z.eqb_refl. rewrite (split_bodies ps H []).
    cbn [filter is_empty negb]. rewrite HF. exact HT.
Qed.

Lemma psteps_text_head (ps : list pstep) :
  match psteps_text ps with [] => True | x :: _ => x = 47 end.
Proof. destruct ps as [|p r]; simpl; [exact I | reflexivity]. Qed.

(* the text of a fragment: root prefix, then the steps *)
Definition frag_text (nroots r : nat) (ps : list pstep) : str := root_text nroots r ++ psteps_text ps.

Theorem parse_frag_text nroots r (ps : list pstep) :
  Forall (fun p => 0 <= fst p) ps -> (nroots = 1%nat -> r = O) ->
  parse_frag (frag_text nroots r ps) = Some (r, ps).
Proof.
  intros H H1. unfold frag_text, root_text, parse_frag.
  destruct (parse_steps_text ps H) as [P0 P1].
  destruct (Nat.eqb_spec nroots 1) as [E|N].
  - rewrite (H1 E). cbn [app].
    assert (Hd : match psteps_text ps with d :: _ => is_digit d | [] => false end = false).
    { pose proof (psteps_text_head ps) as Hh. destruct (psteps_text ps) as [|x t]; [reflexivity|]. subst x. reflexivity. }
    rewrite Hd, P1. reflexivity.
  - cbn [app]. fold (dig r). destruct (dig_facts r) as (_ & _ & (c & t & Ec & Hc) & Hi).
    assert (Hd : match dig r ++ psteps_text ps with d :: _ => is_digit d | [] => false end = true).
    { rewrite Ec. exact Hc. }
    rewrite Hd. rewrite break_at_app.
    + cbn [fst snd]. rewrite Hi, P0, Nat2Z.id. reflexivity.
    + eapply Forall_impl'; [|exact (dig_range r)]. intros x Hx. cbv beta in *. lia.
    + exact (psteps_text_head ps).
Qed.

(* a fragment can sit in a space-joined list and stays inside the resource *)
Lemma fchar_ok x : fchar x -> isspace x = false /\ (x =? 35) = false.
Proof.
  unfold fchar, NB, isspace. intros H. split; [|apply Z.eqb_neq; lia].
  repeat match goal with
         | |- context [?a <=? ?b] => destruct (Z.leb_spec a b)
         | |- context [?a =? ?b] => destruct (Z.eqb_spec a b)
         end; try reflexivity; lia.
Qed.

Lemma fchars_local (s : str) : Forall fchar s -> is_empty s = false -> local s.
Proof.
  intros H Hne.
  assert (H1 : has_space s = false).
  { clear Hne. unfold has_space. induction H as [|x r Hx _ IH]; [reflexivity|].
    simpl. rewrite (proj1 (fchar_ok x Hx)). exact IH. }
  assert (H2 : has_hash s = false).
  { clear Hne H1. unfold has_hash. induction H as [|x r Hx _ IH]; [reflexivity|].
    simpl. rewrite (proj2 (fchar_ok x Hx)). exact IH. }
  split; [split|]; assumption.
Qed.

Theorem frag_text_local nroots r ps : Forall (fun p => 0 <= fst p) ps -> local (frag_text nroots r ps).
Proof.
  intros H. apply fchars_local; [|reflexivity].
  unfold frag_text, root_text. cbn [app]. constructor; [left; reflexivity|].
  apply Forall_app. split.
  - destruct (nroots =? 1)%nat; [constructor|].
    eapply Forall_impl'; [|exact (dig_range r)]. unfold fchar. intros x Hx. cbv beta in *. lia.
  - unfold psteps_text. apply Forall_flat_map.
    eapply Forall_impl'; [|exact H]. intros p Hp. rewrite pstep_text_body.
    constructor; [left; reflexivity|].
    eapply Forall_impl'; [|exact (body_chars p Hp)]. intros x [Hx _]. exact Hx.
Qed.

(* ================================================================ metamodel tables *)
Lemma find_feat_some l f d : find_feat l f = Some d -> f_id d = f /\ In d l.
Proof.
  unfold find_feat. intros H. apply find_some in H. destruct H as [Hin He].
  apply Z.eqb_eq in He. split; assumption.
Qed.

Lemma find_class_some mm c k : find_class mm c = Some k -> c_id k = c /\ In k mm.
Proof.
  unfold find_class. intros H. apply find_some in H. destruct H as [Hin He].
  apply Z.eqb_eq in He. split; assumption.
Qed.

Lemma find_feat_none l f : find_feat l f = None -> ~ In f (map f_id l).
Proof.
  unfold find_feat. intros H Hin. apply in_map_iff in Hin. destruct Hin as (d & E & Hd).
  pose proof (find_none _ _ H d Hd) as Hn. cbv beta in Hn. rewrite E, Z.eqb_refl in Hn. discriminate.
Qed.

(* with distinct ids, a feature of the list is the one found under its id *)
Lemma find_feat_in l d : NoDup (map f_id l) -> In d l -> find_feat l (f_id d) = Some d.
Proof.
  unfold find_feat. induction l as [|x r IH]; intros Hn Hin; [contradiction|].
  simpl in Hn. inversion Hn as [|a b Hx Hr]; subst. simpl.
  destruct Hin as [->|Hin]; [rewrite Z.eqb_refl; reflexivity|].
  destruct (Z.eqb_spec (f_id x) (f_id d)) as [E|_]; [|exact (IH Hr Hin)].
  exfalso. apply Hx. rewrite E. apply in_map. exact Hin.
Qed.

Lemma find_feat_notin l f : ~ In f (map f_id l) -> find_feat l f = None.
Proof.
  intros H. destruct (find_feat l f) as [d|] eqn:E; [|reflexivity].
  destruct (find_feat_some _ _ _ E) as [<- Hd]. exfalso. apply H. apply in_map. exact Hd.
Qed.

Record class_ok (k : class) : Prop := {
  ok_nodup : NoDup (map f_id (c_attrs k) ++ map f_id (c_refs k) ++ map f_id (c_conts k));
  ok_nonneg : forall d, In d (all_feats k) -> 0 <= f_id d
}.

Lemma wf_mm_class mm k : wf_mm mm = true -> In k mm -> class_ok k.
Proof.
  unfold wf_mm. intros H Hin. rewrite forallb_forall in H. specialize (H k Hin).
  apply andb_true_iff in H. destruct H as [H1 H2]. split.
  - apply nodup_z_NoDup in H1. unfold all_feats in H1. rewrite !map_app in H1. exact H1.
  - intros d Hd. rewrite forallb_forall in H2. apply Z.leb_le. exact (H2 d Hd).
Qed.

Lemma wf_mm_found mm c k : wf_mm mm = true -> find_class mm c = Some k -> class_ok k.
Proof. intros H Hf. exact (wf_mm_class mm k H (proj2 (find_class_some _ _ _ Hf))). Qed.

Lemma NoDup_app_l {A} (a b : list A) : NoDup (a ++ b) -> NoDup a.
Proof. induction a as [|x a IH]; simpl; intros H; [constructor|]. inversion H; subst. constructor; [|auto]. intros Hin. apply H2. apply in_or_app. left. exact Hin. Qed.
Lemma NoDup_app_r {A} (a b : list A) : NoDup (a ++ b) -> NoDup b.
Proof. induction a as [|x a IH]; simpl; intros H; [exact H|]. inversion H; subst. auto. Qed.
Lemma NoDup_app_disj {A} (a b : list A) x : NoDup (a ++ b) -> In x a -> In x b -> False.
Proof.
  induction a as [|y a IH]; simpl; intros H Ha Hb; [contradiction|]. inversion H; subst.
  destruct Ha as [->|Ha]; [apply H2; apply in_or_app; right; exact Hb | exact (IH H3 Ha Hb)].
Qed.

Section ClassFacts.
  Variable k : class.
  Hypothesis Hk : class_ok k.

  Lemma nd_attrs : NoDup (map f_id (c_attrs k)).
  Proof. exact (NoDup_app_l _ _ (ok_nodup k Hk)). Qed.
  Lemma nd_refs : NoDup (map f_id (c_refs k)).
  Proof. exact (NoDup_app_l _ _ (NoDup_app_r _ _ (ok_nodup k Hk))). Qed.
  Lemma nd_conts : NoDup (map f_id (c_conts k)).
  Proof. exact (NoDup_app_r _ _ (NoDup_app_r _ _ (ok_nodup k Hk))). Qed.
  Lemma nd_attrs_refs : NoDup (map f_id (c_attrs k) ++ map f_id (c_refs k)).
  Proof. pose proof (ok_nodup k Hk) as H. rewrite app_assoc in H. exact (NoDup_app_l _ _ H). Qed.

  Lemma attr_not_ref f : In f (map f_id (c_attrs k)) -> In f (map f_id (c_refs k)) -> False.
  Proof. intros Ha Hr. eapply NoDup_app_disj; [exact (ok_nodup k Hk) | exact Ha | apply in_or_app; left; exact Hr]. Qed.
  Lemma attr_not_cont f : In f (map f_id (c_attrs k)) -> In f (map f_id (c_conts k)) -> False.
  Proof. intros Ha Hc. eapply NoDup_app_disj; [exact (ok_nodup k Hk) | exact Ha | apply in_or_app; right; exact Hc]. Qed.
  Lemma ref_not_cont f : In f (map f_id (c_refs k)) -> In f (map f_id (c_conts k)) -> False.
  Proof. intros Hr Hc. eapply NoDup_app_disj; [exact (NoDup_app_r _ _ (ok_nodup k Hk)) | exact Hr | exact Hc]. Qed.

  Lemma cont_nonneg d : In d (c_conts k) -> 0 <= f_id d.
  Proof. intros H. apply (ok_nonneg k Hk). unfold all_feats. apply in_or_app. right. apply in_or_app. right. exact H. Qed.
End ClassFacts.

(* ================================================================ 2. navigation *)
(* the written steps lead to the object they were computed from (on the kernel state: C11,
   Proofs/C11Proofs.navigate_frag) *)
Theorem nav_abs mm : wf_mm mm = true ->
  forall st n ps c, abs_steps mm n st = Some (ps, c) ->
  nav mm n ps = Some (st, c) /\ Forall (fun p => 0 <= fst p) ps.
Proof.
  intros Hmm. induction st as [|[f i] r IH]; intros [c0 kids] ps c H; simpl in H.
  - inversion H; subst. split; [reflexivity | constructor].
  - destruct (find_class mm c0) as [k|] eqn:Ek; [|discriminate].
    destruct (find_feat (c_conts k) f) as [d|] eqn:Ed; [|discriminate].
    destruct (f_many d || (i =? 0)%nat) eqn:Ec; [|discriminate].
    destruct (nth_error (kids_of f kids) i) as [ch|] eqn:En; [|discriminate].
    destruct (abs_steps mm ch r) as [[ps' tc]|] eqn:Ea; [|discriminate].
    inversion H; subst. destruct (IH ch ps' c Ea) as [Hn Hp].
    destruct (find_feat_some _ _ _ Ed) as [Hid Hin].
    split.
    + cbn [nav]. rewrite Ek, Ed. destruct (f_many d) eqn:Em; cbn [Bool.eqb].
      * rewrite En, Hn. reflexivity.
      * cbn [orb] in Ec. apply Nat.eqb_eq in Ec. subst i. rewrite En, Hn. reflexivity.
    + constructor; [|exact Hp]. simpl. rewrite <- Hid.
      exact (cont_nonneg k (wf_mm_found mm c0 k Hmm Ek) d Hin).
Qed.

(* ================================================================ 3. resolve (render p) = p *)
(* (on the kernel state: C11, Proofs/C11Proofs.resolve_fragment) *)
Theorem resolve_render mm S p s : wf_mm mm = true -> render_path mm S p = Some s ->
  local s /\ has_hash s = false /\
  exists n ps c, nth_error S (fst p) = Some n /\ abs_steps mm n (snd p) = Some (ps, c)
                 /\ resolve_frag mm S s = Some (p, c).
Proof.
  intros Hmm H. unfold render_path in H.
  destruct (nth_error S (fst p)) as [n|] eqn:En; [|discriminate].
  destruct (abs_steps mm n (snd p)) as [[ps c]|] eqn:Ea; [|discriminate].
  assert (Hs : s = root_text (length S) (fst p) ++ psteps_text ps) by congruence. subst s. clear H.
  destruct (nav_abs mm Hmm _ _ _ _ Ea) as [Hn Hp].
  pose proof (frag_text_local (length S) (fst p) ps Hp) as Hl. unfold frag_text in Hl.
  split; [exact Hl|]. split; [exact (proj2 Hl)|].
  exists n, ps, c. split; [reflexivity|]. split; [exact Ea|].
  assert (H1 : length S = 1%nat -> fst p = O).
  { intros E1. assert (Hlt : (fst p < length S)%nat) by (apply nth_error_Some; congruence). lia. }
  pose proof (parse_frag_text (length S) (fst p) ps Hp H1) as Hpf. unfold frag_text in Hpf.
  unfold resolve_frag. rewrite Hpf, En, Hn. destruct p; reflexivity.
Qed.

(* ================================================================ induction on trees *)
Section TreeInd.
  Variable R : Type.
  Variable P : tree R -> Prop.
  Hypothesis HN : forall c iss a r ks, Forall (fun p => P (snd p)) ks -> P (Node c iss a r ks).
  Fixpoint tree_ind' (t : tree R) : P t :=
    match t with
    | Node c iss a r ks =>
      HN c iss a r ks
         ((fix go (l : list (Z * tree R)) : Forall (fun p => P (snd p)) l :=
             match l with
             | [] => Forall_nil _
             | p :: l' => Forall_cons p (tree_ind' (snd p)) (go l')
             end) ks)
    end.
End TreeInd.

(* ================================================================ what one feature adds to an element, read back *)
Lemma attrs_named_xattrs f p : attrs_named f (enc_xattrs p) = if fst p =? f then enc_xattrs p else [].
Proof.
  destruct p as [g e]. unfold enc_xattrs, attrs_named. cbn [fst snd].
  destruct e; cbn [filter fst]; destruct (g =? f); reflexivity.
Qed.

Lemma has_tag_value_elem f g o : has_tag f (value_elem g o) = (g =? f).
Proof. destruct o; reflexivity. Qed.

Lemma elems_tagged_xelems f p : elems_tagged f (enc_xelems p) = if fst p =? f then enc_xelems p else [].
Proof.
  destruct p as [g e]. unfold enc_xelems, elems_tagged. cbn [fst snd].
  destruct e as [|t|l]; try (destruct (g =? f); reflexivity).
  destruct (g =? f) eqn:E.
  - apply filter_all_true. apply Forall_forall. intros x Hx. apply in_map_iff in Hx.
    destruct Hx as (o & <- & _). rewrite has_tag_value_elem. exact E.
  - apply filter_all_false. apply Forall_forall. intros x Hx. apply in_map_iff in Hx.
    destruct Hx as (o & <- & _). rewrite has_tag_value_elem. exact E.
Qed.

Lemma filter_flat_map {A B} (p : B -> bool) (g : A -> list B) (l : list A) :
  filter p (flat_map g l) = flat_map (fun x => filter p (g x)) l.
Proof. induction l as [|x r IH]; simpl; [reflexivity|]. rewrite filter_app, IH. reflexivity. Qed.

Lemma flat_map_ext' {A B} (g h : A -> list B) (l : list A) :
  (forall x, g x = h x) -> flat_map g l = flat_map h l.
Proof. intros H. induction l as [|x r IH]; simpl; [reflexivity|]. rewrite H, IH. reflexivity. Qed.

(* exactly one entry of an association list with distinct keys contributes *)
Lemma select_unique {V B} (g : Z * V -> list B) (es : list (Z * V)) f e :
  NoDup (map fst es) -> In (f, e) es ->
  flat_map (fun p => if fst p =? f then g p else []) es = g (f, e).
Proof.
  induction es as [|[h v] r IH]; intros Hn Hin; [contradiction|].
  simpl in Hn. inversion Hn as [|a b Hx Hr]; subst. cbn [flat_map fst].
  destruct Hin as [E|Hin].
  - inversion E; subst. rewrite Z.eqb_refl.
    assert (Hrest : flat_map (fun p : Z * V => if fst p =? f then g p else []) r = []).
    { clear IH Hn Hr. induction r as [|[h' v'] r' IH']; [reflexivity|]. cbn [flat_map fst].
      destruct (Z.eqb_spec h' f) as [->|_]; [exfalso; apply Hx; left; reflexivity|].
      apply IH'. intros H. apply Hx. right. exact H. }
    rewrite Hrest, app_nil_r. reflexivity.
  - destruct (Z.eqb_spec h f) as [->|_].
    + exfalso. apply Hx. change f with (fst (f, e)). apply in_map. exact Hin.
    + exact (IH Hr Hin).
Qed.

Lemma select_none {V B} (g : Z * V -> list B) (es : list (Z * V)) f :
  ~ In f (map fst es) -> flat_map (fun p => if fst p =? f then g p else []) es = [].
Proof.
  induction es as [|[h v] r IH]; intros Hn; [reflexivity|]. cbn [flat_map fst].
  destruct (Z.eqb_spec h f) as [->|_]; [exfalso; apply Hn; left; reflexivity|].
  apply IH. intros H. apply Hn. right. exact H.
Qed.

Lemma named_flat (es : list (Z * enc)) f :
  attrs_named f (flat_map enc_xattrs es) = flat_map (fun p => if fst p =? f then enc_xattrs p else []) es
  /\ elems_tagged f (flat_map enc_xelems es) = flat_map (fun p => if fst p =? f then enc_xelems p else []) es.
Proof.
  split.
  - transitivity (flat_map (fun p => attrs_named f (enc_xattrs p)) es); [apply filter_flat_map|].
    apply flat_map_ext'. intros p. apply attrs_named_xattrs.
  - transitivity (flat_map (fun p => elems_tagged f (enc_xelems p)) es); [apply filter_flat_map|].
    apply flat_map_ext'. intros p. apply elems_tagged_xelems.
Qed.

Lemma named_in (es : list (Z * enc)) f e : NoDup (map fst es) -> In (f, e) es ->
  attrs_named f (flat_map enc_xattrs es) = enc_xattrs (f, e)
  /\ elems_tagged f (flat_map enc_xelems es) = enc_xelems (f, e).
Proof.
  intros Hn Hin. destruct (named_flat es f) as [-> ->]. split.
  - exact (select_unique enc_xattrs es f e Hn Hin).
  - exact (select_unique enc_xelems es f e Hn Hin).
Qed.

Lemma named_notin (es : list (Z * enc)) f : ~ In f (map fst es) ->
  attrs_named f (flat_map enc_xattrs es) = [] /\ elems_tagged f (flat_map enc_xelems es) = [].
Proof.
  intros Hn. destruct (named_flat es f) as [-> ->]. split.
  - exact (select_none enc_xattrs es f Hn).
  - exact (select_none enc_xelems es f Hn).
Qed.

Lemma elem_value_value_elem f o : elem_value (value_elem f o) = o.
Proof. destruct o as [t|]; [|reflexivity]. unfold value_elem, elem_value. cbn. rewrite text_roundtrip. reflexivity. Qed.

Lemma map_elem_value f l : map elem_value (map (value_elem f) l) = l.
Proof. induction l as [|o r IH]; simpl; [reflexivity|]. rewrite elem_value_value_elem, IH. reflexivity. Qed.

(* EElems [] adds nothing: it reads back as EAbsent *)
Definition norm_enc (e : enc) : enc := match e with EElems [] => EAbsent | _ => e end.

Section ReadBack.
  Variables (f : Z) (e : enc) (xa : list (Z * str)) (xk : list xml).
  Hypothesis Ha : attrs_named f xa = enc_xattrs (f, e).
  Hypothesis Hk : elems_tagged f xk = enc_xelems (f, e).

  Lemma read_enc_back : read_enc f xa xk = norm_enc e.
  Proof.
    unfold read_enc, lookup_attr. rewrite Ha, Hk. unfold enc_xattrs, enc_xelems. cbn [fst snd].
    destruct e as [|t|l]; try reflexivity.
    destruct l as [|o l']; [reflexivity|]. cbn [map]. rewrite elem_value_value_elem, map_elem_value. reflexivity.
  Qed.

  Lemma lookup_back : lookup_attr f xa = match e with EAttr t => Some t | _ => None end.
  Proof. unfold lookup_attr. rewrite Ha. destruct e; reflexivity. Qed.

  Lemma read_many_back d : f_id d = f -> f_many d = true -> read_attr d xa xk = decode_many e.
  Proof.
    intros Hid Hm. unfold read_attr. rewrite Hm, Hid, lookup_back, Hk. unfold enc_xelems. cbn [fst snd].
    destruct e as [|t|l].
    - reflexivity.
    - cbn [map]. change (decode_many (EElems [])) with (@nil ostr). rewrite app_nil_r. reflexivity.
    - rewrite map_elem_value. reflexivity.
  Qed.

  Lemma read_single_back d : f_id d = f -> f_many d = false ->
    read_attr d xa xk = [decode_single (f_dflt d) e].
  Proof.
    intros Hid Hm. unfold read_attr. rewrite Hm, Hid, read_enc_back.
    destruct e as [|t|[|o l]]; reflexivity.
  Qed.

  Lemma occurrences_back : occurrences f xa xk = (length (enc_xattrs (f, e)) + length (enc_xelems (f, e)))%nat.
  Proof. unfold occurrences. rewrite Ha, Hk. reflexivity. Qed.
End ReadBack.

(* two lists with the same keys, the values agreeing key by key *)
Lemma zip_map {V} (G : feat -> V) (sl : list (Z * V)) (L : list feat) :
  map fst sl = map f_id L ->
  (forall a d, In a sl -> In d L -> fst a = f_id d -> G d = snd a) ->
  map (fun d => (f_id d, G d)) L = sl.
Proof.
  revert L. induction sl as [|a r IH]; intros [|d L'] Hk HG; simpl in Hk; try discriminate; [reflexivity|].
  inversion Hk as [[H1 H2]]. cbn [map].
  rewrite (HG a d (or_introl eq_refl) (or_introl eq_refl) H1), <- H1.
  rewrite (IH L' H2); [destruct a; reflexivity|].
  intros a' d' Ha Hd. apply HG; right; assumption.
Qed.

Lemma str_eqb_true a b : str_eqb a b = true -> a = b.
Proof. exact (str_eqb_eq a b). Qed.

(* ================================================================ 3. phase 1 of the reader on a written element *)
Definition dummy_class : class := mkClass (-1) true [] [] [] [].
Definition class_or (mm : mmodel) (c : Z) : class :=
  match find_class mm c with Some k => k | None => dummy_class end.
Definition enc_text (e : enc) : option str := match e with EAttr t => Some t | _ => None end.

Lemma map_fst_map {A V W} (g : A * V -> W) (l : list (A * V)) : map fst (map (fun p => (fst p, g p)) l) = map fst l.
Proof. induction l as [|x r IH]; simpl; [reflexivity|]. rewrite IH. reflexivity. Qed.

Lemma filter_map_comm {A B} (p : B -> bool) (g : A -> B) (l : list A) :
  filter p (map g l) = map g (filter (fun x => p (g x)) l).
Proof. induction l as [|x r IH]; simpl; [reflexivity|]. destruct (p (g x)); simpl; rewrite IH; reflexivity. Qed.

Lemma in_keys_slot {V} (sl : list (Z * V)) f : In f (map fst sl) -> exists v, In (f, v) sl.
Proof. intros H. apply in_map_iff in H. destruct H as ([g v] & E & Hin). simpl in E. subst g. exists v. exact Hin. Qed.

(* the three shapes a single-valued feature is written in *)
Definition small (e : enc) : Prop := e = EAbsent \/ (exists t, e = EAttr t) \/ e = EElems [None].

Lemma small_length f e : small e -> (length (enc_xattrs (f, e)) + length (enc_xelems (f, e)) <= 1)%nat.
Proof. intros [->|[[t ->]| ->]]; cbn; lia. Qed.

Lemma encode_single_small sd dflt v : small (encode_single sd dflt v).
Proof.
  unfold encode_single, small. destruct v as [s|].
  - destruct (negb (ostr_eqb (Some s) dflt) || sd); [right; left; eexists; reflexivity | left; reflexivity].
  - destruct (sd || negb (ostr_eqb dflt None)); [right; right; reflexivity | left; reflexivity].
Qed.

Section Phase1.
  Variable mm : mmodel.
  Variable o : opts.
  Variable S : list sk.
  Hypothesis Hmm : wf_mm mm = true.

  (* what phase 1 must produce: the object without `_isset`, every reference as the text written for it *)
  Fixpoint pre (t : obj) : tree (option str) :=
    match t with
    | Node c iss attrs refs kids =>
      Node c [] attrs
           (map (fun p => (fst p, enc_text (enc_ref mm o S (feat_in (c_refs (class_or mm c)) (fst p))
                                                     (isset iss (fst p)) (snd p)))) refs)
           (map (fun p => (fst p, pre (snd p))) kids)
    end.

  Lemma enc_tree_shape tag xty t :
    x_tag (enc_tree mm o S tag xty t) = tag /\ x_type (enc_tree mm o S tag xty t) = xty
    /\ x_nil (enc_tree mm o S tag xty t) = false.
  Proof. destruct t as [c iss a r ks]. cbn [enc_tree]. destruct (find_class mm c); repeat split; reflexivity. Qed.

  Lemma enc_attr_single_small d set vs : f_many d = false -> small (enc_attr o d set vs).
  Proof.
    intros Hm. unfold enc_attr. rewrite Hm. destruct (negb set); [left; reflexivity|]. apply encode_single_small.
  Qed.

  Lemma enc_ref_single_small d set ps : f_many d = false -> small (enc_ref mm o S d set ps).
  Proof.
    intros Hm. unfold enc_ref. rewrite Hm. destruct (negb set); [left; reflexivity|].
    destruct ps as [|p r]; [destruct (o_sd o); [right; right|left]; reflexivity|].
    right; left. eexists. reflexivity.
  Qed.

  (* a many-valued reference is never written as elements *)
  Lemma enc_ref_many_no_elems d set ps f : f_many d = true -> enc_xelems (f, enc_ref mm o S d set ps) = [].
  Proof.
    intros Hm. unfold enc_ref, encode_refs. rewrite Hm. destruct (negb set); [reflexivity|].
    destruct (map (frag_of mm S) ps); reflexivity.
  Qed.

  Section Node.
    Variables (c : Z) (k : class) (iss : list Z) (attrs : list (Z * list ostr))
              (refs : list (Z * list path)) (kids : list (Z * obj)).
    Hypothesis Ek : find_class mm c = Some k.
    Hypothesis Wattrs : map fst attrs = map f_id (c_attrs k).
    Hypothesis Wrefs : map fst refs = map f_id (c_refs k).
    Hypothesis Wkids : forall p, In p kids -> exists d, find_feat (c_conts k) (fst p) = Some d.
    Hypothesis Wsingle : forall d, In d (c_conts k) -> f_many d = false ->
                                   (length (kids_of (f_id d) kids) <= 1)%nat.

    Let Hk : class_ok k := wf_mm_found mm c k Hmm Ek.

    Definition ea : list (Z * enc) :=
      map (fun p => (fst p, enc_attr o (feat_in (c_attrs k) (fst p)) (isset iss (fst p)) (snd p))) attrs.
    Definition er : list (Z * enc) :=
      map (fun p => (fst p, enc_ref mm o S (feat_in (c_refs k) (fst p)) (isset iss (fst p)) (snd p))) refs.
    Definition es : list (Z * enc) := ea ++ er.
    Definition enc_kid (p : Z * obj) : xml :=
      enc_tree mm o S (TFeat (fst p)) (type_attr o (feat_in (c_conts k) (fst p)) (t_cls (snd p))) (snd p).
    Definition xa : list (Z * str) := flat_map enc_xattrs es.
    Definition xk : list xml := flat_map enc_xelems es ++ cont_nils o k iss kids ++ map enc_kid kids.

    Lemma es_keys : map fst es = map f_id (c_attrs k) ++ map f_id (c_refs k).
    Proof. unfold es, ea, er. rewrite map_app, !map_fst_map, Wattrs, Wrefs. reflexivity. Qed.

    Lemma es_nodup : NoDup (map fst es).
    Proof. rewrite es_keys. exact (nd_attrs_refs k Hk). Qed.

    Lemma cont_not_key f : In f (map f_id (c_conts k)) -> ~ In f (map fst es).
    Proof.
      intros Hc Hin. rewrite es_keys in Hin. apply in_app_or in Hin. destruct Hin as [Ha|Hr].
      - exact (attr_not_cont k Hk f Ha Hc).
      - exact (ref_not_cont k Hk f Hr Hc).
    Qed.

    Lemma key_not_cont f : In f (map fst es) -> find_feat (c_conts k) f = None.
    Proof.
      intros Hin. apply find_feat_notin. intros Hc. exact (cont_not_key f Hc Hin).
    Qed.

    (* ---- the nil elements of containments and the child elements carry containment tags *)
    Lemma cont_nils_form :
      Forall (fun x => exists d, In d (c_conts k) /\ f_many d = false /\ x = nil_elem (f_id d)) (cont_nils o k iss kids).
    Proof.
      unfold cont_nils. apply Forall_flat_map. apply Forall_forall. intros d Hd.
      destruct (o_sd o && isset iss (f_id d) && negb (f_many d) && is_nil (kids_of (f_id d) kids)) eqn:E; [|constructor].
      constructor; [|constructor]. exists d. split; [exact Hd|]. split; [|reflexivity].
      apply andb_true_iff in E. destruct E as [E _]. apply andb_true_iff in E. destruct E as [_ E].
      apply negb_true_iff in E. exact E.
    Qed.

    Lemma has_tag_enc_kid f p : has_tag f (enc_kid p) = (fst p =? f).
    Proof.
      unfold has_tag, tag_fid, enc_kid. rewrite (proj1 (enc_tree_shape _ _ _)). reflexivity.
    Qed.

    Lemma tagged_kids f : elems_tagged f (map enc_kid kids) = map enc_kid (filter (fun p => fst p =? f) kids).
    Proof.
      unfold elems_tagged. rewrite filter_map_comm. f_equal. apply filter_ext. intros p. apply has_tag_enc_kid.
    Qed.

    Lemma tagged_noncont f : ~ In f (map f_id (c_conts k)) ->
      elems_tagged f (cont_nils o k iss kids) = [] /\ elems_tagged f (map enc_kid kids) = [].
    Proof.
      intros Hn. split.
      - apply filter_all_false. eapply Forall_impl'; [|exact cont_nils_form].
        intros x (d & Hd & _ & ->). unfold has_tag, tag_fid, nil_elem. cbn.
        apply Z.eqb_neq. intros E. apply Hn. rewrite <- E. apply in_map. exact Hd.
      - rewrite tagged_kids. rewrite filter_all_false; [reflexivity|].
        apply Forall_forall. intros p Hp. apply Z.eqb_neq. intros E.
        destruct (Wkids p Hp) as (d & Hd). destruct (find_feat_some _ _ _ Hd) as [Hid Hin].
        apply Hn. rewrite <- E, <- Hid. apply in_map. exact Hin.
    Qed.

    (* ---- a feature with a slot: what the element holds for it *)
    Lemma slot_back f e : In (f, e) es ->
      attrs_named f xa = enc_xattrs (f, e) /\ elems_tagged f xk = enc_xelems (f, e).
    Proof.
      intros Hin. destruct (named_in es f e es_nodup Hin) as [H1 H2]. split; [exact H1|].
      assert (Hnc : ~ In f (map f_id (c_conts k))).
      { intros Hc. apply (cont_not_key f Hc). change f with (fst (f, e)). apply in_map. exact Hin. }
      destruct (tagged_noncont f Hnc) as [H3 H4].
      unfold xk, elems_tagged in *. rewrite !filter_app, H2, H3, H4, !app_nil_r. reflexivity.
    Qed.

    Lemma attr_slot_in a : In a attrs ->
      In (fst a, enc_attr o (feat_in (c_attrs k) (fst a)) (isset iss (fst a)) (snd a)) es.
    Proof. intros H. unfold es, ea. apply in_or_app. left. apply in_map_iff. exists a. split; [reflexivity | exact H]. Qed.

    Lemma ref_slot_in a : In a refs ->
      In (fst a, enc_ref mm o S (feat_in (c_refs k) (fst a)) (isset iss (fst a)) (snd a)) es.
    Proof. intros H. unfold es, er. apply in_or_app. right. apply in_map_iff. exists a. split; [reflexivity | exact H]. Qed.

    Lemma feat_in_attr d : In d (c_attrs k) -> feat_in (c_attrs k) (f_id d) = d.
    Proof. intros H. unfold feat_in. rewrite (find_feat_in _ d (nd_attrs k Hk) H). reflexivity. Qed.
    Lemma feat_in_ref d : In d (c_refs k) -> feat_in (c_refs k) (f_id d) = d.
    Proof. intros H. unfold feat_in. rewrite (find_feat_in _ d (nd_refs k Hk) H). reflexivity. Qed.
    Lemma feat_in_cont d : In d (c_conts k) -> feat_in (c_conts k) (f_id d) = d.
    Proof. intros H. unfold feat_in. rewrite (find_feat_in _ d (nd_conts k Hk) H). reflexivity. Qed.

    (* ---- attributes *)
    Hypothesis Wattr_vals : forall a, In a attrs ->
      let d := feat_in (c_attrs k) (fst a) in
      (f_many d || (length (snd a) =? 1)%nat)
      && (isset iss (fst a)
          || (if f_many d then is_nil (snd a)
              else match snd a with [v] => ostr_eqb v (f_dflt d) | _ => false end)) = true.

    Lemma attrs_back : map (fun d => (f_id d, read_attr d xa xk)) (c_attrs k) = attrs.
    Proof.
      apply zip_map; [exact Wattrs|]. intros a d Ha Hd Hfd.
      pose proof (Wattr_vals a Ha) as W. cbv zeta in W. rewrite Hfd, (feat_in_attr d Hd) in W.
      pose proof (attr_slot_in a Ha) as Hin. rewrite Hfd, (feat_in_attr d Hd) in Hin.
      destruct (slot_back _ _ Hin) as [B1 B2].
      apply andb_true_iff in W. destruct W as [W1 W2].
      destruct (f_many d) eqn:Em.
      - rewrite (read_many_back _ _ xa xk B1 B2 d eq_refl Em). unfold enc_attr. rewrite Em.
        destruct (isset iss (f_id d)); cbn [negb].
        + apply many_roundtrip.
        + cbn [orb] in W2. destruct (snd a); [reflexivity | discriminate].
      - rewrite (read_single_back _ _ xa xk B1 B2 d eq_refl Em). unfold enc_attr. rewrite Em.
        cbn [orb] in W1. apply Nat.eqb_eq in W1.
        destruct (snd a) as [|v [|v' r]]; try discriminate.
        destruct (isset iss (f_id d)); cbn [negb].
        + rewrite single_roundtrip. reflexivity.
        + cbn [orb] in W2. cbn [decode_single]. rewrite (ostr_eqb_eq _ _ W2). reflexivity.
    Qed.

    (* ---- references: the text is kept *)
    Lemma refs_back :
      map (fun d => (f_id d, lookup_attr (f_id d) xa)) (c_refs k)
      = map (fun p => (fst p, enc_text (enc_ref mm o S (feat_in (c_refs k) (fst p)) (isset iss (fst p)) (snd p)))) refs.
    Proof.
      apply zip_map; [rewrite map_fst_map; exact Wrefs|]. intros a d Ha Hd Hfd.
      apply in_map_iff in Ha. destruct Ha as (p & <- & Hp). cbn [fst snd] in *.
      pose proof (ref_slot_in p Hp) as Hin. destruct (slot_back _ _ Hin) as [B1 B2].
      rewrite <- Hfd. rewrite (lookup_back _ _ xa xk B1 B2). reflexivity.
    Qed.

    (* ---- the three checks of the reader pass *)
    Lemma attrs_ok_back : attrs_ok k xa = true.
    Proof.
      unfold attrs_ok. apply forallb_forall. intros q Hq. unfold xa in Hq. apply in_flat_map in Hq.
      destruct Hq as ([f e] & Hin & Hq). unfold enc_xattrs in Hq. cbn [fst snd] in Hq.
      destruct e as [|t|l]; try contradiction. destruct Hq as [<-|[]]. cbn [fst].
      assert (Hkey : In f (map fst es)) by (change f with (fst (f, EAttr t)); apply in_map; exact Hin).
      rewrite es_keys, <- map_app in Hkey.
      destruct (find_feat (c_attrs k ++ c_refs k) f) eqn:E; [reflexivity|].
      exfalso. exact (find_feat_none _ _ E Hkey).
    Qed.

    Hypothesis Wref_single : forall a, In a refs -> In (feat_in (c_refs k) (fst a)) (c_refs k).

    Lemma elems_ok_back : forallb (elem_ok k) xk = true.
    Proof.
      apply forallb_forall. intros x Hx. unfold xk in Hx. apply in_app_or in Hx. destruct Hx as [Hx|Hx].
      - apply in_flat_map in Hx. destruct Hx as ([f e] & Hin & Hx).
        unfold enc_xelems in Hx. cbn [fst snd] in Hx. destruct e as [|t|l]; try contradiction.
        apply in_map_iff in Hx. destruct Hx as (ov & <- & Hov).
        unfold elem_ok. assert (Ht : tag_fid (value_elem f ov) = Some f) by (destruct ov; reflexivity). rewrite Ht.
        destruct (find_feat (c_attrs k) f) eqn:Ea; [reflexivity|].
        unfold es in Hin. apply in_app_or in Hin. destruct Hin as [Hin|Hin].
        + exfalso. unfold ea in Hin. apply in_map_iff in Hin. destruct Hin as (a & E & Ha). inversion E; subst.
          apply (find_feat_none _ _ Ea). rewrite <- Wattrs. apply in_map. exact Ha.
        + unfold er in Hin. apply in_map_iff in Hin. destruct Hin as (a & E & Ha). inversion E as [[E1 E2]]; subst f.
          pose proof (Wref_single a Ha) as Hd. set (d := feat_in (c_refs k) (fst a)) in *.
          assert (Hfd : find_feat (c_refs k) (fst a) = Some d).
          { unfold d, feat_in in *. destruct (find_feat (c_refs k) (fst a)) as [d'|] eqn:Eff; [reflexivity|].
            exfalso. apply (find_feat_none _ _ Eff). rewrite <- Wrefs. apply in_map. exact Ha. }
          rewrite Hfd. destruct (f_many d) eqn:Em.
          * exfalso. pose proof (enc_ref_many_no_elems d (isset iss (fst a)) (snd a) (fst a) Em) as Hno.
            unfold enc_xelems in Hno. cbn [fst snd] in Hno. rewrite E2 in Hno.
            destruct l; [contradiction | discriminate].
          * destruct (enc_ref_single_small d (isset iss (fst a)) (snd a) Em) as [H|[[t H]|H]];
              rewrite E2 in H; try discriminate. inversion H; subst l.
            destruct Hov as [<-|[]]. reflexivity.
      - apply in_app_or in Hx. destruct Hx as [Hx|Hx].
        + pose proof cont_nils_form as HF. rewrite Forall_forall in HF. destruct (HF x Hx) as (d & Hd & Hm & ->).
          unfold elem_ok. cbn [tag_fid x_tag nil_elem].
          assert (Hc : In (f_id d) (map f_id (c_conts k))) by (apply in_map; exact Hd).
          rewrite (find_feat_notin (c_attrs k) (f_id d)) by (intros Ha; exact (attr_not_cont k Hk _ Ha Hc)).
          rewrite (find_feat_notin (c_refs k) (f_id d)) by (intros Hr; exact (ref_not_cont k Hk _ Hr Hc)).
          rewrite (find_feat_in _ d (nd_conts k Hk) Hd). rewrite Hm. reflexivity.
        + apply in_map_iff in Hx. destruct Hx as (p & <- & Hp).
          destruct (Wkids p Hp) as (d & Hd). destruct (find_feat_some _ _ _ Hd) as [Hid Hin].
          assert (Hc : In (fst p) (map f_id (c_conts k))) by (rewrite <- Hid; apply in_map; exact Hin).
          unfold elem_ok, tag_fid, enc_kid.
          destruct (enc_tree_shape (TFeat (fst p)) (type_attr o (feat_in (c_conts k) (fst p)) (t_cls (snd p))) (snd p))
            as (T1 & _ & T3). rewrite T1, T3.
          rewrite (find_feat_notin (c_attrs k) (fst p)) by (intros Ha; exact (attr_not_cont k Hk _ Ha Hc)).
          rewrite (find_feat_notin (c_refs k) (fst p)) by (intros Hr; exact (ref_not_cont k Hk _ Hr Hc)).
          rewrite Hd. reflexivity.
    Qed.

    Lemma singles_ok_back : singles_ok k xa xk = true.
    Proof.
      unfold singles_ok. apply forallb_forall. intros d Hd.
      destruct (f_many d) eqn:Em; [reflexivity|]. cbn [orb]. apply Nat.leb_le.
      unfold all_feats in Hd. apply in_app_or in Hd. destruct Hd as [Hd|Hd]; [|apply in_app_or in Hd; destruct Hd as [Hd|Hd]].
      - assert (Hkey : In (f_id d) (map fst attrs)) by (rewrite Wattrs; apply in_map; exact Hd).
        destruct (in_keys_slot attrs _ Hkey) as (vs & Hin).
        pose proof (attr_slot_in _ Hin) as Hs. cbn [fst snd] in Hs. rewrite (feat_in_attr d Hd) in Hs.
        destruct (slot_back _ _ Hs) as [B1 B2]. rewrite (occurrences_back _ _ xa xk B1 B2).
        apply small_length. apply enc_attr_single_small. exact Em.
      - assert (Hkey : In (f_id d) (map fst refs)) by (rewrite Wrefs; apply in_map; exact Hd).
        destruct (in_keys_slot refs _ Hkey) as (ps & Hin).
        pose proof (ref_slot_in _ Hin) as Hs. cbn [fst snd] in Hs. rewrite (feat_in_ref d Hd) in Hs.
        destruct (slot_back _ _ Hs) as [B1 B2]. rewrite (occurrences_back _ _ xa xk B1 B2).
        apply small_length. apply enc_ref_single_small. exact Em.
      - assert (Hc : In (f_id d) (map f_id (c_conts k))) by (apply in_map; exact Hd).
        destruct (named_notin es (f_id d) (cont_not_key _ Hc)) as [N1 N2].
        unfold occurrences. fold xa in N1. rewrite N1. cbn [length plus].
        unfold xk, elems_tagged in *. rewrite !filter_app, N2. cbn [app]. rewrite app_length.
        fold (elems_tagged (f_id d) (map enc_kid kids)). rewrite tagged_kids, map_length.
        pose proof (Wsingle d Hd Em) as Hle. unfold kids_of in Hle. rewrite map_length in Hle.
        (* the nil element is written only when there is no child *)
        assert (Hnil : (length (filter (has_tag (f_id d)) (cont_nils o k iss kids))
                        <= if is_nil (kids_of (f_id d) kids) then 1 else 0)%nat).
        { unfold cont_nils. rewrite filter_flat_map.
          pose proof (nd_conts k Hk) as Hnd. revert Hnd Hd. generalize (c_conts k) as L.
          induction L as [|d' L IH]; intros Hnd Hd; [contradiction|].
          simpl in Hnd. inversion Hnd as [|u v Hx Hr]; subst. cbn [flat_map]. rewrite app_length.
          destruct Hd as [->|Hd].
          - assert (Hrest : flat_map (fun x => filter (has_tag (f_id d))
                       (if o_sd o && isset iss (f_id x) && negb (f_many x) && is_nil (kids_of (f_id x) kids)
                        then [nil_elem (f_id x)] else [])) L = []).
            { clear IH Hnd Hr. induction L as [|y L' IH']; [reflexivity|]. cbn [flat_map].
              rewrite IH' by (intros H; apply Hx; right; exact H).
              destruct (o_sd o && isset iss (f_id y) && negb (f_many y) && is_nil (kids_of (f_id y) kids)); [|reflexivity].
              cbn. unfold has_tag, tag_fid. cbn.
              destruct (Z.eqb_spec (f_id y) (f_id d)) as [E|_]; [|reflexivity].
              exfalso. apply Hx. left. exact E. }
            rewrite Hrest. cbn [length]. rewrite Nat.add_0_r.
            destruct (o_sd o && isset iss (f_id d) && negb (f_many d) && is_nil (kids_of (f_id d) kids)) eqn:E.
            + apply andb_true_iff in E. destruct E as [_ E]. rewrite E. cbn [filter]. destruct (has_tag (f_id d) (nil_elem (f_id d))); cbn [length]; lia.
            + cbn [filter length]. lia.
          - assert (Hne : f_id d' <> f_id d).
            { intros E. apply Hx. rewrite E. apply in_map. exact Hd. }
            assert (H0 : filter (has_tag (f_id d))
                       (if o_sd o && isset iss (f_id d') && negb (f_many d') && is_nil (kids_of (f_id d') kids)
                        then [nil_elem (f_id d')] else []) = []).
            { destruct (o_sd o && isset iss (f_id d') && negb (f_many d') && is_nil (kids_of (f_id d') kids)); [|reflexivity].
              cbn. unfold has_tag, tag_fid. cbn. destruct (Z.eqb_spec (f_id d') (f_id d)); [contradiction|reflexivity]. }
            rewrite H0. cbn [length plus]. exact (IH Hr Hd). }
        unfold kids_of in Hnil. destruct (filter (fun p => fst p =? f_id d) kids) as [|p0 r0] eqn:Ef.
        + cbn [map is_nil length] in *. lia.
        + cbn [map is_nil length] in *. lia.
    Qed.

    (* ---- the children *)
    Hypothesis IHkids : forall p, In p kids ->
      dec_obj mm (t_cls (snd p)) (enc_kid p) = Some (pre (snd p)).
    Hypothesis Wconf : forall p d, In p kids -> find_feat (c_conts k) (fst p) = Some d ->
      conforms mm (t_cls (snd p)) (f_type d) = true.

    Lemma kids_back : collect (dec_kid mm (dec_obj mm) k) xk = Some (map (fun p => (fst p, pre (snd p))) kids).
    Proof.
      unfold xk.
      rewrite (collect_app _ _ _ [] ([] ++ map (fun p => (fst p, pre (snd p))) kids)); [reflexivity| |].
      - apply collect_skip. apply Forall_flat_map. apply Forall_forall. intros [f e] Hin.
        unfold enc_xelems. cbn [fst snd]. destruct e as [|t|l]; try constructor.
        apply Forall_forall. intros x Hx. apply in_map_iff in Hx. destruct Hx as (ov & <- & _).
        unfold dec_kid. assert (Ht : tag_fid (value_elem f ov) = Some f) by (destruct ov; reflexivity). rewrite Ht.
        rewrite (key_not_cont f); [reflexivity|]. change f with (fst (f, EElems l)). apply in_map. exact Hin.
      - apply collect_app.
        + apply collect_skip. eapply Forall_impl'; [|exact cont_nils_form].
          intros x (d & Hd & _ & ->). unfold dec_kid. cbn [tag_fid x_tag nil_elem].
          rewrite (find_feat_in _ d (nd_conts k Hk) Hd). reflexivity.
        + apply collect_keep. apply Forall_forall. intros p Hp.
          destruct (Wkids p Hp) as (d & Hd).
          unfold dec_kid, tag_fid.
          pose proof (IHkids p Hp) as IHp. unfold enc_kid in *.
          destruct (enc_tree_shape (TFeat (fst p)) (type_attr o (feat_in (c_conts k) (fst p)) (t_cls (snd p))) (snd p))
            as (T1 & T2 & T3). rewrite T1, T2, T3, Hd.
          assert (Hfi : feat_in (c_conts k) (fst p) = d) by (unfold feat_in; rewrite Hd; reflexivity).
          rewrite Hfi in *.
          assert (Hc' : match type_attr o d (t_cls (snd p)) with Some (_, c0) => c0 | None => f_type d end = t_cls (snd p)).
          { unfold type_attr. destruct (Z.eqb_spec (f_type d) (t_cls (snd p))) as [E|_]; [exact E | reflexivity]. }
          rewrite Hc', (Wconf p d Hp Hd), IHp. reflexivity.
    Qed.

    Hypothesis Wabs : c_abstract k = false.

    Theorem node_back tag xty :
      dec_obj mm c (enc_tree mm o S tag xty (Node c iss attrs refs kids))
      = Some (pre (Node c iss attrs refs kids)).
    Proof.
      cbn [enc_tree]. rewrite Ek. fold ea er es. fold xa.
      change (flat_map enc_xelems es ++ cont_nils o k iss kids
              ++ map (fun p => enc_tree mm o S (TFeat (fst p))
                                 (type_attr o (feat_in (c_conts k) (fst p)) (t_cls (snd p))) (snd p)) kids) with xk.
      cbn [dec_obj]. rewrite Ek, Wabs, attrs_ok_back, elems_ok_back, singles_ok_back. cbn [andb].
      rewrite kids_back, attrs_back, refs_back.
      cbn [pre]. unfold class_or. rewrite Ek. reflexivity.
    Qed.
  End Node.
End Phase1.

Lemma feat_in_In l f : In f (map f_id l) -> In (feat_in l f) l /\ find_feat l f = Some (feat_in l f).
Proof.
  intros H. unfold feat_in. destruct (find_feat l f) as [d|] eqn:E.
  - split; [exact (proj2 (find_feat_some _ _ _ E)) | reflexivity].
  - exfalso. exact (find_feat_none _ _ E H).
Qed.

(* the conjuncts of wf_tree, one by one *)
Lemma wf_tree_node mm S c iss attrs refs kids :
  wf_tree mm S (Node c iss attrs refs kids) = true ->
  exists k, find_class mm c = Some k /\ c_abstract k = false
    /\ map fst attrs = map f_id (c_attrs k)
    /\ forallb (fun p =>
         let d := feat_in (c_attrs k) (fst p) in
         (f_many d || (length (snd p) =? 1)%nat)
         && (isset iss (fst p)
             || (if f_many d then is_nil (snd p)
                 else match snd p with [v] => ostr_eqb v (f_dflt d) | _ => false end))) attrs = true
    /\ map fst refs = map f_id (c_refs k)
    /\ forallb (fun p =>
         let d := feat_in (c_refs k) (fst p) in
         (f_many d || (length (snd p) <=? 1)%nat)
         && forallb (path_ok mm S d) (snd p)
         && (negb (f_many d && f_unique d) || nodup_paths (snd p))
         && (isset iss (fst p) || is_nil (snd p))) refs = true
    /\ forallb (fun p =>
         match find_feat (c_conts k) (fst p) with
         | Some d => conforms mm (t_cls (snd p)) (f_type d) && wf_tree mm S (snd p)
         | None => false
         end) kids = true
    /\ forallb (fun d =>
         (f_many d || (length (kids_of (f_id d) kids) <=? 1)%nat)
         && (isset iss (f_id d) || is_nil (kids_of (f_id d) kids))) (c_conts k) = true.
Proof.
  cbn [wf_tree]. destruct (find_class mm c) as [k|]; [|discriminate]. intros H.
  repeat (apply andb_true_iff in H; let H' := fresh "W" in destruct H as [H H']).
  exists k. apply negb_true_iff in H. repeat split; try assumption; try reflexivity.
  - apply str_eqb_true. assumption.
  - apply str_eqb_true. assumption.
Qed.

(* ---- phase 1, whole trees *)
Theorem phase1 mm o S : wf_mm mm = true ->
  forall t, wf_tree mm S t = true ->
  forall tag xty, dec_obj mm (t_cls t) (enc_tree mm o S tag xty t) = Some (pre mm o S t).
Proof.
  intros Hmm. induction t as [c iss attrs refs kids IH] using tree_ind'. intros Hwf tag xty.
  destruct (wf_tree_node _ _ _ _ _ _ _ Hwf) as (k & Ek & Hab & Wa & Wav & Wr & Wrv & Wk & Wc).
  rewrite forallb_forall in Wav, Wrv, Wk, Wc. rewrite Forall_forall in IH.
  cbn [t_cls]. apply (node_back mm o S Hmm c k iss attrs refs kids Ek Wa Wr).
  - intros p Hp. specialize (Wk p Hp); cbv beta zeta in Wk. destruct (find_feat (c_conts k) (fst p)) as [d|]; [|discriminate Wk].
    exists d. reflexivity.
  - intros d Hd Hm. specialize (Wc d Hd); cbv beta zeta in Wc. rewrite Hm in Wc. cbn [orb] in Wc.
    apply andb_true_iff in Wc. destruct Wc as [Wc _]. apply Nat.leb_le. exact Wc.
  - intros a Ha. exact (Wav a Ha).
  - intros a Ha. apply feat_in_In. rewrite <- Wr. apply in_map. exact Ha.
  - intros p Hp. unfold enc_kid. apply (IH p Hp).
    specialize (Wk p Hp); cbv beta zeta in Wk. destruct (find_feat (c_conts k) (fst p)) as [d|]; [|discriminate Wk].
    apply andb_true_iff in Wk. exact (proj2 Wk).
  - intros p d Hp Hd. specialize (Wk p Hp); cbv beta zeta in Wk. rewrite Hd in Wk. apply andb_true_iff in Wk. exact (proj1 Wk).
  - exact Hab.
Qed.

(* ================================================================ 4. phase 2: the reference texts resolve *)
Lemma existsb_false_Forall {A} (p : A -> bool) l : existsb p l = false -> Forall (fun x => negb (p x) = true) l.
Proof.
  induction l as [|x r IH]; simpl; intros H; [constructor|].
  apply orb_false_iff in H. destruct H as [Hx Hr]. constructor; [rewrite Hx; reflexivity | exact (IH Hr)].
Qed.

Lemma dedup_nodup l : nodup_paths l = true -> dedup l = l.
Proof.
  induction l as [|p r IH]; simpl; intros H; [reflexivity|].
  apply andb_true_iff in H. destruct H as [Hp Hr]. rewrite (IH Hr).
  apply negb_true_iff in Hp. rewrite (filter_all_true _ r (existsb_false_Forall _ _ Hp)). reflexivity.
Qed.

Section Phase2.
  Variable mm : mmodel.
  Variable o : opts.
  Variable S : list sk.
  Hypothesis Hmm : wf_mm mm = true.

  Lemma path_ok_frag d p : path_ok mm S d p = true ->
    resolve_one mm S d (frag_of mm S p) = Some p /\ local (frag_of mm S p).
  Proof.
    unfold path_ok. intros H.
    destruct (nth_error S (fst p)) as [n|] eqn:En; [|discriminate].
    destruct (abs_steps mm n (snd p)) as [[ps c]|] eqn:Ea; [|discriminate].
    assert (Hr : render_path mm S p = Some (root_text (length S) (fst p) ++ psteps_text ps)).
    { unfold render_path. rewrite En, Ea. reflexivity. }
    destruct (resolve_render mm S p _ Hmm Hr) as (Hl & Hh & n' & ps' & c' & En' & Ea' & Hres).
    rewrite En in En'. inversion En'; subst n'. rewrite Ea in Ea'. inversion Ea'; subst ps' c'.
    unfold frag_of. rewrite Hr. split; [|exact Hl].
    unfold resolve_one. rewrite Hh, Hres, H. reflexivity.
  Qed.

  Lemma paths_frags d ps : forallb (path_ok mm S d) ps = true ->
    traverse (resolve_one mm S d) (map (frag_of mm S) ps) = Some ps /\ Forall local (map (frag_of mm S) ps).
  Proof.
    intros H. rewrite forallb_forall in H. split.
    - rewrite <- (map_id ps) at 2. apply traverse_map. apply Forall_forall. intros p Hp.
      exact (proj1 (path_ok_frag d p (H p Hp))).
    - apply Forall_forall. intros s Hs. apply in_map_iff in Hs. destruct Hs as (p & <- & Hp).
      exact (proj2 (path_ok_frag d p (H p Hp))).
  Qed.

  (* one reference slot: the text written for it resolves to its targets *)
  Lemma link_ref_back d set ps :
    (f_many d || (length ps <=? 1)%nat)
    && forallb (path_ok mm S d) ps
    && (negb (f_many d && f_unique d) || nodup_paths ps)
    && (set || is_nil ps) = true ->
    link_ref mm S d (enc_text (enc_ref mm o S d set ps)) = Some ps.
  Proof.
    intros W. repeat (apply andb_true_iff in W; let W' := fresh "W" in destruct W as [W W']).
    destruct (paths_frags d ps W2) as [HT HL].
    unfold enc_ref. destruct set; cbn [negb].
    2:{ cbn [orb] in W0. destruct ps; [reflexivity | discriminate]. }
    destruct (f_many d) eqn:Em.
    - destruct ps as [|p r]; [reflexivity|].
      remember (p :: r) as l. unfold encode_refs.
      destruct (map (frag_of mm S) l) as [|s0 sr] eqn:El; [subst l; discriminate|].
      cbn [enc_text]. unfold link_ref. rewrite Em.
      change (EAttr (join_sp (s0 :: sr))) with (encode_refs (s0 :: sr)).
      rewrite (refs_roundtrip (fun _ => true) (s0 :: sr) HL), HT. cbn [andb].
      destruct (f_unique d); [|reflexivity]. cbn [andb negb orb] in W1. rewrite (dedup_nodup l W1). reflexivity.
    - cbn [orb] in W. apply Nat.leb_le in W.
      destruct ps as [|p [|p' r]]; [destruct (o_sd o); reflexivity| |cbn in W; lia].
      cbn [enc_text]. unfold link_ref. rewrite Em.
      inversion HL as [|s l' Hs _]; subst. destruct Hs as [Hg _].
      rewrite (proj1 Hg). rewrite (ref_single_roundtrip _ Hg). cbn [map] in HT. rewrite HT. reflexivity.
  Qed.

  Lemma skel_pre t : skel (pre mm o S t) = skel t.
  Proof.
    induction t as [c iss attrs refs kids IH] using tree_ind'. cbn [pre skel]. f_equal.
    rewrite map_map. apply map_ext_Forall. eapply Forall_impl'; [|exact IH].
    intros p Hp. cbn [fst snd]. rewrite Hp. reflexivity.
  Qed.

  Theorem phase2 : forall t, wf_tree mm S t = true -> link_tree mm S (pre mm o S t) = Some (forget t).
  Proof.
    induction t as [c iss attrs refs kids IH] using tree_ind'. intros Hwf.
    destruct (wf_tree_node _ _ _ _ _ _ _ Hwf) as (k & Ek & Hab & Wa & Wav & Wr & Wrv & Wk & Wc).
    rewrite forallb_forall in Wrv, Wk. rewrite Forall_forall in IH.
    cbn [pre link_tree]. rewrite Ek. unfold class_or. rewrite Ek.
    rewrite (traverse_map _ _ (fun p => (fst p, snd p)) refs).
    - rewrite (traverse_map _ _ (fun p => (fst p, forget (snd p))) kids).
      + cbn [forget]. f_equal. f_equal. rewrite <- (map_id refs) at 2. apply map_ext. intros [a b]. reflexivity.
      + apply Forall_forall. intros p Hp. cbn [fst snd]. rewrite (IH p Hp); [reflexivity|].
        specialize (Wk p Hp); cbv beta zeta in Wk. destruct (find_feat (c_conts k) (fst p)) as [d|]; [|discriminate Wk].
        apply andb_true_iff in Wk. exact (proj2 Wk).
    - apply Forall_forall. intros p Hp. cbn [fst snd].
      assert (Hkey : In (fst p) (map f_id (c_refs k))) by (rewrite <- Wr; apply in_map; exact Hp).
      rewrite (proj2 (feat_in_In _ _ Hkey)).
      rewrite (link_ref_back _ _ _ (Wrv p Hp)). reflexivity.
  Qed.
End Phase2.

(* ================================================================ 5. whole documents *)
Lemma enc_root_tag mm o S t : x_tag (enc_root mm o S t) = TRoot (t_cls t).
Proof. unfold enc_root. exact (proj1 (enc_tree_shape mm o S _ _ t)). Qed.

Lemma root_elems_single x c : x_tag x = TRoot c -> root_elems x = [x].
Proof. destruct x as [tg ty nl xa xk tx]. cbn. intros ->. reflexivity. Qed.

Lemma root_elems_doc mm o F : root_elems (encode_doc mm o F) = map (enc_root mm o (map skel F)) F.
Proof.
  unfold encode_doc. destruct F as [|t [|t' r]]; [reflexivity| |reflexivity].
  cbn [map]. exact (root_elems_single _ _ (enc_root_tag mm o _ t)).
Qed.

Theorem document_round_trip mm o F :
  wf_mm mm = true -> wf_forest mm F = true ->
  decode_doc mm (encode_doc mm o F) = Some (map forget F).
Proof.
  intros Hmm HF. unfold wf_forest in HF. rewrite forallb_forall in HF.
  unfold decode_doc. rewrite root_elems_doc. set (S := map skel F) in *.
  rewrite (traverse_map _ _ (pre mm o S) F).
  - rewrite map_map. rewrite (map_ext _ _ (skel_pre mm o S)). fold S.
    apply traverse_map. apply Forall_forall. intros t Ht. exact (phase2 mm o S Hmm t (HF t Ht)).
  - apply Forall_forall. intros t Ht. unfold dec_root. rewrite enc_root_tag.
    unfold enc_root. exact (phase1 mm o S Hmm t (HF t Ht) _ _).
Qed.

(* an observation (no `_isset`) is what the document of the all-assigned state loads as *)
Lemma forget_set_all {R} ids (t : tree R) : forget (set_all ids t) = forget t.
Proof.
  induction t as [c iss a r ks IH] using tree_ind'. cbn [set_all forget]. f_equal.
  rewrite map_map. apply map_ext_Forall. eapply Forall_impl'; [|exact IH].
  intros p Hp. cbn [fst snd]. rewrite Hp. reflexivity.
Qed.

Theorem document_round_trip_literal mm o (G : list (tree (list path))) :
  wf_mm mm = true -> map forget G = G -> wf_forest mm (map (set_all (all_ids mm)) G) = true ->
  decode_doc mm (encode_doc mm o (map (set_all (all_ids mm)) G)) = Some G.
Proof.
  intros Hmm HG Hwf. rewrite (document_round_trip mm o _ Hmm Hwf), map_map.
  rewrite (map_ext _ _ (forget_set_all (all_ids mm))). rewrite HG. reflexivity.
Qed.

(* why the premise speaks about `_isset`: a value that differs from the default in a feature that is
   not in `_isset` (no state of pyecore) would not be written *)
Definition ex_a_names := mkFeat 0 true false 0 None.
Definition ex_a_label := mkFeat 1 false true 0 (Some [100]).
Definition ex_r_uses := mkFeat 2 true true 1 None.
Definition ex_c_parts := mkFeat 3 true true 1 None.
Definition ex_a_note := mkFeat 4 false true 0 None.
Definition ex_r_owner := mkFeat 5 false true 0 None.
(* A (names*, label = 'd', uses* -> B, parts* <>- B) ; B (note, owner -> A) ; C extends B *)
Definition ex_mm : mmodel :=
  [ mkClass 0 false [] [ex_a_names; ex_a_label] [ex_r_uses] [ex_c_parts];
    mkClass 1 false [] [ex_a_note] [ex_r_owner] [];
    mkClass 2 false [1] [ex_a_note] [ex_r_owner] [] ].
(* two roots; names = ['a b', 'c'] (white space: element form); the second part is a C under a
   containment declared as B (xsi:type); uses = [the C, the B] (cross references, order kept);
   the C's owner is the second root; its note is '' *)
Definition ex_forest : list (tree (list path)) :=
  [ Node 0 [0; 2; 3]
         [(0, [Some [97; 32; 98]; Some [99]]); (1, [Some [100]])]
         [(2, [(0%nat, [(3, 1%nat)]); (0%nat, [(3, 0%nat)])])]
         [(3, Node 1 [] [(4, [None])] [(5, [])] []);
          (3, Node 2 [4; 5] [(4, [Some []])] [(5, [(1%nat, [])])] [])];
    Node 0 [1] [(0, []); (1, [Some [120]])] [(2, [])] [] ].
