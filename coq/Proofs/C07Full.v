(* C07 in full.
   1. Rel/Ops: the inverse-bookkeeping invariant of EObject._inverse_rels
      (inv_ok: every single-valued or unique reference without opposite that
      holds b is recorded in b's inverse set) with uniq_ok (a unique collection
      holds an object at most once), for the initial state and EVERY operation
      of the kernel model, with or without containment.  Method: two relations
      between the state before and after a procedure (nd, keeps), reflexive and
      transitive, one lemma per kernel procedure (good ...).
   2. Stores/Delete: x.delete(recursive=False) from any state satisfying the
      invariants: no reference slot (single or unique) holds x; every slot of
      another object is exactly what it was minus x; relative to a predicate P
      giving symmetry + shape and kept by the steps of delete().
   3. DeleteSeq/Subtree: the recursive delete is the plain delete run on the
      sequence `deleted`; same theorems for all deleted objects.
   4. Declared: stored references are references of their holder's class, along
      histories of applicable operations.
   5. EraseDelete/DeleteGen/DeleteWF: P is instantiated for EVERY metamodel:
      the steps of delete() keep Inv (through the containment-free twin) and the
      full well-formedness WF; deleted objects end up without container.
   6. NoContHistory/GenHistory: the history-level statements. *)
From Coq Require Import ZArith List Bool Arith Lia.
From PyecoreV Require Import Lib.PyBase Lib.PyList Model.Kernel Proofs.PyListFacts Proofs.KernelFacts
     Proofs.C02Proofs Proofs.WFBase Proofs.WFRemove
     Proofs.C19Proofs Proofs.C01Proofs Proofs.C01Full Proofs.C03Proofs Proofs.C07Proofs.
Import ListNotations.
Open Scope nat_scope.

(* ------------------------------------------------------------------ *)
(* the invariants                                                       *)
(* ------------------------------------------------------------------ *)

(* the references whose holders are found by delete() through _inverse_rels *)
Definition tracked (m : mm) (f : fid) : Prop :=
  f_isref (fd m f) = true /\ f_opp (fd m f) = None /\
  (f_many (fd m f) = false \/ f_unique (fd m f) = true).

Definition inv_ok (m : mm) (s : state) : Prop :=
  forall (a : oid) (f : fid) (b : oid),
    tracked m f -> In (VObj b) (vals s (a, f)) -> In (a, f) (inv s b).

(* a unique collection holds every object at most once *)
Definition uniq_ok (m : mm) (s : state) : Prop :=
  forall (a : oid) (f : fid), f_unique (fd m f) = true -> nodup_objs (vals s (a, f)).

(* the working relations between the state before and after a procedure *)
Definition nd (m : mm) (s s' : state) : Prop :=
  forall (a : oid) (f : fid), f_unique (fd m f) = true ->
    nodup_objs (vals s (a, f)) -> nodup_objs (vals s' (a, f)).

(* tracked slots only lose objects, and an object still held keeps its inverse entry *)
Definition keeps (m : mm) (s s' : state) : Prop :=
  forall (a : oid) (f : fid) (b : oid), tracked m f ->
    In (VObj b) (vals s' (a, f)) ->
    In (VObj b) (vals s (a, f)) /\ (In (a, f) (inv s b) -> In (a, f) (inv s' b)).

Definition keeps_ex (m : mm) (k : cell) (s s' : state) : Prop :=
  forall (a : oid) (f : fid) (b : oid), tracked m f -> (a, f) <> k ->
    In (VObj b) (vals s' (a, f)) ->
    In (VObj b) (vals s (a, f)) /\ (In (a, f) (inv s b) -> In (a, f) (inv s' b)).

Definition good (m : mm) (s s' : state) : Prop :=
  nd m s s' /\ (uniq_ok m s -> keeps m s s').

Definition good_ex (m : mm) (k : cell) (s s' : state) : Prop :=
  nd m s s' /\ (uniq_ok m s -> keeps_ex m k s s').

(* ---------- small facts ---------- *)
Lemma cmem_In c l : cmem c l = true <-> In c l.
Proof.
  unfold cmem. rewrite existsb_exists. split.
  - intros [c' [Hin E]]. destruct (cell_eqb_spec c c'); [subst; exact Hin | discriminate].
  - intros H. exists c. split; [exact H | apply cell_eqb_refl].
Qed.

Lemma inv_inv_del s q c b :
  inv (inv_del s q c) b = if q =? b then filter (fun c' => negb (cell_eqb c c')) (inv s b) else inv s b.
Proof.
  unfold inv_del. cbn [inv set_inv]. unfold updn. destruct (Nat.eqb_spec q b); [subst|]; reflexivity.
Qed.

Lemma vals_inv_add' s q c : vals (inv_add s q c) = vals s.
Proof. unfold inv_add. destruct (cmem c (inv s q)); reflexivity. Qed.

Lemma In_inv_add s q c b c' : In c' (inv s b) -> In c' (inv (inv_add s q c) b).
Proof.
  unfold inv_add. destruct (cmem c (inv s q)); [tauto|]. cbn [inv set_inv]. unfold updn.
  destruct (Nat.eqb_spec q b); [subst; intros H; apply in_or_app; left; exact H | tauto].
Qed.

Lemma In_inv_add_self s q c : In c (inv (inv_add s q c) q).
Proof.
  unfold inv_add. destruct (cmem c (inv s q)) eqn:E; [apply cmem_In; exact E|].
  cbn [inv set_inv]. unfold updn. rewrite Nat.eqb_refl. apply in_or_app. right. left. reflexivity.
Qed.

Lemma In_inv_del_other s q c b c' :
  c' <> c \/ b <> q -> In c' (inv s b) -> In c' (inv (inv_del s q c) b).
Proof.
  intros H Hin. rewrite inv_inv_del. destruct (Nat.eqb_spec q b) as [E|N]; [|exact Hin].
  apply filter_In. split; [exact Hin|]. destruct (cell_eqb_spec c c') as [E'|N']; [|reflexivity].
  exfalso. destruct H as [H|H]; [apply H; symmetry; exact E' | apply H; symmetry; exact E].
Qed.

Lemma raw_remove_obj_neq l y b :
  nodup_objs l -> In (VObj b) (raw_remove (VObj y) l) -> b <> y.
Proof.
  intros ND H E. subst b. pose proof (In_raw_remove _ _ _ H) as Hin.
  destruct (raw_remove_obj_In y l ND Hin) as [Hrm _]. apply Hrm in H. tauto.
Qed.

Lemma nodup_remove_at n l : nodup_objs l -> nodup_objs (remove_at n l).
Proof.
  unfold nodup_objs. revert n. induction l as [|a r IH]; intros n ND; [destruct n; exact ND|].
  destruct n as [|n]; cbn [remove_at].
  - destruct (objs_of_cons_cases a r) as [[z [Ea E1]]|[Ea E1]]; rewrite E1 in ND;
      [inversion ND; assumption | exact ND].
  - destruct (objs_of_cons_cases a r) as [[z [Ea E1]]|[Ea E1]].
    + subst a. rewrite objs_of_cons_obj in *. inversion ND as [|? ? Hz ND']; subst.
      constructor; [|apply IH; exact ND'].
      rewrite objs_of_In. intros H. apply remove_at_In in H. apply Hz. apply objs_of_In. exact H.
    + rewrite E1 in ND. rewrite (objs_of_cons_nonobj a _ Ea). apply IH. exact ND.
Qed.

Lemma remove_at_obj_notin l n y :
  nodup_objs l -> nth_error l n = Some (VObj y) -> ~ In (VObj y) (remove_at n l).
Proof.
  intros ND Hn H. pose proof (remove_first_is_remove_at y l n ND Hn) as E.
  destruct (remove_first_obj_In y l ND _ E) as [Hrm _]. apply Hrm in H. tauto.
Qed.

(* ------------------------------------------------------------------ *)
(* algebra of the relations                                             *)
(* ------------------------------------------------------------------ *)
Section Rel.
Variable m : mm.

Lemma tracked_many_unique f : tracked m f -> f_many (fd m f) = true -> f_unique (fd m f) = true.
Proof. intros [_ [_ [H|H]]] Hm; [congruence | exact H]. Qed.

Lemma keeps_refl s : keeps m s s.
Proof. intros a f b _ H. split; [exact H | tauto]. Qed.

Lemma keeps_trans s1 s2 s3 : keeps m s1 s2 -> keeps m s2 s3 -> keeps m s1 s3.
Proof.
  intros H1 H2 a f b T H. destruct (H2 a f b T H) as [A B]. destruct (H1 a f b T A) as [C D].
  split; [exact C | intros I; apply B; apply D; exact I].
Qed.

Lemma keeps_inv_ok s s' : keeps m s s' -> inv_ok m s -> inv_ok m s'.
Proof. intros K H a f b T Hin. destruct (K a f b T Hin) as [A B]. apply B. apply H; assumption. Qed.

Lemma keeps_keeps_ex k s s' : keeps m s s' -> keeps_ex m k s s'.
Proof. intros H a f b T _ Hin. exact (H a f b T Hin). Qed.

Lemma keeps_ex_trans k s1 s2 s3 : keeps_ex m k s1 s2 -> keeps_ex m k s2 s3 -> keeps_ex m k s1 s3.
Proof.
  intros H1 H2 a f b T N H. destruct (H2 a f b T N H) as [A B]. destruct (H1 a f b T N A) as [C D].
  split; [exact C | intros I; apply B; apply D; exact I].
Qed.

Lemma keeps_split (k : cell) s s' :
  keeps_ex m k s s' ->
  (forall b, tracked m (snd k) -> In (VObj b) (vals s' k) ->
             In (VObj b) (vals s k) /\ (In k (inv s b) -> In k (inv s' b))) ->
  keeps m s s'.
Proof.
  intros H1 H2 a f b T Hin. destruct (cell_eqb_spec (a, f) k) as [E|N].
  - subst k. exact (H2 b T Hin).
  - exact (H1 a f b T N Hin).
Qed.

Lemma nd_refl s : nd m s s.
Proof. intros a f _ H; exact H. Qed.

Lemma nd_trans s1 s2 s3 : nd m s1 s2 -> nd m s2 s3 -> nd m s1 s3.
Proof. intros H1 H2 a f U H. apply H2; [exact U|]. apply H1; assumption. Qed.

Lemma nd_uniq s s' : nd m s s' -> uniq_ok m s -> uniq_ok m s'.
Proof. intros H U a f Hu. apply H; [exact Hu | apply U; exact Hu]. Qed.

Lemma good_refl s : good m s s.
Proof. split; [apply nd_refl | intros _; apply keeps_refl]. Qed.

Lemma good_trans s1 s2 s3 : good m s1 s2 -> good m s2 s3 -> good m s1 s3.
Proof.
  intros [N1 K1] [N2 K2]. split; [eapply nd_trans; eauto|].
  intros U. eapply keeps_trans; [apply K1; exact U | apply K2; eapply nd_uniq; eauto].
Qed.

Lemma good_ex_trans k s1 s2 s3 : good_ex m k s1 s2 -> good_ex m k s2 s3 -> good_ex m k s1 s3.
Proof.
  intros [N1 K1] [N2 K2]. split; [eapply nd_trans; eauto|].
  intros U. eapply keeps_ex_trans; [apply K1; exact U | apply K2; eapply nd_uniq; eauto].
Qed.

Lemma good_good_ex k s s' : good m s s' -> good_ex m k s s'.
Proof. intros [N K]. split; [exact N | intros U; apply keeps_keeps_ex; apply K; exact U]. Qed.

Lemma good_ex_refl k s : good_ex m k s s.
Proof. apply good_good_ex. apply good_refl. Qed.

(* the invariant pair carried along histories *)
Definition J (s : state) : Prop := uniq_ok m s /\ inv_ok m s.

Lemma good_J s s' : good m s s' -> J s -> J s'.
Proof.
  intros [N K] [U I]. split; [eapply nd_uniq; eauto | eapply keeps_inv_ok; [apply K; exact U | exact I]].
Qed.

(* a procedure that only looks at the same value store and never forgets an inverse entry *)
Lemma good_frame s s' :
  (forall k, vals s' k = vals s k) -> (forall b c, In c (inv s b) -> In c (inv s' b)) -> good m s s'.
Proof.
  intros HV HI. split.
  - intros a f _ H. rewrite HV. exact H.
  - intros _ a f b _ Hin. rewrite HV in Hin. split; [exact Hin | apply HI].
Qed.

(* one cell written, inverse entries of the other cells retained *)
Lemma good_cell s s' (k : cell) :
  (forall c, c <> k -> vals s' c = vals s c) ->
  (forall b c, c <> k -> In c (inv s b) -> In c (inv s' b)) ->
  (f_unique (fd m (snd k)) = true -> nodup_objs (vals s k) -> nodup_objs (vals s' k)) ->
  (uniq_ok m s -> forall b, tracked m (snd k) -> In (VObj b) (vals s' k) ->
       In (VObj b) (vals s k) /\ (In k (inv s b) -> In k (inv s' b))) ->
  good m s s'.
Proof.
  intros HV HI HN HK. split.
  - intros a f Hu H. destruct (cell_eqb_spec (a, f) k) as [E|N].
    + subst k. apply HN; assumption.
    + rewrite (HV _ N). exact H.
  - intros U a f b T Hin. destruct (cell_eqb_spec (a, f) k) as [E|N].
    + subst k. apply HK; assumption.
    + rewrite (HV _ N) in Hin. split; [exact Hin | apply HI; exact N].
Qed.

Lemma good_ex_cell s s' (k : cell) :
  (forall c, c <> k -> vals s' c = vals s c) ->
  (forall b c, c <> k -> In c (inv s b) -> In c (inv s' b)) ->
  (f_unique (fd m (snd k)) = true -> nodup_objs (vals s k) -> nodup_objs (vals s' k)) ->
  good_ex m k s s'.
Proof.
  intros HV HI HN. split.
  - intros a f Hu H. destruct (cell_eqb_spec (a, f) k) as [E|N].
    + subst k. apply HN; assumption.
    + rewrite (HV _ N). exact H.
  - intros U a f b T N Hin. rewrite (HV _ N) in Hin. split; [exact Hin | apply HI; exact N].
Qed.

Lemma good_set_vals s (k : cell) l :
  (f_unique (fd m (snd k)) = true -> nodup_objs (vals s k) -> nodup_objs l) ->
  (forall b, tracked m (snd k) -> In (VObj b) l -> In (VObj b) (vals s k)) ->
  good m s (set_vals s k l).
Proof.
  intros HN HK. apply (good_cell s _ k).
  - intros c N. cbn [vals set_vals]. apply upd_other. intros E; apply N; symmetry; exact E.
  - intros b c _ H. exact H.
  - cbn [vals set_vals]. rewrite upd_same. exact HN.
  - intros _ b T. cbn [vals set_vals]. rewrite upd_same. intros H. split; [apply HK; assumption | tauto].
Qed.

(* ------------------------------------------------------------------ *)
(* the removal direction                                                *)
(* ------------------------------------------------------------------ *)
Lemma good_uc_clear s f p : good m s (uc_clear m s f p).
Proof.
  unfold uc_clear. destruct (f_cont (fd m f)); [|apply good_refl].
  destruct p; [|apply good_refl]. apply good_frame; [reflexivity | tauto].
Qed.

Lemma good_set_store s (k : cell) v :
  obj_of v = None \/ ~ tracked m (snd k) -> good m s (set_store m s k v).
Proof.
  intros H. apply (good_cell s _ k).
  - intros c N. cbn [vals set_store notify push_log set_isset set_vals]. apply upd_other.
    intros E; apply N; symmetry; exact E.
  - intros b c _ Hc. exact Hc.
  - intros _ _. cbn [vals set_store notify push_log set_isset set_vals]. rewrite upd_same. apply nodup_single.
  - intros _ b T. cbn [vals set_store notify push_log set_isset set_vals]. rewrite upd_same.
    intros [E|[]]. exfalso. destruct H as [H|H]; [subst v; discriminate | exact (H T)].
Qed.

Lemma good_set_none_raw s k : good m s (set_none_raw m s k).
Proof.
  unfold set_none_raw.
  assert (H1 : good m s (set_store m s k VNone)) by (apply good_set_store; left; reflexivity).
  destruct (f_isref (fd m (snd k))); [|exact H1].
  eapply good_trans; [exact H1 | apply good_uc_clear].
Qed.

Lemma good_coll_remove_raw s k x : good m s (coll_remove_raw m s k x).
Proof.
  unfold coll_remove_raw. destruct (vmem (VObj x) (vals s k)); [|apply good_refl].
  eapply good_trans; [apply (good_uc_clear s (snd k) (Some x))|].
  set (s1 := uc_clear m s (snd k) (Some x)).
  change (good m s1 (set_vals s1 k (raw_remove (VObj x) (vals s1 k)))).
  apply good_set_vals.
  - intros _ H. apply nodup_raw_remove. exact H.
  - intros b _ H. exact (In_raw_remove _ _ _ H).
Qed.

Lemma good_inv_add s o c : good m s (inv_add s o c).
Proof.
  apply good_frame; [intros k; rewrite vals_inv_add'; reflexivity | intros b c' H; apply In_inv_add; exact H].
Qed.

Lemma good_inv_del s q (c : cell) :
  ~ tracked m (snd c) \/ ~ In (VObj q) (vals s c) -> good m s (inv_del s q c).
Proof.
  intros H. apply (good_cell s _ c).
  - intros c' _. reflexivity.
  - intros b c' N Hin. apply In_inv_del_other; [left; exact N | exact Hin].
  - intros _ Hn. exact Hn.
  - intros _ b T Hin. split; [exact Hin|]. intros Hi.
    apply In_inv_del_other; [|exact Hi]. right. intros E. subst b.
    destruct H as [H|H]; [exact (H T) | exact (H Hin)].
Qed.


Lemma good_ext s s1 s2 :
  good m s s1 -> (forall k, vals s2 k = vals s1 k) -> (forall b, inv s2 b = inv s1 b) -> good m s s2.
Proof.
  intros [N K] HV HI. split.
  - intros a f Hu H. rewrite HV. apply N; assumption.
  - intros U a f b T Hin. rewrite HV in Hin. rewrite HI. apply K; assumption.
Qed.

Lemma good_ex_ext k s s1 s2 :
  good_ex m k s s1 -> (forall c, vals s2 c = vals s1 c) -> (forall b, inv s2 b = inv s1 b) -> good_ex m k s s2.
Proof.
  intros [N K] HV HI. split.
  - intros a f Hu H. rewrite HV. apply N; assumption.
  - intros U a f b T Nk Hin. rewrite HV in Hin. rewrite HI. apply K; assumption.
Qed.

Lemma vals_uc_clear' s f p : vals (uc_clear m s f p) = vals s.
Proof. unfold uc_clear. destruct (f_cont (fd m f)); [destruct p|]; reflexivity. Qed.

Lemma inv_uc_clear s f p : inv (uc_clear m s f p) = inv s.
Proof. unfold uc_clear. destruct (f_cont (fd m f)); [destruct p|]; reflexivity. Qed.

Lemma inv_set_none_raw s k : inv (set_none_raw m s k) = inv s.
Proof. unfold set_none_raw. destruct (f_isref (fd m (snd k))); [rewrite inv_uc_clear|]; reflexivity. Qed.

Lemma inv_coll_remove_raw s k x : inv (coll_remove_raw m s k x) = inv s.
Proof.
  unfold coll_remove_raw. destruct (vmem (VObj x) (vals s k)); [|reflexivity].
  cbn [inv notify push_log set_vals]. apply inv_uc_clear.
Qed.

Lemma good_plain_remove s1 (k : cell) v : good m s1 (set_vals s1 k (raw_remove v (vals s1 k))).
Proof.
  apply good_set_vals; [intros _ H; apply nodup_raw_remove; exact H | intros b _ H; exact (In_raw_remove _ _ _ H)].
Qed.

(* toggling the inverse entry and removing the element: ECollection.remove on a reference without opposite *)
Lemma good_toggle_then_remove s0 (x : oid) (f : fid) (y : oid) :
  f_many (fd m f) = true ->
  good m s0 (set_vals (if cmem (x, f) (inv s0 y) then inv_del s0 y (x, f) else inv_add s0 y (x, f)) (x, f)
               (raw_remove (VObj y)
                  (vals (if cmem (x, f) (inv s0 y) then inv_del s0 y (x, f) else inv_add s0 y (x, f)) (x, f)))).
Proof.
  intros Hm. set (t := if cmem (x, f) (inv s0 y) then inv_del s0 y (x, f) else inv_add s0 y (x, f)).
  assert (Ht : vals t = vals s0).
  { unfold t. destruct (cmem (x, f) (inv s0 y)); [reflexivity | apply vals_inv_add']. }
  assert (Hi : forall b c, c <> (x, f) \/ b <> y -> In c (inv s0 b) -> In c (inv t b)).
  { intros b c H Hin. unfold t. destruct (cmem (x, f) (inv s0 y)).
    - apply In_inv_del_other; assumption.
    - apply In_inv_add. exact Hin. }
  apply (good_cell s0 _ (x, f)).
  - intros c N. cbn [vals set_vals]. rewrite upd_other by (intros E; apply N; symmetry; exact E).
    rewrite Ht. reflexivity.
  - intros b c N Hin. cbn [inv set_vals]. apply Hi; [left; exact N | exact Hin].
  - intros _ H. cbn [vals set_vals]. rewrite upd_same, Ht. apply nodup_raw_remove. exact H.
  - intros U b T. cbn [vals set_vals snd inv] in *. rewrite upd_same, Ht. intros H.
    split; [exact (In_raw_remove _ _ _ H)|].
    assert (ND : nodup_objs (vals s0 (x, f))) by (apply U; apply tracked_many_unique; assumption).
    pose proof (raw_remove_obj_neq _ _ _ ND H) as Hne.
    apply Hi. right. exact Hne.
Qed.

Lemma good_notify s s' o f kd a b : good m s s' -> good m s (notify m s' o f kd a b).
Proof. intros H. apply (good_ext s s'); [exact H | reflexivity | reflexivity]. Qed.

Lemma good_coll_remove_full s (x : oid) (f : fid) v :
  f_many (fd m f) = true -> good m s (coll_remove_full m s (x, f) v).
Proof.
  intros Hm. unfold coll_remove_full. cbv beta iota zeta. apply good_notify.
  destruct (f_isref (fd m f)) eqn:Hr; [|apply good_plain_remove].
  destruct (obj_of v) as [y|] eqn:Ev; [|apply good_plain_remove].
  apply obj_of_Some' in Ev. subst v.
  eapply good_trans; [apply (good_uc_clear s f (Some y))|].
  set (s0 := uc_clear m s f (Some y)). unfold update_opposite_remove.
  destruct (f_opp (fd m f)) as [g|] eqn:Eg.
  - set (s1 := if f_many (fd m g)
               then if cell_eqb (y, g) (x, f) then s0 else coll_remove_raw m s0 (y, g) x
               else set_none_raw m s0 (y, g)).
    assert (H1 : good m s0 s1).
    { unfold s1. destruct (f_many (fd m g)).
      - destruct (cell_eqb (y, g) (x, f)); [apply good_refl | apply good_coll_remove_raw].
      - apply good_set_none_raw. }
    eapply good_trans; [exact H1 | apply good_plain_remove].
  - exact (good_toggle_then_remove s0 x f y Hm).
Qed.

Lemma good_set_none_full s (x : oid) (f : fid) : good m s (set_none_full m s (x, f)).
Proof.
  unfold set_none_full. cbv beta iota zeta.
  set (s1 := set_store m s (x, f) VNone).
  assert (H1 : good m s s1) by (apply good_set_store; left; reflexivity).
  destruct (f_isref (fd m f)); cbn [negb]; [|exact H1].
  set (s2 := uc_clear m s1 f (obj_of (single s (x, f)))).
  assert (H2 : good m s s2) by (eapply good_trans; [exact H1 | apply good_uc_clear]).
  assert (V2 : vals s2 (x, f) = [VNone]).
  { unfold s2. rewrite vals_uc_clear'. unfold s1.
    cbn [vals set_store notify push_log set_isset set_vals]. apply upd_same. }
  destruct (f_opp (fd m f)) as [g|].
  - destruct (obj_of (single s (x, f))) as [q|]; [|exact H2].
    destruct (f_many (fd m g)).
    + eapply good_trans; [exact H2 | apply good_coll_remove_raw].
    + destruct (cell_eqb (q, g) (x, f)); [exact H2|].
      eapply good_trans; [exact H2 | apply good_set_none_raw].
  - destruct (obj_of (single s (x, f))) as [q|]; [|exact H2].
    eapply good_trans; [exact H2|]. apply good_inv_del. right. rewrite V2. intros [E|[]]. discriminate.
Qed.

Lemma good_remove_or_unset s (k : cell) y : good m s (remove_or_unset m s k y).
Proof.
  destruct k as [x f]. unfold remove_or_unset. cbn [snd]. destruct (f_many (fd m f)) eqn:Hm.
  - destruct (vmem (VObj y) (vals s (x, f))); [apply good_coll_remove_full; exact Hm | apply good_refl].
  - apply good_set_none_full.
Qed.

Lemma good_set_cont s o c : good m s (set_cont s o c).
Proof. apply good_frame; [reflexivity | tauto]. Qed.

Lemma good_update_container s (x : oid) (f : fid) v p : good m s (update_container m s x f v p).
Proof.
  unfold update_container.
  destruct (f_cont (fd m f)) eqn:Hc; cbn [negb]; [|apply good_refl].
  match goal with |- good _ s (match p with Some _ => _ | None => ?S1 end) => set (s1 := S1) end.
  assert (H1 : good m s s1).
  { unfold s1. destruct v as [y|]; [|apply good_refl]. cbv zeta.
    set (sa := match eresource_of m s y with
               | Some r => if nmem y (rcont s r) then res_remove_raw s r y else s
               | None => s end).
    assert (Ha : good m s sa).
    { unfold sa. destruct (eresource_of m s y); [|apply good_refl].
      destruct (nmem y (rcont s r)); [|apply good_refl].
      apply good_frame; [reflexivity | tauto]. }
    set (sb := match cont sa y with
               | Some (p0, pf) => if negb ((p0 =? x) && (pf =? f)) then remove_or_unset m sa (p0, pf) y else sa
               | None => sa end).
    assert (Hb : good m sa sb).
    { unfold sb. destruct (cont sa y) as [[p0 pf]|]; [|apply good_refl].
      destruct (negb ((p0 =? x) && (pf =? f))); [apply good_remove_or_unset | apply good_refl]. }
    eapply good_trans; [exact Ha|]. eapply good_trans; [exact Hb | apply good_set_cont]. }
  destruct p as [p|]; [|exact H1].
  destruct v as [y|]; [destruct (y =? p); [exact H1|] |];
    (eapply good_trans; [exact H1 | apply good_set_cont]).
Qed.

Lemma vals_update_container_none s (x : oid) (f : fid) p : vals (update_container m s x f None p) = vals s.
Proof. unfold update_container. destruct (f_cont (fd m f)); cbn [negb]; [destruct p|]; reflexivity. Qed.

(* ------------------------------------------------------------------ *)
(* the addition direction                                               *)
(* ------------------------------------------------------------------ *)
Lemma good_set_obj_raw s (k : cell) x : ~ tracked m (snd k) -> good m s (set_obj_raw m s k x).
Proof.
  intros T. unfold set_obj_raw.
  assert (H1 : good m s (set_store m s k (VObj x))) by (apply good_set_store; right; exact T).
  destruct (f_isref (fd m (snd k))); [|exact H1].
  eapply good_trans; [exact H1 | apply good_update_container].
Qed.

Lemma good_coll_append_raw s (k : cell) x : ~ tracked m (snd k) -> good m s (coll_append_raw m s k x).
Proof.
  intros T. unfold coll_append_raw.
  set (s1 := update_container m s (fst k) (snd k) (Some x) None).
  eapply good_trans; [apply good_update_container|]. fold s1.
  apply (good_ext s1 (set_vals s1 k (raw_append (f_unique (fd m (snd k))) (VObj x) (vals s1 k))));
    [|reflexivity|reflexivity].
  apply good_set_vals.
  - intros Hu H. rewrite Hu. apply nodup_raw_append. exact H.
  - intros b Tk. exfalso. exact (T Tk).
Qed.

End Rel.

Section Ops.
Variable m : mm.
Hypothesis Hwf : wf_opp m.

Lemma opp_untracked f g : f_opp (fd m f) = Some g -> ~ tracked m g.
Proof. intros H [_ [T _]]. destruct (Hwf f g H) as [Hgf _]. congruence. Qed.

Lemma has_opp_untracked f g : f_opp (fd m f) = Some g -> ~ tracked m f.
Proof. intros H [_ [T _]]. congruence. Qed.

Lemma good_update_opposite_add s (x : oid) (f : fid) (y : oid) : good m s (update_opposite_add m s x f y).
Proof.
  unfold update_opposite_add. destruct (f_opp (fd m f)) as [g|] eqn:Eg; [|apply good_inv_add].
  pose proof (opp_untracked f g Eg) as Tg.
  destruct (f_many (fd m g)).
  - destruct (cell_eqb (y, g) (x, f)); [apply good_refl | apply good_coll_append_raw; exact Tg].
  - eapply good_trans; [|apply good_set_obj_raw; exact Tg].
    destruct (obj_of (single s (y, g))) as [c|]; [|apply good_refl].
    destruct (c =? x); [apply good_refl | apply good_coll_remove_raw].
Qed.

Lemma good_link_elem s (x : oid) (f : fid) v : good m s (link_elem m s x f v).
Proof.
  unfold link_elem. destruct (f_isref (fd m f)); [|apply good_refl].
  destruct (obj_of v) as [y|]; [|apply good_refl].
  eapply good_trans; [apply good_update_container | apply good_update_opposite_add].
Qed.

Lemma link_registers s (x : oid) (f : fid) (y : oid) :
  f_isref (fd m f) = true -> f_opp (fd m f) = None ->
  In (x, f) (inv (link_elem m s x f (VObj y)) y).
Proof.
  intros Hr Ho. unfold link_elem. rewrite Hr. cbn [obj_of]. unfold update_opposite_add. rewrite Ho.
  apply In_inv_add_self.
Qed.

(* ---------- unlinking one element: everything but the own slot is kept ---------- *)
Lemma good_ex_update_opposite_remove s (x : oid) (f : fid) (y : oid) :
  good_ex m (x, f) s (update_opposite_remove m s x f y).
Proof.
  unfold update_opposite_remove. destruct (f_opp (fd m f)) as [g|].
  - apply good_good_ex. destruct (f_many (fd m g)).
    + destruct (cell_eqb (y, g) (x, f)); [apply good_refl | apply good_coll_remove_raw].
    + apply good_set_none_raw.
  - destruct (cmem (x, f) (inv s y)).
    + apply (good_ex_cell m s _ (x, f)).
      * intros c _. reflexivity.
      * intros b c N Hin. apply In_inv_del_other; [left; exact N | exact Hin].
      * intros _ H. exact H.
    + apply good_good_ex. apply good_inv_add.
Qed.

Lemma good_ex_unlink_elem s (x : oid) (f : fid) v : good_ex m (x, f) s (unlink_elem m s x f v).
Proof.
  unfold unlink_elem. destruct (f_isref (fd m f)); [|apply good_ex_refl].
  destruct (obj_of v) as [y|]; [|apply good_ex_refl].
  eapply good_ex_trans; [apply good_good_ex; apply good_uc_clear | apply good_ex_update_opposite_remove].
Qed.

Lemma inv_unlink_keep s (x : oid) (f : fid) v b c :
  obj_of v <> Some b \/ c <> (x, f) -> In c (inv s b) -> In c (inv (unlink_elem m s x f v) b).
Proof.
  intros H Hin. unfold unlink_elem. destruct (f_isref (fd m f)); [|exact Hin].
  destruct (obj_of v) as [y|]; [|exact Hin].
  unfold update_opposite_remove. destruct (f_opp (fd m f)) as [g|].
  - destruct (f_many (fd m g)).
    + destruct (cell_eqb (y, g) (x, f)); [|rewrite inv_coll_remove_raw]; rewrite inv_uc_clear; exact Hin.
    + rewrite inv_set_none_raw, inv_uc_clear. exact Hin.
  - destruct (cmem (x, f) (inv (uc_clear m s f (Some y)) y)).
    + apply In_inv_del_other; [|rewrite inv_uc_clear; exact Hin].
      destruct H as [H|H]; [right; intros E; apply H; congruence | left; exact H].
    + apply In_inv_add. rewrite inv_uc_clear. exact Hin.
Qed.


(* ---------- a goal-directed decomposition of nested procedure calls ---------- *)
Ltac gd T :=
  lazymatch goal with
  | |- good _ ?s ?s => apply good_refl
  | |- good _ _ (snd (_, _)) => cbn [snd]; gd T
  | |- good _ _ (snd (if ?c then _ else _)) => destruct c; gd T
  | |- good _ _ (snd (match ?c with Some _ => _ | None => _ end)) => destruct c; gd T
  | |- good _ _ (set_none_raw _ ?i _) => apply (good_trans _ _ i); [gd T | apply good_set_none_raw]
  | |- good _ _ (coll_remove_raw _ ?i _ _) => apply (good_trans _ _ i); [gd T | apply good_coll_remove_raw]
  | |- good _ _ (coll_append_raw _ ?i _ _) => apply (good_trans _ _ i); [gd T | apply good_coll_append_raw; T]
  | |- good _ _ (set_obj_raw _ ?i _ _) => apply (good_trans _ _ i); [gd T | apply good_set_obj_raw; T]
  | |- good _ _ (inv_add ?i _ _) => apply (good_trans _ _ i); [gd T | apply good_inv_add]
  | |- good _ _ (inv_del ?i _ _) => apply (good_trans _ _ i); [gd T | apply good_inv_del; T]
  | |- good _ _ (if ?c then _ else _) => destruct c; gd T
  | |- good _ _ (match ?c with Some _ => _ | None => _ end) => destruct c; gd T
  | |- good _ _ _ => assumption
  end.

Lemma tracked_dec f : tracked m f \/ ~ tracked m f.
Proof.
  unfold tracked. destruct (f_isref (fd m f)); [|right; intros [H _]; discriminate].
  destruct (f_opp (fd m f)); [right; intros [_ [H _]]; discriminate|].
  destruct (f_many (fd m f)); [|left; repeat split; left; reflexivity].
  destruct (f_unique (fd m f)); [left; repeat split; right; reflexivity|].
  right. intros [_ [_ [H|H]]]; discriminate.
Qed.

Lemma J_ext s s' : J m s -> (forall k, vals s' k = vals s k) -> (forall b, inv s' b = inv s b) -> J m s'.
Proof.
  intros [U I] HV HI. split.
  - intros a f Hu. rewrite HV. apply U. exact Hu.
  - intros a f b T Hin. rewrite HV in Hin. rewrite HI. apply I; assumption.
Qed.

Lemma nd_set_store s (k : cell) v : nd m s (set_store m s k v).
Proof.
  intros a f Hu H. cbn [vals set_store notify push_log set_isset set_vals]. unfold upd.
  destruct (cell_eqb k (a, f)); [apply nodup_single | exact H].
Qed.

(* ---------- EValue._set ---------- *)
Lemma good_set_full s (x : oid) (f : fid) v :
  obj_of v = None \/ ~ tracked m f -> good m s (snd (set_full m s (x, f) v)).
Proof.
  intros H. unfold set_full. cbv beta iota zeta.
  destruct (check_single m f v); cbn [negb snd]; [|apply good_refl].
  set (s1 := set_store m s (x, f) v).
  assert (H1 : good m s s1) by (apply good_set_store; exact H).
  destruct (f_isref (fd m f)); cbn [negb snd]; [|exact H1].
  set (s2 := update_container m s1 x f (obj_of v) (obj_of (single s (x, f)))).
  assert (H2 : good m s s2) by (eapply good_trans; [exact H1 | apply good_update_container]).
  destruct (f_opp (fd m f)) as [g|] eqn:Eg.
  - pose proof (opp_untracked f g Eg) as Tg.
    gd ltac:(exact Tg).
  - assert (Hq : forall q, ~ tracked m (snd (x, f)) \/ ~ In (VObj q) (vals s2 (x, f))).
    { intros q. destruct H as [H|H]; [right | left; exact H].
      unfold s2. rewrite H. rewrite vals_update_container_none. unfold s1.
      cbn [vals set_store notify push_log set_isset set_vals]. rewrite upd_same.
      intros [E|[]]. subst v. discriminate. }
    gd ltac:(apply Hq).
Qed.

Lemma J_set_full s (x : oid) (f : fid) v : J m s -> J m (snd (set_full m s (x, f) v)).
Proof.
  intros HJ. destruct (tracked_dec f) as [T|T]; [|apply (good_J m s); [apply good_set_full; right; exact T | exact HJ]].
  destruct (obj_of v) as [y|] eqn:Ev; [|apply (good_J m s); [apply good_set_full; left; exact Ev | exact HJ]].
  apply obj_of_Some' in Ev. subst v. destruct HJ as [U I]. destruct T as [Hr [Ho Hmu]].
  unfold set_full. cbv beta iota zeta.
  destruct (check_single m f (VObj y)); cbn [negb snd]; [|split; assumption].
  rewrite Hr, Ho. cbn [negb snd obj_of].
  set (s1 := set_store m s (x, f) (VObj y)).
  set (s2 := update_container m s1 x f (Some y) (obj_of (single s (x, f)))).
  assert (U1 : uniq_ok m s1) by (apply (nd_uniq m s); [apply nd_set_store | exact U]).
  pose proof (good_update_container m s1 x f (Some y) (obj_of (single s (x, f)))) as [N2 K2]. fold s2 in N2, K2.
  specialize (K2 U1).
  set (s3 := match obj_of (single s (x, f)) with Some q => inv_del s2 q (x, f) | None => s2 end).
  assert (V3 : forall k, vals (inv_add s3 y (x, f)) k = vals s2 k).
  { intros k. rewrite vals_inv_add'. unfold s3. destruct (obj_of (single s (x, f))); reflexivity. }
  split.
  - intros a h Hu. rewrite V3. apply (nd_uniq m s1 s2 N2 U1). exact Hu.
  - intros a h b T. rewrite V3. intros Hin. destruct (K2 a h b T Hin) as [A B].
    destruct (cell_eqb_spec (a, h) (x, f)) as [E|N].
    + inversion E; subst a h. unfold s1 in A. cbn [vals set_store notify push_log set_isset set_vals] in A.
      rewrite upd_same in A. destruct A as [A|[]]. inversion A; subst b. apply In_inv_add_self.
    + apply In_inv_add.
      assert (Hi2 : In (a, h) (inv s2 b)).
      { apply B. change (inv s1 b) with (inv s b). apply I; [exact T|].
        unfold s1 in A. cbn [vals set_store notify push_log set_isset set_vals] in A.
        rewrite upd_other in A by (intros E; apply N; symmetry; exact E). exact A. }
      unfold s3. destruct (obj_of (single s (x, f))) as [q|]; [|exact Hi2].
      apply In_inv_del_other; [left; exact N | exact Hi2].
Qed.

(* ---------- insert / append / add ---------- *)
Lemma J_after_link s1 (x : oid) (f : fid) v l' s0 :
  J m s0 -> good m s0 s1 ->
  (forall b, tracked m f -> v = VObj b -> In (x, f) (inv s1 b)) ->
  (f_unique (fd m f) = true -> nodup_objs (vals s1 (x, f)) -> nodup_objs l') ->
  (forall w, In w l' -> In w (vals s1 (x, f)) \/ w = v) ->
  J m (set_vals s1 (x, f) l').
Proof.
  intros [U I] [N K] Hreg Hnd Hin. specialize (K U). pose proof (nd_uniq m s0 s1 N U) as U1. split.
  - intros a h Hu. cbn [vals set_vals]. unfold upd.
    destruct (cell_eqb_spec (x, f) (a, h)) as [E|Ne]; [|apply U1; exact Hu].
    inversion E; subst a h. apply Hnd; [exact Hu | apply U1; exact Hu].
  - intros a h b T. cbn [vals set_vals inv]. unfold upd.
    destruct (cell_eqb_spec (x, f) (a, h)) as [E|Ne].
    + inversion E; subst a h. intros Hb. destruct (Hin _ Hb) as [Hold|Hnew].
      * destruct (K x f b T Hold) as [A B]. apply B. apply I; assumption.
      * apply Hreg; [exact T | symmetry; exact Hnew].
    + intros Hb. destruct (K a h b T Hb) as [A B]. apply B. apply I; assumption.
Qed.

Lemma J_coll_add_full s (x : oid) (f : fid) pos v : J m s -> J m (snd (coll_add_full m s (x, f) pos v)).
Proof.
  intros HJ. unfold coll_add_full. cbv beta iota zeta.
  destruct (check_elem m f v); cbn [negb snd]; [|exact HJ].
  set (s1 := link_elem m s x f v).
  eapply J_ext; [|reflexivity|reflexivity].
  apply (J_after_link s1 x f v _ s HJ (good_link_elem s x f v)).
  - intros b [Hr [Ho _]] E. subst v. apply link_registers; assumption.
  - intros Hu H. rewrite Hu. destruct pos; [apply nodup_raw_insert | apply nodup_raw_append]; exact H.
  - intros w Hw. destruct pos; [exact (In_raw_insert _ _ _ _ _ Hw) | exact (In_raw_append _ _ _ _ Hw)].
Qed.

(* ---------- pop ---------- *)
Lemma good_coll_pop_full s (x : oid) (f : fid) i :
  f_many (fd m f) = true -> good m s (snd (fst (coll_pop_full m s (x, f) i))).
Proof.
  intros Hm. unfold coll_pop_full. cbv beta iota zeta.
  destruct (vals s (x, f)) as [|a0 l0] eqn:El; [apply good_refl|]. rewrite <- El.
  destruct (py_pop i (vals s (x, f))) as [[v l']|] eqn:Ep; cbn [fst snd]; [|apply good_refl].
  destruct (py_pop_nth i _ _ _ Ep) as [n [Hn Hl']].
  set (s1 := set_vals s (x, f) l').
  set (s2 := unlink_elem m s1 x f v).
  apply (good_ext m s s2); [|reflexivity|reflexivity].
  assert (G1 : good_ex m (x, f) s s1).
  { apply (good_ex_cell m s s1 (x, f)).
    - intros c N. unfold s1. cbn [vals set_vals]. apply upd_other. intros E; apply N; symmetry; exact E.
    - intros b c _ H. exact H.
    - intros _ H. unfold s1. cbn [vals set_vals]. rewrite upd_same. subst l'. apply nodup_remove_at. exact H. }
  pose proof (good_ex_trans m (x, f) s s1 s2 G1 (good_ex_unlink_elem s1 x f v)) as [N K].
  split; [exact N|]. intros U. apply (keeps_split m (x, f)); [apply K; exact U|].
  cbn [snd]. intros b T Hb.
  pose proof (shrinks_unlink_elem m s1 x f v (x, f) b Hb) as Hb1.
  unfold s1 in Hb1. cbn [vals set_vals] in Hb1. rewrite upd_same in Hb1.
  split; [exact (In_py_pop _ _ _ _ _ Ep Hb1)|].
  intros Hi. unfold s2. apply inv_unlink_keep; [|exact Hi].
  left. intros Ev. apply obj_of_Some' in Ev. subst v.
  assert (ND : nodup_objs (vals s (x, f))) by (apply U; apply tracked_many_unique; assumption).
  subst l'. exact (remove_at_obj_notin _ _ _ ND Hn Hb1).
Qed.

(* ---------- clear ---------- *)
Lemma good_ex_fold_unlink (x : oid) (f : fid) l s :
  good_ex m (x, f) s (fold_left (fun acc v => unlink_elem m acc x f v) l s).
Proof.
  revert s; induction l as [|v l IH]; intros s; cbn [fold_left]; [apply good_ex_refl|].
  eapply good_ex_trans; [apply good_ex_unlink_elem | apply IH].
Qed.

Lemma good_coll_clear_full s (x : oid) (f : fid) : good m s (coll_clear_full m s (x, f)).
Proof.
  unfold coll_clear_full. cbv beta iota zeta.
  destruct (vals s (x, f)) as [|a0 l0] eqn:El; [apply good_refl|]. rewrite <- El.
  set (s1 := fold_left (fun acc v => unlink_elem m acc x f v) (vals s (x, f)) s).
  apply (good_ext m s (set_vals s1 (x, f) [])); [|reflexivity|reflexivity].
  assert (G2 : good_ex m (x, f) s1 (set_vals s1 (x, f) [])).
  { apply (good_ex_cell m s1 _ (x, f)).
    - intros c N. cbn [vals set_vals]. apply upd_other. intros E; apply N; symmetry; exact E.
    - intros b c _ H. exact H.
    - intros _ _. cbn [vals set_vals]. rewrite upd_same. constructor. }
  pose proof (good_ex_trans m (x, f) s s1 _ (good_ex_fold_unlink x f _ s) G2) as [N K].
  split; [exact N|]. intros U. apply (keeps_split m (x, f)); [apply K; exact U|].
  intros b _. cbn [vals set_vals]. rewrite upd_same. intros [].
Qed.

(* ---------- extend / update ---------- *)
Lemma good_fold_link (x : oid) (f : fid) vs s :
  good m s (fold_left (fun acc v => link_elem m acc x f v) vs s).
Proof.
  revert s; induction vs as [|v vs IH]; intros s; cbn [fold_left]; [apply good_refl|].
  eapply good_trans; [apply good_link_elem | apply IH].
Qed.

Lemma J_extend_iter s0 (x : oid) (f : fid) v :
  J m s0 -> J m (link_elem m (set_vals s0 (x, f) (raw_append true v (vals s0 (x, f)))) x f v).
Proof.
  intros [U I].
  set (sa := set_vals s0 (x, f) (raw_append true v (vals s0 (x, f)))).
  assert (Ua : uniq_ok m sa).
  { intros a h Hu. unfold sa. cbn [vals set_vals]. unfold upd.
    destruct (cell_eqb_spec (x, f) (a, h)) as [E|N]; [|apply U; exact Hu].
    inversion E; subst a h. apply nodup_raw_append. apply U. exact Hu. }
  destruct (good_link_elem sa x f v) as [N K]. specialize (K Ua). split; [exact (nd_uniq m sa _ N Ua)|].
  intros a h b T Hb. destruct (K a h b T Hb) as [A B].
  destruct (cell_eqb_spec (x, f) (a, h)) as [E|Ne].
  - inversion E; subst a h. unfold sa in A. cbn [vals set_vals] in A. rewrite upd_same in A.
    destruct (In_raw_append _ _ _ _ A) as [Hold|Hnew].
    + apply B. change (inv sa b) with (inv s0 b). apply I; assumption.
    + subst v. destruct T as [Hr [Ho _]]. apply link_registers; assumption.
  - apply B. change (inv sa b) with (inv s0 b). apply I; [exact T|].
    unfold sa in A. cbn [vals set_vals] in A. rewrite upd_other in A by exact Ne. exact A.
Qed.

Lemma J_coll_extend_full s (x : oid) (f : fid) vs :
  f_many (fd m f) = true -> J m s -> J m (snd (coll_extend_full m s (x, f) vs)).
Proof.
  intros Hm HJ. unfold coll_extend_full. cbv beta iota zeta.
  destruct (forallb (check_elem m f) vs); cbn [negb snd]; [|exact HJ].
  destruct (f_unique (fd m f)) eqn:Hu.
  - eapply J_ext; [|reflexivity|reflexivity].
    revert s HJ. induction vs as [|v vs IH]; intros s HJ; cbn [fold_left]; [exact HJ|].
    apply IH. apply J_extend_iter. exact HJ.
  - set (sa := fold_left (fun acc v => link_elem m acc x f v) vs s).
    eapply J_ext; [|reflexivity|reflexivity].
    apply (good_J m s); [|exact HJ].
    eapply good_trans; [apply (good_fold_link x f vs s)|]. fold sa.
    apply good_set_vals.
    + cbn [snd]. intros C. congruence.
    + cbn [snd]. intros b T. pose proof (tracked_many_unique m f T Hm). congruence.
Qed.

(* ---------- c[i] = v, del c[i], x.f = [...], del x.f ---------- *)
Lemma J_coll_setitem_full s (x : oid) (f : fid) i v :
  f_many (fd m f) = true -> J m s -> J m (snd (coll_setitem_full m s (x, f) i v)).
Proof.
  intros Hm HJ. unfold coll_setitem_full. cbv beta iota zeta.
  destruct (check_elem m f v); cbn [negb]; [|exact HJ].
  destruct (f_unique (fd m f)) eqn:Hu.
  - destruct ((i <? 0)%Z && ((if (i <? 0)%Z then (zlen (vals s (x, f)) + i)%Z else i) <? 0)%Z); [exact HJ|].
    unfold seq_outcome.
    pose proof (good_J m s _ (good_coll_pop_full s x f (if (i <? 0)%Z then (zlen (vals s (x, f)) + i)%Z else i) Hm) HJ) as Hp.
    destruct (fst (coll_pop_full m s (x, f) (if (i <? 0)%Z then (zlen (vals s (x, f)) + i)%Z else i))) as [[e|] s1];
      cbn [snd] in *; [exact Hp|].
    apply J_coll_add_full. exact Hp.
  - set (s1 := link_elem m s x f v).
    assert (J1 : J m s1) by (apply (good_J m s); [apply good_link_elem | exact HJ]).
    destruct (norm_index (zlen (vals s1 (x, f))) i) as [n|]; cbn [snd]; [|exact J1].
    eapply J_ext; [|reflexivity|reflexivity].
    apply (good_J m s1); [|exact J1]. apply good_set_vals.
    + cbn [snd]. intros C. congruence.
    + cbn [snd]. intros b T. pose proof (tracked_many_unique m f T Hm). congruence.
Qed.

Lemma J_coll_delitem_full s (x : oid) (f : fid) i :
  f_many (fd m f) = true -> J m s -> J m (snd (coll_delitem_full m s (x, f) i)).
Proof.
  intros Hm HJ. unfold coll_delitem_full. cbn [snd].
  destruct (f_unique (fd m f)) eqn:Hu.
  - apply (good_J m s); [apply good_coll_pop_full; exact Hm | exact HJ].
  - destruct (py_pop i (vals s (x, f))) as [[w l']|]; cbn [snd]; [|exact HJ].
    apply (good_J m s); [|exact HJ]. apply good_set_vals.
    + cbn [snd]. intros C. congruence.
    + cbn [snd]. intros b T. pose proof (tracked_many_unique m f T Hm). congruence.
Qed.

Lemma J_assign_full s (x : oid) (f : fid) vs :
  f_many (fd m f) = true -> J m s -> J m (snd (assign_full m s (x, f) vs)).
Proof.
  intros Hm HJ. unfold assign_full. cbn [snd].
  destruct (forallb (check_elem m f) vs); cbn [negb snd]; [|exact HJ].
  apply J_coll_extend_full; [exact Hm|].
  apply (good_J m s); [apply good_coll_clear_full | exact HJ].
Qed.

Lemma J_del_full s (x : oid) (f : fid) : J m s -> J m (snd (del_full m s (x, f))).
Proof.
  intros HJ. unfold del_full. cbn [snd]. destruct (f_many (fd m f)); cbn [snd].
  - apply (good_J m s); [apply good_coll_clear_full | exact HJ].
  - apply J_set_full. exact HJ.
Qed.

(* ---------- x.delete() ---------- *)
Lemma good_delete_step (x : oid) s (k : cell) : good m s (delete_step m x s k).
Proof.
  destruct k as [owner f]. unfold delete_step. destruct (f_many (fd m f)) eqn:Hm.
  - destruct (owner =? x); [apply good_coll_clear_full|].
    destruct (vmem (VObj x) (vals s (owner, f))); [apply good_coll_remove_full; exact Hm | apply good_refl].
  - destruct ((match single s (owner, f) with VObj y => y =? x | _ => false end) || (owner =? x));
      [apply good_set_full; left; reflexivity | apply good_refl].
Qed.

Lemma good_fold_delete_step (x : oid) l s : good m s (fold_left (delete_step m x) l s).
Proof.
  revert s; induction l as [|k l IH]; intros s; cbn [fold_left]; [apply good_refl|].
  eapply good_trans; [apply good_delete_step | apply IH].
Qed.

Lemma good_delete_obj fuel s (x : oid) r : good m s (delete_obj fuel m s x r).
Proof.
  revert s x r; induction fuel as [|fu IH]; intros s x r; cbn [delete_obj]; [apply good_refl|].
  eapply good_trans; [|apply good_fold_delete_step].
  destruct r; [|apply good_refl].
  generalize (econtents m s x). intros l. revert s.
  induction l as [|c l IHl]; intros s; cbn [fold_left]; [apply good_refl|].
  eapply good_trans; [apply IH | apply IHl].
Qed.

(* ---------- resources ---------- *)
Lemma good_res_append s r (o : oid) : good m s (res_append m s r o).
Proof.
  unfold res_append.
  assert (G : forall s0,
     good m s0 (let s1 := set_eres (set_rcont s0 r (rcont s0 r ++ [o])) o (Some r) in
            match cont s1 o with
            | Some (p, pf) =>
              if f_many (fd m pf)
              then (if vmem (VObj o) (vals s1 (p, pf)) then coll_remove_full m s1 (p, pf) (VObj o) else s1)
              else snd (set_full m s1 (p, pf) VNone)
            | None => s1 end)).
  { intros s0. cbv zeta. set (s1 := set_eres (set_rcont s0 r (rcont s0 r ++ [o])) o (Some r)).
    assert (H1 : good m s0 s1) by (apply good_frame; [reflexivity | tauto]).
    eapply good_trans; [exact H1|].
    destruct (cont s1 o) as [[p pf]|]; [|apply good_refl].
    destruct (f_many (fd m pf)) eqn:Hm.
    - destruct (vmem (VObj o) (vals s1 (p, pf))); [apply good_coll_remove_full; exact Hm | apply good_refl].
    - apply good_set_full. left. reflexivity. }
  assert (HR : forall p, good m s (res_remove_raw s p o)) by (intros p; apply good_frame; [reflexivity | tauto]).
  destruct (eres s o) as [p|]; [|apply G].
  destruct (nmem o (rcont s p)); [|apply G].
  destruct (p =? r); [apply good_refl|]. eapply good_trans; [apply HR | apply G].
Qed.

(* ---------- every operation ---------- *)
Theorem J_step s o : J m s -> op_fits m o -> J m (next m s o).
Proof.
  intros HJ Ho. unfold next, step.
  destruct o as [x f v|x f|x f|x f vs|x f v|x f i v|x f v|x f i|x f|x f vs|x f i v|x f i|x r|r o|r o|r os|x f];
    cbn [fst snd]; cbn [op_fits] in Ho.
  - destruct (f_many (fd m f)); [exact HJ | apply J_set_full; exact HJ].
  - destruct (f_many (fd m f)); [exact HJ | apply J_set_full; exact HJ].
  - apply J_del_full; exact HJ.
  - destruct (f_many (fd m f)) eqn:Hm; [apply J_assign_full; assumption | exact HJ].
  - apply J_coll_add_full; exact HJ.
  - apply J_coll_add_full; exact HJ.
  - unfold coll_remove_top. destruct (vmem v (vals s (x, f))); cbn [snd]; [|exact HJ].
    apply (good_J m s); [apply good_coll_remove_full; exact Ho | exact HJ].
  - apply (good_J m s); [apply good_coll_pop_full; exact Ho | exact HJ].
  - apply (good_J m s); [apply good_coll_clear_full | exact HJ].
  - apply J_coll_extend_full; assumption.
  - apply J_coll_setitem_full; assumption.
  - apply J_coll_delitem_full; assumption.
  - apply (good_J m s); [apply good_delete_obj | exact HJ].
  - apply (good_J m s); [apply good_res_append | exact HJ].
  - unfold res_remove. destruct (nmem o (rcont s r)); cbn [snd]; [|exact HJ].
    apply (good_J m s); [apply good_frame; [reflexivity | tauto] | exact HJ].
  - revert s HJ. induction os as [|o os IH]; intros s HJ; cbn [fold_left]; [exact HJ|].
    apply IH. apply (good_J m s); [apply good_res_append | exact HJ].
  - exact HJ.
Qed.

Theorem J_history_from ops s : J m s -> Forall (op_fits m) ops -> J m (fold_left (next m) ops s).
Proof.
  revert s; induction ops as [|o ops IH]; intros s HJ Hok; cbn [fold_left]; [exact HJ|].
  inversion Hok; subst. apply IH; [apply J_step; assumption | assumption].
Qed.

Lemma J_init : ref_defaults_none m -> J m (init_state m).
Proof.
  intros Hd. split.
  - intros a f _. cbn [vals init_state snd]. destruct (f_many (fd m f)); [constructor | apply nodup_single].
  - intros a f b [Hr [_ _]]. cbn [vals init_state snd].
    destruct (f_many (fd m f)) eqn:Hm; [intros []|].
    rewrite (Hd f Hr Hm). intros [E|[]]. discriminate.
Qed.

Theorem inv_ok_step s o : uniq_ok m s -> inv_ok m s -> op_fits m o -> inv_ok m (next m s o).
Proof. intros U I Ho. exact (proj2 (J_step s o (conj U I) Ho)). Qed.

Theorem inv_ok_history ops :
  ref_defaults_none m -> Forall (op_fits m) ops ->
  inv_ok m (fold_left (next m) ops (init_state m)).
Proof. intros Hd Hok. exact (proj2 (J_history_from ops _ (J_init Hd) Hok)). Qed.

Theorem uniq_ok_history ops :
  ref_defaults_none m -> Forall (op_fits m) ops ->
  uniq_ok m (fold_left (next m) ops (init_state m)).
Proof. intros Hd Hok. exact (proj1 (J_history_from ops _ (J_init Hd) Hok)). Qed.

End Ops.

(* ------------------------------------------------------------------ *)
(* value-store equations of the removal procedures, with or without     *)
(* containment                                                          *)
(* ------------------------------------------------------------------ *)
Section Stores.
Variable m : mm.

Lemma vals_set_none_raw_g s k : vals (set_none_raw m s k) = upd (vals s) k [VNone].
Proof. unfold set_none_raw. destruct (f_isref (fd m (snd k))); [rewrite (vals_uc_clear' m)|]; reflexivity. Qed.

Lemma vals_coll_remove_raw_g s k y :
  vals (coll_remove_raw m s k y) =
  if vmem (VObj y) (vals s k) then upd (vals s) k (raw_remove (VObj y) (vals s k)) else vals s.
Proof.
  unfold coll_remove_raw. destruct (vmem (VObj y) (vals s k)); [|reflexivity].
  cbn [vals notify push_log set_vals]. rewrite (vals_uc_clear' m). reflexivity.
Qed.

Lemma vals_unlink_g s (x : oid) (f : fid) v : vals (unlink_elem m s x f v) = Uval m (vals s) x f v.
Proof.
  unfold unlink_elem, Uval. destruct (f_isref (fd m f)); [|reflexivity].
  destruct (obj_of v) as [y|]; [|reflexivity].
  unfold update_opposite_remove. destruct (f_opp (fd m f)) as [g|].
  - destruct (f_many (fd m g)).
    + destruct (cell_eqb (y, g) (x, f)); [apply (vals_uc_clear' m)|].
      rewrite vals_coll_remove_raw_g. rewrite (vals_uc_clear' m).
      destruct (vmem (VObj x) (vals s (y, g))); reflexivity.
    + rewrite vals_set_none_raw_g, (vals_uc_clear' m). reflexivity.
  - destruct (cmem (x, f) (inv (uc_clear m s f (Some y)) y)); [|rewrite vals_inv_add'];
      cbn [vals inv_del set_inv]; apply (vals_uc_clear' m).
Qed.

Lemma vals_set_none_full_g s (o : oid) (h : fid) :
  vals (set_none_full m s (o, h)) =
    let V1 := upd (vals s) (o, h) [VNone] in
    if negb (f_isref (fd m h)) then V1 else
    match f_opp (fd m h), obj_of (single s (o, h)) with
    | Some g, Some q =>
      if f_many (fd m g) then
        (if vmem (VObj o) (V1 (q, g)) then upd V1 (q, g) (raw_remove (VObj o) (V1 (q, g))) else V1)
      else if cell_eqb (q, g) (o, h) then V1 else upd V1 (q, g) [VNone]
    | _, _ => V1
    end.
Proof.
  unfold set_none_full. cbv beta iota zeta.
  destruct (f_isref (fd m h)); cbn [negb]; [|reflexivity].
  destruct (f_opp (fd m h)) as [g|].
  - destruct (obj_of (single s (o, h))) as [q|]; [|rewrite (vals_uc_clear' m); reflexivity].
    destruct (f_many (fd m g)).
    + rewrite vals_coll_remove_raw_g, (vals_uc_clear' m). reflexivity.
    + destruct (cell_eqb (q, g) (o, h)); [rewrite (vals_uc_clear' m); reflexivity|].
      rewrite vals_set_none_raw_g, (vals_uc_clear' m). reflexivity.
  - destruct (obj_of (single s (o, h))); cbn [vals inv_del set_inv]; rewrite (vals_uc_clear' m); reflexivity.
Qed.

(* what happens to a slot when x leaves it: a collection loses x, a single slot falls back to None *)
Definition Ex (x : oid) (f : fid) (l : list value) : list value :=
  if f_many (fd m f) then raw_remove (VObj x) l
  else if vmem (VObj x) l then [VNone] else l.

Definition cellrel (x : oid) (f : fid) (l l' : list value) : Prop := l' = l \/ l' = Ex x f l.

Lemma raw_remove_notin x l : ~ In (VObj x) l -> raw_remove (VObj x) l = l.
Proof.
  intros H. unfold raw_remove.
  assert (E : remove_first veqb (VObj x) l = None).
  { induction l as [|v r IH]; [reflexivity|]. cbn [remove_first].
    destruct (veqb v (VObj x)) eqn:Ev.
    - apply veqb_obj_r in Ev. subst v. exfalso. apply H. left. reflexivity.
    - rewrite IH; [reflexivity | intros Hr; apply H; right; exact Hr]. }
  rewrite E. reflexivity.
Qed.

Lemma Ex_notin x f l : ~ In (VObj x) l -> Ex x f l = l.
Proof.
  intros H. unfold Ex. destruct (f_many (fd m f)); [apply raw_remove_notin; exact H|].
  apply vmem_obj_false in H. rewrite H. reflexivity.
Qed.

Lemma Ex_clean x f l : (f_many (fd m f) = true -> nodup_objs l) -> ~ In (VObj x) (Ex x f l).
Proof.
  intros ND. unfold Ex. destruct (f_many (fd m f)).
  - intros H. exact (raw_remove_obj_neq _ _ _ (ND eq_refl) H eq_refl).
  - destruct (vmem (VObj x) l) eqn:E; [intros [H|[]]; discriminate | apply vmem_obj_false; exact E].
Qed.

Lemma Ex_idem x f l : (f_many (fd m f) = true -> nodup_objs l) -> Ex x f (Ex x f l) = Ex x f l.
Proof. intros ND. apply Ex_notin. apply Ex_clean. exact ND. Qed.

Lemma cellrel_refl x f l : cellrel x f l l.
Proof. left. reflexivity. Qed.

Lemma cellrel_trans x f l1 l2 l3 :
  (f_many (fd m f) = true -> nodup_objs l1) ->
  cellrel x f l1 l2 -> cellrel x f l2 l3 -> cellrel x f l1 l3.
Proof.
  intros ND [H1|H1] [H2|H2]; subst.
  - left; reflexivity.
  - right; reflexivity.
  - right; reflexivity.
  - right. apply Ex_idem. exact ND.
Qed.

(* the same, any number of times *)
Fixpoint iterN {A} (n : nat) (g : A -> A) (a : A) : A :=
  match n with O => a | S k => g (iterN k g a) end.

Definition cellN (x : oid) (f : fid) (l l' : list value) : Prop := exists n, l' = iterN n (Ex x f) l.

Lemma cellN_eq x f l l' : l' = l -> cellN x f l l'.
Proof. intros E. exists 0. exact E. Qed.

Lemma cellN_ex x f l l' : l' = Ex x f l -> cellN x f l l'.
Proof. intros E. exists 1. exact E. Qed.

Lemma iter_plus {A} (g : A -> A) n1 n2 a : iterN n2 g (iterN n1 g a) = iterN (n2 + n1) g a.
Proof. induction n2 as [|n IH]; [reflexivity|]. cbn [iterN Nat.add]. rewrite IH. reflexivity. Qed.

Lemma cellN_trans x f l1 l2 l3 : cellN x f l1 l2 -> cellN x f l2 l3 -> cellN x f l1 l3.
Proof. intros [n1 E1] [n2 E2]. exists (n2 + n1). rewrite E2, E1. apply iter_plus. Qed.

Lemma iter_Ex_notin x f l n : ~ In (VObj x) l -> iterN n (Ex x f) l = l.
Proof. intros H. induction n as [|n IH]; [reflexivity|]. cbn [iterN]. rewrite IH. apply Ex_notin. exact H. Qed.

Lemma iter_Ex_nodup x f l n :
  (f_many (fd m f) = true -> nodup_objs l) -> cellrel x f l (iterN n (Ex x f) l).
Proof.
  intros ND. induction n as [|n IH]; [left; reflexivity|]. cbn [iterN]. right.
  destruct IH as [E|E]; rewrite E; [reflexivity | apply Ex_idem; exact ND].
Qed.

Lemma iter_Ex_single x f l n :
  f_many (fd m f) = false -> In (VObj x) l -> iterN (S n) (Ex x f) l = [VNone].
Proof.
  intros Hm Hin. induction n as [|n IH].
  - cbn [iterN]. unfold Ex. rewrite Hm. apply vmem_obj in Hin. rewrite Hin. reflexivity.
  - change (iterN (S (S n)) (Ex x f) l) with (Ex x f (iterN (S n) (Ex x f) l)). rewrite IH.
    apply Ex_notin. intros [E|[]]. discriminate.
Qed.

(* unlinking v from (x0, g) writes at most the cell of v's opposite end *)
Lemma Uval_cell (V : cell -> list value) (x0 : oid) (g : fid) v (a : oid) (f : fid) :
  Uval m V x0 g v (a, f) = V (a, f) \/
  (v = VObj a /\ f_opp (fd m g) = Some f /\
   Uval m V x0 g v (a, f) = if f_many (fd m f) then raw_remove (VObj x0) (V (a, f)) else [VNone]).
Proof.
  unfold Uval. destruct (f_isref (fd m g)); [|left; reflexivity].
  destruct (obj_of v) as [y|] eqn:Ev; [|left; reflexivity]. apply obj_of_Some' in Ev. subst v.
  destruct (f_opp (fd m g)) as [g'|]; [|left; reflexivity].
  destruct (f_many (fd m g')) eqn:Hm.
  - destruct (cell_eqb (y, g') (x0, g)); [left; reflexivity|].
    destruct (vmem (VObj x0) (V (y, g'))); [|left; reflexivity].
    destruct (cell_eqb_spec (y, g') (a, f)) as [E|N].
    + inversion E; subst y g'. right. rewrite upd_same, Hm. repeat split; reflexivity.
    + left. apply upd_other. exact N.
  - destruct (cell_eqb_spec (y, g') (a, f)) as [E|N].
    + inversion E; subst y g'. right. rewrite upd_same, Hm. repeat split; reflexivity.
    + left. apply upd_other. exact N.
Qed.

Lemma fold_unlink_cell (x : oid) (g : fid) (a : oid) (f : fid) L0 l :
  (f_many (fd m f) = false -> f_opp (fd m g) = Some f -> In (VObj a) l -> In (VObj x) L0) ->
  forall acc, cellN x f L0 (vals acc (a, f)) ->
  cellN x f L0 (vals (fold_left (fun acc v => unlink_elem m acc x g v) l acc) (a, f)).
Proof.
  induction l as [|v l IH]; intros Hs acc Hacc; cbn [fold_left]; [exact Hacc|].
  apply IH; [intros Hm Ho Hin; apply Hs; [exact Hm | exact Ho | right; exact Hin]|].
  rewrite vals_unlink_g.
  destruct (Uval_cell (vals acc) x g v a f) as [E|[Ev [Ho E]]]; rewrite E; [exact Hacc|].
  destruct Hacc as [n Hn].
  destruct (f_many (fd m f)) eqn:Hm.
  - exists (S n). cbn [iterN]. rewrite <- Hn. unfold Ex. rewrite Hm. reflexivity.
  - exists (S n). symmetry. apply iter_Ex_single; [exact Hm|].
    apply Hs; [reflexivity | exact Ho | left; exact Ev].
Qed.

Lemma set_none_full_own_clear s (k : cell) b : ~ In (VObj b) (vals (set_none_full m s k) k).
Proof.
  destruct k as [o h]. rewrite vals_set_none_full_g. cbv zeta.
  assert (H1 : ~ In (VObj b) (upd (vals s) (o, h) [VNone] (o, h))).
  { rewrite upd_same. intros [E|[]]. discriminate. }
  destruct (negb (f_isref (fd m h))); [exact H1|].
  destruct (f_opp (fd m h)) as [g|]; [|exact H1].
  destruct (obj_of (single s (o, h))) as [q|]; [|exact H1].
  destruct (f_many (fd m g)).
  - destruct (vmem (VObj o) (upd (vals s) (o, h) [VNone] (q, g))); [|exact H1].
    destruct (cell_eqb_spec (q, g) (o, h)) as [E|N].
    + rewrite E, upd_same. intros H. apply In_raw_remove in H. exact (H1 H).
    + rewrite upd_other by exact N. exact H1.
  - destruct (cell_eqb_spec (q, g) (o, h)) as [E|N]; [exact H1|].
    rewrite upd_other by exact N. exact H1.
Qed.

Lemma single_In s k y : single s k = VObj y -> In (VObj y) (vals s k).
Proof. unfold single. destruct (vals s k) as [|v r]; [discriminate | intros ->; left; reflexivity]. Qed.

Lemma filter_notin x l : ~ In (VObj x) l -> filter (fun v => negb (veqb v (VObj x))) l = l.
Proof.
  induction l as [|v r IH]; intros H; [reflexivity|]. cbn [filter].
  destruct (veqb v (VObj x)) eqn:Ev.
  - apply veqb_obj_r in Ev. subst v. exfalso. apply H. left. reflexivity.
  - cbn [negb]. rewrite IH; [reflexivity | intros Hr; apply H; right; exact Hr].
Qed.

Lemma raw_remove_filter x l :
  nodup_objs l -> raw_remove (VObj x) l = filter (fun v => negb (veqb v (VObj x))) l.
Proof.
  unfold nodup_objs, raw_remove. induction l as [|v r IH]; intros ND; [reflexivity|].
  cbn [remove_first filter]. destruct (veqb v (VObj x)) eqn:Ev; cbn [negb].
  - apply veqb_obj_r in Ev. subst v. rewrite objs_of_cons_obj in ND. inversion ND as [|? ? Hn _]; subst.
    symmetry. apply filter_notin. intros H. apply Hn. apply objs_of_In. exact H.
  - assert (ND' : NoDup (objs_of r)).
    { destruct (objs_of_cons_cases v r) as [[z [Ea E1]]|[Ea E1]]; rewrite E1 in ND;
        [inversion ND; assumption | exact ND]. }
    specialize (IH ND'). destruct (remove_first veqb (VObj x) r) as [r'|]; [rewrite IH; reflexivity | f_equal; exact IH].
Qed.

End Stores.

(* ------------------------------------------------------------------ *)
(* x.delete(recursive=False), from any state satisfying the invariants  *)
(* ------------------------------------------------------------------ *)
(* P is any state predicate that gives symmetry of opposites and the shape
   of slots and is preserved by the steps of delete(); Proofs/C01Full.v
   provides one (Inv) for metamodels without containment. *)
Section Delete.
Variable m : mm.
Hypothesis Hwf : wf_opp m.
Variable x : oid.
Variable P : state -> Prop.
Hypothesis P_sym : forall s, P s -> sym m s.
Hypothesis P_shape : forall s, P s -> shape m s.
Hypothesis P_step : forall s k, P s -> P (delete_step m x s k).

(* the references x holds are among eAllReferences of its class *)
Definition declared (s : state) : Prop :=
  forall (g : fid) (b : oid), f_isref (fd m g) = true -> In (VObj b) (vals s (x, g)) -> In g (ref_feats m x).

(* a reference that is single-valued or a unique collection *)
Definition refslot (f : fid) : Prop :=
  f_isref (fd m f) = true /\ (f_many (fd m f) = false \/ f_unique (fd m f) = true).

Definition seek (s : state) : list cell :=
  map (fun f => (x, f)) (ref_feats m x) ++
  filter (fun c => negb (cmem c (map (fun f => (x, f)) (ref_feats m x)))) (inv s x).

Lemma delete_obj_nonrec fuel s :
  delete_obj (S fuel) m s x false = fold_left (delete_step m x) (seek s) s.
Proof. reflexivity. Qed.

Lemma seek_in s (a : oid) (f : fid) : a <> x -> In (a, f) (inv s x) -> In (a, f) (seek s).
Proof.
  intros Na Hin. unfold seek. apply in_or_app. right. apply filter_In. split; [exact Hin|].
  destruct (cmem (a, f) (map (fun f0 => (x, f0)) (ref_feats m x))) eqn:E; [|reflexivity].
  apply cmem_In in E. apply in_map_iff in E. destruct E as [f0 [E0 _]]. inversion E0. congruence.
Qed.

Lemma P_fold l s : P s -> P (fold_left (delete_step m x) l s).
Proof. revert s; induction l as [|k l IH]; intros s H; cbn [fold_left]; [exact H|]. apply IH. apply P_step. exact H. Qed.

Lemma J_fold l s : J m s -> J m (fold_left (delete_step m x) l s).
Proof. intros H. exact (good_J m s _ (good_fold_delete_step m Hwf x l s) H). Qed.

(* the step that handles a cell leaves no x in it *)
Lemma delete_step_removes sa (a : oid) (f : fid) :
  uniq_ok m sa -> shape m sa -> refslot f ->
  ~ In (VObj x) (vals (delete_step m x sa (a, f)) (a, f)).
Proof.
  intros U Hsh [Hr Hmu]. unfold delete_step. destruct (f_many (fd m f)) eqn:Hm.
  - assert (Hu : f_unique (fd m f) = true) by (destruct Hmu; congruence).
    destruct (a =? x).
    + unfold coll_clear_full. destruct (vals sa (a, f)) as [|a0 l0] eqn:El; [rewrite El; intros []|].
      cbn [vals notify push_log set_vals]. rewrite upd_same. intros [].
    + destruct (vmem (VObj x) (vals sa (a, f))) eqn:Ev; [|apply vmem_obj_false; exact Ev].
      change (vals (coll_remove_full m sa (a, f) (VObj x)))
        with (upd (vals (unlink_elem m sa a f (VObj x))) (a, f)
                  (raw_remove (VObj x) (vals (unlink_elem m sa a f (VObj x)) (a, f)))).
      rewrite upd_same. intros H.
      assert (ND : nodup_objs (vals (unlink_elem m sa a f (VObj x)) (a, f))).
      { apply (proj1 (good_ex_unlink_elem m sa a f (VObj x))); [exact Hu | apply U; exact Hu]. }
      exact (raw_remove_obj_neq _ _ _ ND H eq_refl).
  - destruct ((match single sa (a, f) with VObj y => y =? x | _ => false end) || (a =? x)) eqn:Ec.
    + rewrite set_full_none_is_set_none_full. apply set_none_full_own_clear.
    + apply orb_false_iff in Ec. destruct Ec as [Ec _].
      destruct (proj1 (Hsh a f) Hm) as [v Hv]. unfold single in Ec. rewrite Hv in *.
      intros [E|[]]. subst v. rewrite Nat.eqb_refl in Ec. discriminate.
Qed.

(* (a) no reference slot holds x afterwards *)
Theorem delete_no_dangling fuel s (a : oid) (f : fid) :
  P s -> J m s -> declared s -> refslot f ->
  ~ In (VObj x) (vals (delete_obj (S fuel) m s x false) (a, f)).
Proof.
  intros HP HJ Hd Hrs Hin.
  pose proof (delete_only_removes m (S fuel) s x false) as Hshr.
  destruct Hrs as [Hr Hmu].
  destruct (f_opp (fd m f)) as [g|] eqn:Eg.
  - (* bidirectional: a sits in x's own reference g, which delete empties *)
    destruct (Hwf f g Eg) as [Hgf _]. destruct (Hwf g f Hgf) as [_ [Hrg _]].
    assert (HP' : P (delete_obj (S fuel) m s x false)) by (rewrite delete_obj_nonrec; apply P_fold; exact HP).
    pose proof (proj1 (P_sym _ HP' f g Eg a x) Hin) as Hxa. unfold R in Hxa.
    pose proof (Hshr _ _ Hxa) as Hxa0.
    exact (delete_empties_own_references m fuel s x false g a (Hd g a Hrg Hxa0) Hxa).
  - pose proof (Hshr _ _ Hin) as Hin0.
    destruct (Nat.eq_dec a x) as [Ea|Na].
    + subst a. exact (delete_empties_own_references m fuel s x false f x (Hd f x Hr Hin0) Hin).
    + (* found through the inverse entry *)
      assert (T : tracked m f) by (split; [exact Hr | split; [exact Eg | exact Hmu]]).
      pose proof (proj2 HJ a f x T Hin0) as Hi.
      pose proof (seek_in s a f Na Hi) as Hs. apply in_split in Hs. destruct Hs as [l1 [l2 El]].
      rewrite delete_obj_nonrec, El, fold_left_app in Hin. cbn [fold_left] in Hin.
      set (sa := fold_left (delete_step m x) l1 s) in *.
      assert (Ja : J m sa) by (apply J_fold; exact HJ).
      assert (Pa : P sa) by (apply P_fold; exact HP).
      apply (shrinks_fold_delete_step m x l2 (delete_step m x sa (a, f))) in Hin.
      exact (delete_step_removes sa a f (proj1 Ja) (P_shape _ Pa) (conj Hr Hmu) Hin).
Qed.

(* one step of delete() on a slot of another object: nothing, or x leaves it *)
Lemma cond_owner sk (o : oid) (h : fid) q :
  (match single sk (o, h) with VObj y => y =? x | _ => false end) || (o =? x) = true ->
  obj_of (single sk (o, h)) = Some q -> q <> x -> o = x.
Proof.
  intros Ec Eq Nq. apply obj_of_Some' in Eq. rewrite Eq in Ec. apply orb_true_iff in Ec.
  destruct Ec as [Ec|Ec]; apply Nat.eqb_eq in Ec; congruence.
Qed.

Lemma delete_step_cell sk (k : cell) (a : oid) (f : fid) :
  a <> x -> sym m sk ->
  cellN m x f (vals sk (a, f)) (vals (delete_step m x sk k) (a, f)).
Proof.
  intros Na Hsym. destruct k as [o h]. unfold delete_step. destruct (f_many (fd m h)) eqn:Hmh.
  - destruct (Nat.eqb_spec o x) as [Eo|No].
    + subst o. unfold coll_clear_full. destruct (vals sk (x, h)) as [|a0 l0] eqn:El; [apply cellN_eq; reflexivity|].
      rewrite <- El. cbn [vals notify push_log set_vals].
      rewrite upd_other by (intros E; inversion E; congruence).
      apply fold_unlink_cell; [| apply cellN_eq; reflexivity].
      intros _ Ho Hin. exact (proj1 (Hsym h f Ho x a) Hin).
    + destruct (vmem (VObj x) (vals sk (o, h))) eqn:Ev; [|apply cellN_eq; reflexivity].
      change (vals (coll_remove_full m sk (o, h) (VObj x)))
        with (upd (vals (unlink_elem m sk o h (VObj x))) (o, h)
                  (raw_remove (VObj x) (vals (unlink_elem m sk o h (VObj x)) (o, h)))).
      rewrite vals_unlink_g.
      assert (HU : Uval m (vals sk) o h (VObj x) (a, f) = vals sk (a, f)).
      { destruct (Uval_cell m (vals sk) o h (VObj x) a f) as [E|[E _]]; [exact E|]. inversion E. congruence. }
      destruct (cell_eqb_spec (o, h) (a, f)) as [E|N].
      * inversion E; subst o h. rewrite upd_same, HU. apply cellN_ex. unfold Ex. rewrite Hmh. reflexivity.
      * rewrite upd_other by exact N. rewrite HU. apply cellN_eq. reflexivity.
  - destruct ((match single sk (o, h) with VObj y => y =? x | _ => false end) || (o =? x)) eqn:Ec;
      [|apply cellN_eq; reflexivity].
    rewrite set_full_none_is_set_none_full, vals_set_none_full_g. cbv zeta.
    destruct (cell_eqb_spec (o, h) (a, f)) as [E|N].
    + (* the slot itself: it held x and falls back to None *)
      inversion E; subst o h. clear E.
      assert (Hsx : single sk (a, f) = VObj x).
      { apply orb_true_iff in Ec. destruct Ec as [Ec|Ec]; [|apply Nat.eqb_eq in Ec; congruence].
        destruct (single sk (a, f)); try discriminate. apply Nat.eqb_eq in Ec. congruence. }
      assert (Hres : Ex m x f (vals sk (a, f)) = [VNone]).
      { unfold Ex. rewrite Hmh. pose proof (single_In sk (a, f) x Hsx) as Hi. apply vmem_obj in Hi.
        rewrite Hi. reflexivity. }
      apply cellN_ex. rewrite Hres. rewrite Hsx. cbn [obj_of].
      assert (H1 : upd (vals sk) (a, f) [VNone] (a, f) = [VNone]) by apply upd_same.
      assert (Nx : forall g, (x, g) <> (a, f)) by (intros g E; inversion E; congruence).
      destruct (negb (f_isref (fd m f))); [exact H1|].
      destruct (f_opp (fd m f)) as [g|]; [|exact H1].
      destruct (f_many (fd m g)).
      * destruct (vmem (VObj a) (upd (vals sk) (a, f) [VNone] (x, g))); [|exact H1].
        rewrite upd_other by apply Nx. exact H1.
      * destruct (cell_eqb (x, g) (a, f)); [exact H1|]. rewrite upd_other by apply Nx. exact H1.
    + assert (H1 : upd (vals sk) (o, h) [VNone] (a, f) = vals sk (a, f)) by (apply upd_other; exact N).
      destruct (negb (f_isref (fd m h))); [apply cellN_eq; exact H1|].
      destruct (f_opp (fd m h)) as [g|] eqn:Eg; [|apply cellN_eq; exact H1].
      destruct (obj_of (single sk (o, h))) as [q|] eqn:Eq; [|apply cellN_eq; exact H1].
      destruct (f_many (fd m g)) eqn:Hmg.
      * destruct (vmem (VObj o) (upd (vals sk) (o, h) [VNone] (q, g))); [|apply cellN_eq; exact H1].
        destruct (cell_eqb_spec (q, g) (a, f)) as [E2|N2].
        -- inversion E2; subst q g. rewrite upd_same, H1.
           rewrite (cond_owner sk o h a Ec Eq Na). apply cellN_ex. unfold Ex. rewrite Hmg. reflexivity.
        -- rewrite upd_other by exact N2. apply cellN_eq. exact H1.
      * destruct (cell_eqb (q, g) (o, h)); [apply cellN_eq; exact H1|].
        destruct (cell_eqb_spec (q, g) (a, f)) as [E2|N2].
        -- inversion E2; subst q g. rewrite upd_same. apply cellN_ex.
           pose proof (cond_owner sk o h a Ec Eq Na) as Eo. subst o.
           apply obj_of_Some' in Eq. pose proof (single_In sk (x, h) a Eq) as Hxa.
           pose proof (proj1 (Hsym h f Eg x a) Hxa) as Hax. unfold R in Hax.
           unfold Ex. rewrite Hmg. apply vmem_obj in Hax. rewrite Hax. reflexivity.
        -- rewrite upd_other by exact N2. apply cellN_eq. exact H1.
Qed.

Lemma fold_delete_cell (a : oid) (f : fid) L0 :
  a <> x ->
  forall l sk, P sk -> cellN m x f L0 (vals sk (a, f)) ->
  cellN m x f L0 (vals (fold_left (delete_step m x) l sk) (a, f)).
Proof.
  intros Na. induction l as [|k l IH]; intros sk HP Hc; cbn [fold_left]; [exact Hc|].
  apply IH.
  - apply P_step. exact HP.
  - apply (cellN_trans m x f L0 (vals sk (a, f))); [exact Hc|].
    apply delete_step_cell; [exact Na | apply P_sym; exact HP].
Qed.

(* (b) every slot of another object has lost x some number of times, nothing else *)
Theorem delete_frame_iter fuel s (a : oid) (f : fid) :
  P s -> a <> x ->
  cellN m x f (vals s (a, f)) (vals (delete_obj (S fuel) m s x false) (a, f)).
Proof.
  intros HP Na. rewrite delete_obj_nonrec.
  apply fold_delete_cell; [exact Na | exact HP | apply cellN_eq; reflexivity].
Qed.

Theorem delete_frame_weak fuel s (a : oid) (f : fid) :
  P s -> uniq_ok m s -> a <> x -> (f_many (fd m f) = true -> f_unique (fd m f) = true) ->
  cellrel m x f (vals s (a, f)) (vals (delete_obj (S fuel) m s x false) (a, f)).
Proof.
  intros HP U Na Hmu. destruct (delete_frame_iter fuel s a f HP Na) as [n E]. rewrite E.
  apply iter_Ex_nodup. intros Hm. apply U. apply Hmu. exact Hm.
Qed.

Theorem delete_frame fuel s (a : oid) (f : fid) :
  P s -> J m s -> declared s -> a <> x -> refslot f ->
  vals (delete_obj (S fuel) m s x false) (a, f) = Ex m x f (vals s (a, f)).
Proof.
  intros HP HJ Hd Na Hrs.
  assert (Hmu : f_many (fd m f) = true -> f_unique (fd m f) = true).
  { intros Hm. destruct Hrs as [_ [H|H]]; congruence. }
  destruct (delete_frame_weak fuel s a f HP (proj1 HJ) Na Hmu) as [E|E]; [|exact E].
  pose proof (delete_no_dangling fuel s a f HP HJ Hd Hrs) as Hn. rewrite E in Hn.
  rewrite E. symmetry. apply Ex_notin. exact Hn.
Qed.

(* readable forms *)
Theorem delete_frame_many fuel s (a : oid) (f : fid) :
  P s -> J m s -> declared s -> a <> x ->
  f_isref (fd m f) = true -> f_many (fd m f) = true -> f_unique (fd m f) = true ->
  vals (delete_obj (S fuel) m s x false) (a, f) =
  filter (fun v => negb (veqb v (VObj x))) (vals s (a, f)).
Proof.
  intros HP HJ Hd Na Hr Hm Hu.
  rewrite (delete_frame fuel s a f HP HJ Hd Na (conj Hr (or_intror Hu))).
  unfold Ex. rewrite Hm. apply raw_remove_filter. apply (proj1 HJ). exact Hu.
Qed.

Theorem delete_frame_single fuel s (a : oid) (f : fid) :
  P s -> J m s -> declared s -> a <> x ->
  f_isref (fd m f) = true -> f_many (fd m f) = false ->
  vals (delete_obj (S fuel) m s x false) (a, f) =
  if vmem (VObj x) (vals s (a, f)) then [VNone] else vals s (a, f).
Proof.
  intros HP HJ Hd Na Hr Hm.
  rewrite (delete_frame fuel s a f HP HJ Hd Na (conj Hr (or_introl Hm))).
  unfold Ex. rewrite Hm. reflexivity.
Qed.

(* any slot of another object (attributes and non-unique collections included) that did not
   hold x is unchanged *)
Theorem delete_frame_unrelated fuel s (a : oid) (f : fid) :
  P s -> a <> x -> ~ In (VObj x) (vals s (a, f)) ->
  vals (delete_obj (S fuel) m s x false) (a, f) = vals s (a, f).
Proof.
  intros HP Na Hn. destruct (delete_frame_iter fuel s a f HP Na) as [n E]. rewrite E.
  apply iter_Ex_notin. exact Hn.
Qed.

(* (c) the deleted object has no container left, once ownership is known to hold afterwards *)
Theorem delete_uncontained fuel s :
  P s -> J m s -> declared s ->
  (forall f, f_cont (fd m f) = true -> refslot f) ->
  own_ok m (delete_obj (S fuel) m s x false) ->
  cont (delete_obj (S fuel) m s x false) x = None.
Proof.
  intros HP HJ Hd Hc Hown.
  destruct (cont (delete_obj (S fuel) m s x false) x) as [[p f]|] eqn:E; [|reflexivity].
  exfalso. apply Hown in E. destruct E as [Hcf Hin].
  exact (delete_no_dangling fuel s p f HP HJ Hd (Hc f Hcf) Hin).
Qed.

End Delete.

(* ------------------------------------------------------------------ *)
(* recursive delete = the non-recursive part run on a sequence of objects *)
(* ------------------------------------------------------------------ *)
Section DeleteSeq.
Variable m : mm.
Hypothesis Hwf : wf_opp m.
Variable P : state -> Prop.
Hypothesis P_sym : forall s, P s -> sym m s.
Hypothesis P_shape : forall s, P s -> shape m s.
Hypothesis P_step : forall x s k, P s -> P (delete_step m x s k).

Definition nonrec (acc : state) (d : oid) : state := delete_obj 1 m acc d false.

(* every stored reference is a reference of its holder's class *)
Definition decl_ok (s : state) : Prop :=
  forall (a : oid) (g : fid) (b : oid),
    f_isref (fd m g) = true -> In (VObj b) (vals s (a, g)) -> In g (ref_feats m a).

Lemma decl_ok_shrinks s s' : shrinks s s' -> decl_ok s -> decl_ok s'.
Proof. intros Hs Hd a g b Hr Hin. apply (Hd a g b Hr). apply Hs. exact Hin. Qed.

(* the objects on which delete() runs its own part, in order *)
Fixpoint deleted (fuel : nat) (s : state) (x : oid) (r : bool) : list oid :=
  match fuel with
  | O => []
  | S fu =>
    (if r then
       snd (fold_left (fun (p : state * list oid) c =>
                         (delete_obj fu m (fst p) c true, snd p ++ deleted fu (fst p) c true))
                      (econtents m s x) (s, []))
     else []) ++ [x]
  end.

Lemma delete_obj_trace fuel : forall s x r,
  delete_obj fuel m s x r = fold_left nonrec (deleted fuel s x r) s.
Proof.
  induction fuel as [|fu IH]; intros s x r; [reflexivity|].
  cbn [delete_obj deleted]. rewrite (fold_left_app nonrec _ [x]). cbn [fold_left].
  set (F := fun (p : state * list oid) c =>
              (delete_obj fu m (fst p) c true, snd p ++ deleted fu (fst p) c true)).
  assert (G : forall l acc D0, fold_left nonrec D0 s = acc ->
            fold_left nonrec (snd (fold_left F l (acc, D0))) s =
            fold_left (fun a c => delete_obj fu m a c true) l acc).
  { induction l as [|c l IHl]; intros acc D0 H0; cbn [fold_left]; [exact H0|].
    unfold F at 2. cbn [fst snd]. apply IHl.
    rewrite fold_left_app, H0. symmetry. apply IH. }
  destruct r.
  - rewrite (G (econtents m s x) s [] eq_refl). reflexivity.
  - reflexivity.
Qed.

Lemma deleted_self fuel s x r : In x (deleted (S fuel) s x r).
Proof. cbn [deleted]. apply in_or_app. right. left. reflexivity. Qed.

Lemma seq_invariants D : forall s,
  P s -> J m s -> decl_ok s ->
  P (fold_left nonrec D s) /\ J m (fold_left nonrec D s) /\ decl_ok (fold_left nonrec D s) /\
  shrinks s (fold_left nonrec D s).
Proof.
  induction D as [|d D IH]; intros s HP HJ Hd; cbn [fold_left].
  - split; [exact HP | split; [exact HJ | split; [exact Hd | apply shrinks_refl]]].
  - assert (HP1 : P (nonrec s d)).
    { unfold nonrec. rewrite delete_obj_nonrec. apply P_fold; [apply P_step | exact HP]. }
    assert (HJ1 : J m (nonrec s d)) by (apply (good_J m s); [apply good_delete_obj; exact Hwf | exact HJ]).
    assert (Hs1 : shrinks s (nonrec s d)) by apply delete_only_removes.
    destruct (IH (nonrec s d) HP1 HJ1 (decl_ok_shrinks _ _ Hs1 Hd)) as [A [B [C E]]].
    split; [exact A | split; [exact B | split; [exact C | eapply shrinks_trans; eassumption]]].
Qed.

(* no reference slot holds a deleted object *)
Theorem seq_no_dangling D s (d a : oid) (f : fid) :
  P s -> J m s -> decl_ok s -> In d D -> refslot m f ->
  ~ In (VObj d) (vals (fold_left nonrec D s) (a, f)).
Proof.
  intros HP HJ Hd Hin Hrs. apply in_split in Hin. destruct Hin as [D1 [D2 E]]. subst D.
  rewrite fold_left_app. cbn [fold_left].
  destruct (seq_invariants D1 s HP HJ Hd) as [P1 [J1 [Hd1 _]]].
  set (s1 := fold_left nonrec D1 s) in *.
  assert (P2 : P (nonrec s1 d)).
  { unfold nonrec. rewrite delete_obj_nonrec. apply P_fold; [apply P_step | exact P1]. }
  assert (J2 : J m (nonrec s1 d)) by (apply (good_J m s1); [apply good_delete_obj; exact Hwf | exact J1]).
  assert (Hd2 : decl_ok (nonrec s1 d)) by (apply (decl_ok_shrinks s1); [apply delete_only_removes | exact Hd1]).
  destruct (seq_invariants D2 _ P2 J2 Hd2) as [_ [_ [_ Hs]]].
  intros H. apply Hs in H.
  exact (delete_no_dangling m Hwf d P P_sym P_shape (P_step d) 0 s1 a f P1 J1 (fun g b => Hd1 d g b) Hrs H).
Qed.

(* every reference slot of a survivor has exactly lost the deleted objects *)
Theorem seq_frame D : forall s (a : oid) (f : fid),
  P s -> J m s -> decl_ok s -> ~ In a D -> refslot m f ->
  vals (fold_left nonrec D s) (a, f) = fold_left (fun l d => Ex m d f l) D (vals s (a, f)).
Proof.
  induction D as [|d D IH]; intros s a f HP HJ Hd Hn Hrs; cbn [fold_left]; [reflexivity|].
  assert (HP1 : P (nonrec s d)).
  { unfold nonrec. rewrite delete_obj_nonrec. apply P_fold; [apply P_step | exact HP]. }
  assert (HJ1 : J m (nonrec s d)) by (apply (good_J m s); [apply good_delete_obj; exact Hwf | exact HJ]).
  assert (Hd1 : decl_ok (nonrec s d)) by (apply (decl_ok_shrinks s); [apply delete_only_removes | exact Hd]).
  rewrite (IH (nonrec s d) a f HP1 HJ1 Hd1 (fun H => Hn (or_intror H)) Hrs).
  f_equal. unfold nonrec.
  apply (delete_frame m Hwf d P P_sym P_shape (P_step d) 0 s a f HP HJ (fun g b => Hd d g b)); [|exact Hrs].
  intros E. apply Hn. left. symmetry. exact E.
Qed.

Theorem seq_frame_unrelated D : forall s (a : oid) (f : fid),
  P s -> ~ In a D ->
  (forall d, In d D -> ~ In (VObj d) (vals s (a, f))) ->
  vals (fold_left nonrec D s) (a, f) = vals s (a, f).
Proof.
  induction D as [|d D IH]; intros s a f HP Hn Hno; cbn [fold_left]; [reflexivity|].
  assert (HP1 : P (nonrec s d)).
  { unfold nonrec. rewrite delete_obj_nonrec. apply P_fold; [apply P_step | exact HP]. }
  assert (E1 : vals (nonrec s d) (a, f) = vals s (a, f)).
  { unfold nonrec. apply (delete_frame_unrelated m d P P_sym (P_step d) 0 s a f HP).
    - intros E. apply Hn. left. symmetry. exact E.
    - apply Hno. left. reflexivity. }
  rewrite (IH (nonrec s d) a f HP1 (fun H => Hn (or_intror H))).
  - exact E1.
  - intros d' Hd'. rewrite E1. apply Hno. right. exact Hd'.
Qed.

(* the statements for delete_obj itself *)
Theorem delete_rec_no_dangling fuel s x r (d a : oid) (f : fid) :
  P s -> J m s -> decl_ok s -> In d (deleted fuel s x r) -> refslot m f ->
  ~ In (VObj d) (vals (delete_obj fuel m s x r) (a, f)).
Proof. intros. rewrite delete_obj_trace. apply seq_no_dangling; assumption. Qed.

Theorem delete_rec_frame fuel s x r (a : oid) (f : fid) :
  P s -> J m s -> decl_ok s -> ~ In a (deleted fuel s x r) -> refslot m f ->
  vals (delete_obj fuel m s x r) (a, f) =
  fold_left (fun l d => Ex m d f l) (deleted fuel s x r) (vals s (a, f)).
Proof. intros. rewrite delete_obj_trace. apply seq_frame; assumption. Qed.

Theorem delete_rec_frame_unrelated fuel s x r (a : oid) (f : fid) :
  P s -> ~ In a (deleted fuel s x r) ->
  (forall d, In d (deleted fuel s x r) -> ~ In (VObj d) (vals s (a, f))) ->
  vals (delete_obj fuel m s x r) (a, f) = vals s (a, f).
Proof. intros. rewrite delete_obj_trace. apply seq_frame_unrelated; assumption. Qed.

End DeleteSeq.

(* ------------------------------------------------------------------ *)
(* stored references are declared references of their holder, along     *)
(* every history of applicable operations                               *)
(* ------------------------------------------------------------------ *)
Section Declared.
Variable m : mm.

(* the class at the other end of a bidirectional reference owns the opposite feature *)
Definition wf_typed : Prop :=
  forall f g, f_opp (fd m f) = Some g ->
    g < length (feats m) /\ f_isref (fd m g) = true /\ f_type (fd m f) = TClass (f_owner (fd m g)).

Hypothesis Hty : wf_typed.

Definition dmono (s s' : state) : Prop :=
  forall (a : oid) (g : fid) (b : oid), f_isref (fd m g) = true ->
    In (VObj b) (vals s' (a, g)) -> In (VObj b) (vals s (a, g)) \/ In g (ref_feats m a).

Lemma dmono_refl s : dmono s s.
Proof. intros a g b _ H. left. exact H. Qed.

Lemma dmono_trans s1 s2 s3 : dmono s1 s2 -> dmono s2 s3 -> dmono s1 s3.
Proof.
  intros H1 H2 a g b Hr H. destruct (H2 a g b Hr H) as [H'|H']; [apply H1; assumption | right; exact H'].
Qed.

Lemma dmono_shrinks s s' : shrinks s s' -> dmono s s'.
Proof. intros Hs a g b _ H. left. apply Hs. exact H. Qed.

Lemma dmono_decl_ok s s' : dmono s s' -> decl_ok m s -> decl_ok m s'.
Proof. intros H Hd a g b Hr Hin. destruct (H a g b Hr Hin) as [H'|H']; [exact (Hd a g b Hr H') | exact H']. Qed.

Lemma dmono_ext s s1 s2 : dmono s s1 -> (forall k, vals s2 k = vals s1 k) -> dmono s s2.
Proof. intros H E a g b Hr Hin. rewrite E in Hin. exact (H a g b Hr Hin). Qed.

Definition declared_cell (k : cell) : Prop := f_isref (fd m (snd k)) = true -> In (snd k) (ref_feats m (fst k)).

Lemma dmono_set_vals s (k : cell) l :
  (forall b, In (VObj b) l -> In (VObj b) (vals s k) \/ declared_cell k) -> dmono s (set_vals s k l).
Proof.
  intros H a g b Hr. cbn [vals set_vals]. unfold upd. destruct (cell_eqb_spec k (a, g)) as [E|N]; [|tauto].
  subst k. intros Hin. destruct (H b Hin) as [H'|H']; [left; exact H' | right; exact (H' Hr)].
Qed.

Lemma dmono_set_store s (k : cell) v : obj_of v = None \/ declared_cell k -> dmono s (set_store m s k v).
Proof.
  intros H. apply (dmono_ext s (set_vals s k [v])); [|reflexivity].
  apply dmono_set_vals. intros b [E|[]]. subst v. destruct H as [H|H]; [discriminate | right; exact H].
Qed.

Lemma shrinks_remove_or_unset s (k : cell) y : shrinks s (remove_or_unset m s k y).
Proof.
  unfold remove_or_unset. destruct (f_many (fd m (snd k))).
  - destruct (vmem (VObj y) (vals s k)); [apply shrinks_coll_remove_full | apply shrinks_refl].
  - apply shrinks_set_none_full.
Qed.

Lemma shrinks_update_container s (x : oid) (f : fid) v p : shrinks s (update_container m s x f v p).
Proof.
  unfold update_container.
  destruct (f_cont (fd m f)) eqn:Hc; cbn [negb]; [|apply shrinks_refl].
  match goal with |- shrinks s (match p with Some _ => _ | None => ?S1 end) => set (s1 := S1) end.
  assert (H1 : shrinks s s1).
  { unfold s1. destruct v as [y|]; [|apply shrinks_refl]. cbv zeta.
    set (sa := match eresource_of m s y with
               | Some r => if nmem y (rcont s r) then res_remove_raw s r y else s
               | None => s end).
    assert (Ha : shrinks s sa).
    { unfold sa. destruct (eresource_of m s y); [|apply shrinks_refl].
      destruct (nmem y (rcont s r)); [apply shrinks_ext; reflexivity | apply shrinks_refl]. }
    set (sb := match cont sa y with
               | Some (p0, pf) => if negb ((p0 =? x) && (pf =? f)) then remove_or_unset m sa (p0, pf) y else sa
               | None => sa end).
    assert (Hb : shrinks sa sb).
    { unfold sb. destruct (cont sa y) as [[p0 pf]|]; [|apply shrinks_refl].
      destruct (negb ((p0 =? x) && (pf =? f))); [apply shrinks_remove_or_unset | apply shrinks_refl]. }
    eapply shrinks_trans; [exact Ha|]. eapply shrinks_trans; [exact Hb | apply shrinks_ext; reflexivity]. }
  destruct p as [p|]; [|exact H1].
  destruct v as [y|]; [destruct (y =? p); [exact H1|] |];
    (eapply shrinks_trans; [exact H1 | apply shrinks_ext; reflexivity]).
Qed.

Lemma dmono_set_obj_raw s (k : cell) x : declared_cell k -> dmono s (set_obj_raw m s k x).
Proof.
  intros D. unfold set_obj_raw.
  assert (H1 : dmono s (set_store m s k (VObj x))) by (apply dmono_set_store; right; exact D).
  destruct (f_isref (fd m (snd k))); [|exact H1].
  eapply dmono_trans; [exact H1 | apply dmono_shrinks; apply shrinks_update_container].
Qed.

Lemma dmono_coll_append_raw s (k : cell) x : declared_cell k -> dmono s (coll_append_raw m s k x).
Proof.
  intros D. unfold coll_append_raw.
  set (s1 := update_container m s (fst k) (snd k) (Some x) None).
  eapply dmono_trans; [apply dmono_shrinks; apply shrinks_update_container|]. fold s1.
  apply (dmono_ext s1 (set_vals s1 k (raw_append (f_unique (fd m (snd k))) (VObj x) (vals s1 k)))); [|reflexivity].
  apply dmono_set_vals. intros b Hb. destruct (In_raw_append _ _ _ _ Hb) as [H|H]; [left; exact H | right; exact D].
Qed.

(* the value's class owns the opposite feature, by the type check *)
Lemma opp_declared (f g : fid) (y : oid) :
  f_opp (fd m f) = Some g -> conforms m (f_type (fd m f)) (VObj y) = true -> declared_cell (y, g).
Proof.
  intros Ho Hc _. cbn [fst snd]. destruct (Hty f g Ho) as [Hlt [Hr Ht]]. rewrite Ht in Hc.
  apply ref_feats_spec. split; [exact Hlt|]. split; [|exact Hr].
  unfold applicable. apply andb_true_iff. split; [apply Nat.ltb_lt; exact Hlt|].
  cbn [conforms] in Hc. apply andb_true_iff in Hc. exact (proj2 Hc).
Qed.

Lemma dmono_update_opposite_add s (x : oid) (f : fid) (y : oid) :
  (forall g, f_opp (fd m f) = Some g -> declared_cell (y, g)) -> dmono s (update_opposite_add m s x f y).
Proof.
  intros D. unfold update_opposite_add. destruct (f_opp (fd m f)) as [g|] eqn:Eg.
  - specialize (D g eq_refl). destruct (f_many (fd m g)).
    + destruct (cell_eqb (y, g) (x, f)); [apply dmono_refl | apply dmono_coll_append_raw; exact D].
    + eapply dmono_trans; [|apply dmono_set_obj_raw; exact D].
      destruct (obj_of (single s (y, g))) as [c|]; [|apply dmono_refl].
      destruct (c =? x); [apply dmono_refl | apply dmono_shrinks; apply shrinks_coll_remove_raw].
  - apply dmono_shrinks. apply shrinks_inv_add.
Qed.

Lemma dmono_link_elem s (x : oid) (f : fid) v :
  (forall y, v = VObj y -> conforms m (f_type (fd m f)) (VObj y) = true) -> dmono s (link_elem m s x f v).
Proof.
  intros Hc. unfold link_elem. destruct (f_isref (fd m f)); [|apply dmono_refl].
  destruct (obj_of v) as [y|] eqn:Ev; [|apply dmono_refl]. apply obj_of_Some' in Ev.
  eapply dmono_trans; [apply dmono_shrinks; apply shrinks_update_container|].
  apply dmono_update_opposite_add. intros g Hg. apply (opp_declared f g y Hg). apply Hc. exact Ev.
Qed.

Lemma check_elem_obj f y : check_elem m f (VObj y) = true -> conforms m (f_type (fd m f)) (VObj y) = true.
Proof. intros H. exact H. Qed.

Lemma dmono_set_full s (x : oid) (f : fid) v :
  obj_of v = None \/ declared_cell (x, f) -> dmono s (snd (set_full m s (x, f) v)).
Proof.
  intros H. unfold set_full. cbv beta iota zeta.
  destruct (check_single m f v) eqn:Hchk; cbn [negb snd]; [|apply dmono_refl].
  set (s1 := set_store m s (x, f) v).
  assert (H1 : dmono s s1) by (apply dmono_set_store; exact H).
  destruct (f_isref (fd m f)); cbn [negb snd]; [|exact H1].
  set (s2 := update_container m s1 x f (obj_of v) (obj_of (single s (x, f)))).
  assert (H2 : dmono s s2).
  { eapply dmono_trans; [exact H1 | apply dmono_shrinks; apply shrinks_update_container]. }
  destruct (f_opp (fd m f)) as [g|] eqn:Eg.
  - set (s3 := match obj_of (single s (x, f)) with
               | Some q =>
                 if match obj_of v with Some y => y =? q | None => false end then s2
                 else if f_many (fd m g) then coll_remove_raw m s2 (q, g) x
                 else if cell_eqb (q, g) (x, f) then s2 else set_none_raw m s2 (q, g)
               | None => s2 end).
    assert (H3 : dmono s s3).
    { unfold s3. destruct (obj_of (single s (x, f))) as [q|]; [|exact H2].
      destruct (match obj_of v with Some y => y =? q | None => false end); [exact H2|].
      destruct (f_many (fd m g)).
      - eapply dmono_trans; [exact H2 | apply dmono_shrinks; apply shrinks_coll_remove_raw].
      - destruct (cell_eqb (q, g) (x, f)); [exact H2|].
        eapply dmono_trans; [exact H2 | apply dmono_shrinks; apply shrinks_set_none_raw]. }
    destruct (obj_of v) as [y|] eqn:Ev; [|exact H3]. apply obj_of_Some' in Ev. subst v.
    assert (D : declared_cell (y, g)) by (apply (opp_declared f g y Eg); exact Hchk).
    destruct (f_many (fd m g)); cbn [snd].
    + eapply dmono_trans; [exact H3 | apply dmono_coll_append_raw; exact D].
    + eapply dmono_trans; [|apply dmono_set_obj_raw; exact D].
      destruct (obj_of (single s3 (y, g))) as [c|]; [|exact H3].
      destruct (c =? x); [exact H3|].
      eapply dmono_trans; [exact H3 | apply dmono_shrinks; apply shrinks_set_none_raw].
  - cbn [snd]. apply (dmono_ext s s2); [exact H2|]. intros k.
    destruct (obj_of v); destruct (obj_of (single s (x, f))); rewrite ?vals_inv_add'; reflexivity.
Qed.

Lemma dmono_coll_add_full s (x : oid) (f : fid) pos v :
  declared_cell (x, f) -> dmono s (snd (coll_add_full m s (x, f) pos v)).
Proof.
  intros D. unfold coll_add_full. cbv beta iota zeta.
  destruct (check_elem m f v) eqn:Hchk; cbn [negb snd]; [|apply dmono_refl].
  set (s1 := link_elem m s x f v).
  assert (H1 : dmono s s1).
  { apply dmono_link_elem. intros y E. subst v. exact Hchk. }
  eapply dmono_trans; [exact H1|].
  eapply dmono_ext; [|reflexivity]. apply dmono_set_vals.
  intros b Hb. destruct pos.
  - destruct (In_raw_insert _ _ _ _ _ Hb) as [H|H]; [left; exact H | right; exact D].
  - destruct (In_raw_append _ _ _ _ Hb) as [H|H]; [left; exact H | right; exact D].
Qed.

Lemma shrinks_coll_pop_full s (x : oid) (f : fid) i : shrinks s (snd (fst (coll_pop_full m s (x, f) i))).
Proof.
  unfold coll_pop_full. cbv beta iota zeta.
  destruct (vals s (x, f)) as [|a0 l0] eqn:El; [apply shrinks_refl|]. rewrite <- El.
  destruct (py_pop i (vals s (x, f))) as [[v l']|] eqn:Ep; cbn [fst snd]; [|apply shrinks_refl].
  eapply shrinks_trans; [|apply shrinks_ext; reflexivity].
  eapply shrinks_trans; [|apply shrinks_unlink_elem].
  apply shrinks_set_vals. intros b Hb. exact (In_py_pop _ _ _ _ _ Ep Hb).
Qed.

Lemma dmono_fold_link (x : oid) (f : fid) vs s :
  (forall v, In v vs -> check_elem m f v = true) ->
  dmono s (fold_left (fun acc v => link_elem m acc x f v) vs s).
Proof.
  revert s; induction vs as [|v vs IH]; intros s Hc; cbn [fold_left]; [apply dmono_refl|].
  eapply dmono_trans; [|apply IH; intros w Hw; apply Hc; right; exact Hw].
  apply dmono_link_elem. intros y E. subst v. apply (Hc (VObj y)). left. reflexivity.
Qed.

Lemma dmono_extend_fold (x : oid) (f : fid) : declared_cell (x, f) ->
  forall vs s, (forall v, In v vs -> check_elem m f v = true) ->
  dmono s (fold_left (fun acc v => link_elem m (set_vals acc (x, f) (raw_append true v (vals acc (x, f)))) x f v) vs s).
Proof.
  intros D. induction vs as [|v vs IH]; intros s Hvs; cbn [fold_left]; [apply dmono_refl|].
  eapply dmono_trans; [|apply IH; intros w Hw; apply Hvs; right; exact Hw].
  eapply dmono_trans.
  - apply (dmono_set_vals s (x, f) (raw_append true v (vals s (x, f)))).
    intros b Hb. destruct (In_raw_append _ _ _ _ Hb) as [H|H]; [left; exact H | right; exact D].
  - apply dmono_link_elem. intros y E. subst v. apply (Hvs (VObj y)). left. reflexivity.
Qed.

Lemma dmono_coll_extend_full s (x : oid) (f : fid) vs :
  declared_cell (x, f) -> dmono s (snd (coll_extend_full m s (x, f) vs)).
Proof.
  intros D. unfold coll_extend_full. cbv beta iota zeta.
  destruct (forallb (check_elem m f) vs) eqn:Ec; cbn [negb snd]; [|apply dmono_refl].
  assert (Hvs : forall v, In v vs -> check_elem m f v = true).
  { intros v Hv. rewrite forallb_forall in Ec. apply Ec. exact Hv. }
  match goal with |- dmono s (set_isset (notify m ?S1 _ _ _ _ _) _) => apply (dmono_ext s S1); [|reflexivity] end.
  destruct (f_unique (fd m f)).
  - apply dmono_extend_fold; assumption.
  - eapply dmono_trans; [apply (dmono_fold_link x f vs s Hvs)|].
    apply dmono_set_vals. intros b Hb. apply in_app_or in Hb. destruct Hb as [H|H]; [left; exact H | right; exact D].
Qed.

Lemma dmono_coll_setitem_full s (x : oid) (f : fid) i v :
  declared_cell (x, f) -> dmono s (snd (coll_setitem_full m s (x, f) i v)).
Proof.
  intros D. unfold coll_setitem_full. cbv beta iota zeta.
  destruct (check_elem m f v) eqn:Hchk; cbn [negb]; [|apply dmono_refl].
  destruct (f_unique (fd m f)).
  - destruct ((i <? 0)%Z && ((if (i <? 0)%Z then (zlen (vals s (x, f)) + i)%Z else i) <? 0)%Z); [apply dmono_refl|].
    unfold seq_outcome.
    pose proof (shrinks_coll_pop_full s x f (if (i <? 0)%Z then (zlen (vals s (x, f)) + i)%Z else i)) as Hp.
    destruct (fst (coll_pop_full m s (x, f) (if (i <? 0)%Z then (zlen (vals s (x, f)) + i)%Z else i))) as [[e|] s1];
      cbn [snd] in *; [apply dmono_shrinks; exact Hp|].
    eapply dmono_trans; [apply dmono_shrinks; exact Hp | apply dmono_coll_add_full; exact D].
  - set (s1 := link_elem m s x f v).
    assert (H1 : dmono s s1) by (apply dmono_link_elem; intros y E; subst v; exact Hchk).
    destruct (norm_index (zlen (vals s1 (x, f))) i) as [n|]; cbn [snd]; [|exact H1].
    eapply dmono_trans; [exact H1|]. eapply dmono_ext; [|reflexivity]. apply dmono_set_vals.
    intros b Hb. destruct (In_set_at _ _ _ _ Hb) as [H|H]; [right; exact D | left; exact H].
Qed.

Lemma shrinks_coll_delitem_full s (x : oid) (f : fid) i : shrinks s (snd (coll_delitem_full m s (x, f) i)).
Proof.
  unfold coll_delitem_full. cbn [snd]. destruct (f_unique (fd m f)); [apply shrinks_coll_pop_full|].
  destruct (py_pop i (vals s (x, f))) as [[w l']|] eqn:Ep; cbn [snd]; [|apply shrinks_refl].
  apply shrinks_set_vals. intros b Hb. exact (In_py_pop _ _ _ _ _ Ep Hb).
Qed.

Lemma shrinks_res_append s r (o : oid) : shrinks s (res_append m s r o).
Proof.
  unfold res_append.
  assert (G : forall s0,
     shrinks s0 (let s1 := set_eres (set_rcont s0 r (rcont s0 r ++ [o])) o (Some r) in
            match cont s1 o with
            | Some (p, pf) =>
              if f_many (fd m pf)
              then (if vmem (VObj o) (vals s1 (p, pf)) then coll_remove_full m s1 (p, pf) (VObj o) else s1)
              else snd (set_full m s1 (p, pf) VNone)
            | None => s1 end)).
  { intros s0. cbv zeta. set (s1 := set_eres (set_rcont s0 r (rcont s0 r ++ [o])) o (Some r)).
    eapply shrinks_trans; [apply (shrinks_ext s0 s1); reflexivity|].
    destruct (cont s1 o) as [[p pf]|]; [|apply shrinks_refl].
    destruct (f_many (fd m pf)).
    - destruct (vmem (VObj o) (vals s1 (p, pf))); [apply shrinks_coll_remove_full | apply shrinks_refl].
    - apply shrinks_set_full_none. }
  destruct (eres s o) as [p|]; [|apply G].
  destruct (nmem o (rcont s p)); [|apply G].
  destruct (p =? r); [apply shrinks_refl|].
  eapply shrinks_trans; [apply (shrinks_ext s (res_remove_raw s p o)); reflexivity | apply G].
Qed.

(* the call addresses a feature of the receiver's class *)
Definition op_appl (o : op) : Prop :=
  match o with
  | OSet x f _ | OUnset x f | ODel x f | OAssign x f _ | OAppend x f _ | OInsert x f _ _
  | OExtend x f _ | OSetItem x f _ _ => declared_cell (x, f)
  | _ => True
  end.

Theorem dmono_step s o : op_appl o -> dmono s (next m s o).
Proof.
  intros Ho. unfold next, step.
  destruct o as [x f v|x f|x f|x f vs|x f v|x f i v|x f v|x f i|x f|x f vs|x f i v|x f i|x r|r o|r o|r os|x f];
    cbn [fst snd]; cbn [op_appl] in Ho.
  - destruct (f_many (fd m f)); [apply dmono_refl | apply dmono_set_full; right; exact Ho].
  - destruct (f_many (fd m f)); [apply dmono_refl | apply dmono_set_full; right; exact Ho].
  - unfold del_full. cbn [snd]. destruct (f_many (fd m f)); cbn [snd].
    + apply dmono_shrinks. apply shrinks_coll_clear_full.
    + apply dmono_set_full. right. exact Ho.
  - destruct (f_many (fd m f)); [|apply dmono_refl]. unfold assign_full. cbn [snd].
    destruct (forallb (check_elem m f) vs); cbn [negb snd]; [|apply dmono_refl].
    eapply dmono_trans; [apply dmono_shrinks; apply shrinks_coll_clear_full | apply dmono_coll_extend_full; exact Ho].
  - apply dmono_coll_add_full; exact Ho.
  - apply dmono_coll_add_full; exact Ho.
  - unfold coll_remove_top. destruct (vmem v (vals s (x, f))); cbn [snd]; [|apply dmono_refl].
    apply dmono_shrinks. apply shrinks_coll_remove_full.
  - apply dmono_shrinks. apply shrinks_coll_pop_full.
  - apply dmono_shrinks. apply shrinks_coll_clear_full.
  - apply dmono_coll_extend_full; exact Ho.
  - apply dmono_coll_setitem_full; exact Ho.
  - apply dmono_shrinks. apply shrinks_coll_delitem_full.
  - apply dmono_shrinks. apply delete_only_removes.
  - apply dmono_shrinks. apply shrinks_res_append.
  - unfold res_remove. destruct (nmem o (rcont s r)); cbn [snd]; [|apply dmono_refl].
    apply dmono_shrinks. apply shrinks_ext. reflexivity.
  - revert s. induction os as [|o os IH]; intros s; cbn [fold_left]; [apply dmono_refl|].
    eapply dmono_trans; [apply dmono_shrinks; apply shrinks_res_append | apply IH].
  - apply dmono_refl.
Qed.

Lemma decl_ok_init : ref_defaults_none m -> decl_ok m (init_state m).
Proof.
  intros Hd a g b Hr. cbn [vals init_state snd]. destruct (f_many (fd m g)) eqn:Hm; [intros []|].
  rewrite (Hd g Hr Hm). intros [E|[]]. discriminate.
Qed.

Theorem decl_ok_history ops :
  ref_defaults_none m -> Forall op_appl ops -> decl_ok m (fold_left (next m) ops (init_state m)).
Proof.
  intros Hd Hok.
  assert (G : forall s, decl_ok m s -> decl_ok m (fold_left (next m) ops s)).
  { induction Hok as [|o ops' Ho Hops IH]; intros s H; cbn [fold_left]; [exact H|].
    apply IH. exact (dmono_decl_ok s _ (dmono_step s o Ho) H). }
  apply G. apply decl_ok_init. exact Hd.
Qed.

End Declared.

(* ------------------------------------------------------------------ *)
(* histories of a metamodel without containment, then x.delete()        *)
(* ------------------------------------------------------------------ *)
Section NoContHistory.
Variable m : mm.
Hypothesis Hnc : no_containment m.
Hypothesis Hwf : wf_opp m.
Hypothesis Hty : wf_typed m.
Hypothesis Hdef : ref_defaults_none m.

Lemma delete_obj_nocont_r fuel s x r : delete_obj (S fuel) m s x r = delete_obj (S fuel) m s x false.
Proof. destruct r; [|reflexivity]. cbn [delete_obj]. rewrite (econtents_nil m Hnc). reflexivity. Qed.

Variable ops : list op.
Hypothesis Hfit : Forall (op_fits m) ops.
Hypothesis Happl : Forall (op_appl m) ops.

Let s0 := fold_left (next m) ops (init_state m).

Lemma history_facts : Inv m s0 /\ J m s0 /\ decl_ok m s0.
Proof.
  split; [exact (sym_history m Hnc Hwf ops Hdef Hfit)|].
  split; [exact (J_history_from m Hwf ops _ (J_init m Hdef) Hfit) | exact (decl_ok_history m Hty ops Hdef Happl)].
Qed.

Theorem history_delete_no_dangling x r (a : oid) (f : fid) :
  refslot m f -> ~ In (VObj x) (vals (next m s0 (ODelete x r)) (a, f)).
Proof.
  intros Hrs. destruct history_facts as [HI [HJ Hd]].
  change (next m s0 (ODelete x r)) with (delete_obj (S (length (ocls m))) m s0 x r).
  rewrite delete_obj_nocont_r.
  exact (delete_no_dangling m Hwf x (Inv m) (fun s H => proj1 H) (fun s H => proj2 H)
           (delete_step_gen m Hnc Hwf x) _ s0 a f HI HJ (fun g b => Hd x g b) Hrs).
Qed.

Theorem history_delete_frame x r (a : oid) (f : fid) :
  a <> x -> refslot m f ->
  vals (next m s0 (ODelete x r)) (a, f) = Ex m x f (vals s0 (a, f)).
Proof.
  intros Na Hrs. destruct history_facts as [HI [HJ Hd]].
  change (next m s0 (ODelete x r)) with (delete_obj (S (length (ocls m))) m s0 x r).
  rewrite delete_obj_nocont_r.
  exact (delete_frame m Hwf x (Inv m) (fun s H => proj1 H) (fun s H => proj2 H)
           (delete_step_gen m Hnc Hwf x) _ s0 a f HI HJ (fun g b => Hd x g b) Na Hrs).
Qed.

Theorem history_delete_frame_unrelated x r (a : oid) (f : fid) :
  a <> x -> ~ In (VObj x) (vals s0 (a, f)) ->
  vals (next m s0 (ODelete x r)) (a, f) = vals s0 (a, f).
Proof.
  intros Na Hn. destruct history_facts as [HI _].
  change (next m s0 (ODelete x r)) with (delete_obj (S (length (ocls m))) m s0 x r).
  rewrite delete_obj_nocont_r.
  exact (delete_frame_unrelated m x (Inv m) (fun s H => proj1 H)
           (delete_step_gen m Hnc Hwf x) _ s0 a f HI Na Hn).
Qed.

Theorem history_deleted_holds_nothing x r (f : fid) (b : oid) :
  f_isref (fd m f) = true -> ~ In (VObj b) (vals (next m s0 (ODelete x r)) (x, f)).
Proof.
  intros Hr Hin. destruct history_facts as [_ [_ Hd]].
  change (next m s0 (ODelete x r)) with (delete_obj (S (length (ocls m))) m s0 x r) in Hin.
  pose proof (delete_only_removes m (S (length (ocls m))) s0 x r _ _ Hin) as Hin0.
  exact (delete_empties_own_references m _ s0 x r f b (Hd x f b Hr Hin0) Hin).
Qed.

End NoContHistory.

(* the two readable forms of Ex *)
Lemma Ex_many_unique m x f l :
  f_many (fd m f) = true -> nodup_objs l ->
  Ex m x f l = filter (fun v => negb (veqb v (VObj x))) l.
Proof. intros Hm ND. unfold Ex. rewrite Hm. apply raw_remove_filter. exact ND. Qed.

Lemma Ex_single m x f l :
  f_many (fd m f) = false -> Ex m x f l = if vmem (VObj x) l then [VNone] else l.
Proof. intros Hm. unfold Ex. rewrite Hm. reflexivity. Qed.

(* ------------------------------------------------------------------ *)
(* a metamodel and a history meeting every premise                      *)
(* ------------------------------------------------------------------ *)
(* class 0: watch (0, unique many, no opposite) -> class 1; items (1, many) <-> owner (2, single);
   count (3, integer attribute) *)
Definition ex_c07_mm : mm :=
  {| feats := [ {| f_owner := 0; f_isref := true; f_many := true; f_unique := true; f_cont := false;
                   f_opp := None; f_type := TClass 1; f_default := VNone |};
                {| f_owner := 0; f_isref := true; f_many := true; f_unique := true; f_cont := false;
                   f_opp := Some 2; f_type := TClass 1; f_default := VNone |};
                {| f_owner := 1; f_isref := true; f_many := false; f_unique := true; f_cont := false;
                   f_opp := Some 1; f_type := TClass 0; f_default := VNone |};
                {| f_owner := 0; f_isref := false; f_many := false; f_unique := true; f_cont := false;
                   f_opp := None; f_type := TInt; f_default := VInt 0 |} ];
     conf := [(0, 0); (1, 1)]; ocls := [0; 0; 1; 1]; enames := []; nres := 0 |}.

Definition ex_c07_ops : list op :=
  [OAppend 0 0 (VObj 2); OAppend 1 0 (VObj 2); OAppend 0 0 (VObj 3);
   OAppend 0 1 (VObj 2); OAppend 0 1 (VObj 3); OSet 0 3 (VInt 5)].

Lemma ex_c07_ok :
  no_containment ex_c07_mm /\ wf_opp ex_c07_mm /\ wf_typed ex_c07_mm /\ ref_defaults_none ex_c07_mm /\
  Forall (op_fits ex_c07_mm) ex_c07_ops /\ Forall (op_appl ex_c07_mm) ex_c07_ops.
Proof.
  split; [|split; [|split; [|split; [|split]]]].
  - intros f. destruct f as [|[|[|[|[|f]]]]]; reflexivity.
  - intros f g. destruct f as [|[|[|[|[|f]]]]]; cbn; intros H; inversion H; subst; cbn; repeat split; congruence.
  - intros f g. destruct f as [|[|[|[|[|f]]]]]; cbn; intros H; inversion H; subst; cbn; repeat split; lia.
  - intros f. destruct f as [|[|[|[|[|f]]]]]; cbn; congruence.
  - repeat (apply Forall_cons; [exact I || reflexivity|]). apply Forall_nil.
  - repeat (apply Forall_cons;
            [first [ intros H; vm_compute in H; discriminate H | intros _; vm_compute; auto ]|]).
    apply Forall_nil.
Qed.

(* ------------------------------------------------------------------ *)
(* symmetry and shape are kept by the steps of delete(), whatever is a   *)
(* containment: the value store is that of the containment-free twin     *)
(* ------------------------------------------------------------------ *)
Section EraseDelete.
Variable m : mm.

Lemma ev_unlink_elem s s0 (x : oid) (f : fid) v :
  vals s = vals s0 -> vals (unlink_elem m s x f v) = vals (unlink_elem (erase m) s0 x f v).
Proof.
  intros E. unfold unlink_elem. rewrite fd_erase. cbn [erase_fd f_isref].
  destruct (f_isref (fd m f)); [|exact E]. destruct (obj_of v) as [y|]; [|exact E].
  apply ev_update_opposite_remove. rewrite !vals_uc_clear. exact E.
Qed.

Lemma ev_fold_unlink (x : oid) (f : fid) l : forall s s0, vals s = vals s0 ->
  vals (fold_left (fun acc v => unlink_elem m acc x f v) l s) =
  vals (fold_left (fun acc v => unlink_elem (erase m) acc x f v) l s0).
Proof.
  induction l as [|v l IH]; intros s s0 E; cbn [fold_left]; [exact E|].
  apply IH. apply ev_unlink_elem. exact E.
Qed.

Lemma ev_coll_clear_full s (x : oid) (f : fid) :
  vals (coll_clear_full m s (x, f)) = vals (coll_clear_full (erase m) s (x, f)).
Proof.
  unfold coll_clear_full. destruct (vals s (x, f)) as [|a0 l0]; [reflexivity|].
  cbn [vals notify push_log set_vals]. rewrite (ev_fold_unlink x f (a0 :: l0) s s eq_refl). reflexivity.
Qed.

Lemma ev_delete_step (x : oid) s (k : cell) :
  vals (delete_step m x s k) = vals (delete_step (erase m) x s k).
Proof.
  destruct k as [o h]. unfold delete_step. rewrite fd_erase. cbn [erase_fd f_many].
  destruct (f_many (fd m h)).
  - destruct (o =? x); [apply ev_coll_clear_full|].
    destruct (vmem (VObj x) (vals s (o, h))); [apply ev_coll_remove_full | reflexivity].
  - destruct ((match single s (o, h) with VObj y => y =? x | _ => false end) || (o =? x)); [|reflexivity].
    rewrite !set_full_none_is_set_none_full. apply ev_set_none_full.
Qed.

Theorem Inv_delete_step : wf_opp m -> forall (x : oid) s (k : cell), Inv m s -> Inv m (delete_step m x s k).
Proof.
  intros Hwf x s k [Hs Hsh].
  assert (H0 : Inv (erase m) (delete_step (erase m) x s k)).
  { apply (delete_step_gen (erase m) (erase_no_containment m) (erase_wf_opp m Hwf)).
    split; [apply erase_sym; exact Hs | apply erase_shape; exact Hsh]. }
  destruct H0 as [A B].
  apply (Inv_ext m (delete_step (erase m) x s k)).
  - intros c. rewrite ev_delete_step. reflexivity.
  - split; [apply erase_sym; exact A | apply erase_shape; exact B].
Qed.

End EraseDelete.

(* ------------------------------------------------------------------ *)
(* the delete theorems, for every metamodel with involutive opposites   *)
(* ------------------------------------------------------------------ *)
Section DeleteGen.
Variable m : mm.
Hypothesis Hwf : wf_opp m.

(* the hypotheses on the state in which delete() is called *)
Definition ready (s : state) : Prop := sym m s /\ shape m s /\ uniq_ok m s /\ inv_ok m s.

Lemma ready_Inv s : ready s -> Inv m s.
Proof. intros [A [B _]]. split; assumption. Qed.

Lemma ready_J s : ready s -> J m s.
Proof. intros [_ [_ [A B]]]. split; assumption. Qed.

Theorem delete_no_dangling_gen fuel s (x a : oid) (f : fid) :
  ready s -> declared m x s -> refslot m f ->
  ~ In (VObj x) (vals (delete_obj (S fuel) m s x false) (a, f)).
Proof.
  intros Hr Hd Hrs.
  exact (delete_no_dangling m Hwf x (Inv m) (fun s H => proj1 H) (fun s H => proj2 H)
           (Inv_delete_step m Hwf x) fuel s a f (ready_Inv s Hr) (ready_J s Hr) Hd Hrs).
Qed.

Theorem delete_frame_gen fuel s (x a : oid) (f : fid) :
  ready s -> declared m x s -> a <> x -> refslot m f ->
  vals (delete_obj (S fuel) m s x false) (a, f) = Ex m x f (vals s (a, f)).
Proof.
  intros Hr Hd Na Hrs.
  exact (delete_frame m Hwf x (Inv m) (fun s H => proj1 H) (fun s H => proj2 H)
           (Inv_delete_step m Hwf x) fuel s a f (ready_Inv s Hr) (ready_J s Hr) Hd Na Hrs).
Qed.

Theorem delete_frame_many_gen fuel s (x a : oid) (f : fid) :
  ready s -> declared m x s -> a <> x ->
  f_isref (fd m f) = true -> f_many (fd m f) = true -> f_unique (fd m f) = true ->
  vals (delete_obj (S fuel) m s x false) (a, f) =
  filter (fun v => negb (veqb v (VObj x))) (vals s (a, f)).
Proof.
  intros Hr Hd Na H1 H2 H3.
  exact (delete_frame_many m Hwf x (Inv m) (fun s H => proj1 H) (fun s H => proj2 H)
           (Inv_delete_step m Hwf x) fuel s a f (ready_Inv s Hr) (ready_J s Hr) Hd Na H1 H2 H3).
Qed.

Theorem delete_frame_single_gen fuel s (x a : oid) (f : fid) :
  ready s -> declared m x s -> a <> x ->
  f_isref (fd m f) = true -> f_many (fd m f) = false ->
  vals (delete_obj (S fuel) m s x false) (a, f) =
  if vmem (VObj x) (vals s (a, f)) then [VNone] else vals s (a, f).
Proof.
  intros Hr Hd Na H1 H2.
  exact (delete_frame_single m Hwf x (Inv m) (fun s H => proj1 H) (fun s H => proj2 H)
           (Inv_delete_step m Hwf x) fuel s a f (ready_Inv s Hr) (ready_J s Hr) Hd Na H1 H2).
Qed.

Theorem delete_frame_unrelated_gen fuel s (x a : oid) (f : fid) :
  sym m s -> shape m s -> a <> x -> ~ In (VObj x) (vals s (a, f)) ->
  vals (delete_obj (S fuel) m s x false) (a, f) = vals s (a, f).
Proof.
  intros Hs Hsh Na Hn.
  exact (delete_frame_unrelated m x (Inv m) (fun s H => proj1 H)
           (Inv_delete_step m Hwf x) fuel s a f (conj Hs Hsh) Na Hn).
Qed.

Theorem delete_uncontained_gen fuel s (x : oid) :
  ready s -> declared m x s ->
  (forall f, f_cont (fd m f) = true -> refslot m f) ->
  own_ok m (delete_obj (S fuel) m s x false) ->
  cont (delete_obj (S fuel) m s x false) x = None.
Proof.
  intros Hr Hd Hc Ho.
  exact (delete_uncontained m Hwf x (Inv m) (fun s H => proj1 H) (fun s H => proj2 H)
           (Inv_delete_step m Hwf x) fuel s (ready_Inv s Hr) (ready_J s Hr) Hd Hc Ho).
Qed.

Theorem delete_rec_no_dangling_gen fuel s (x : oid) r (d a : oid) (f : fid) :
  ready s -> decl_ok m s -> In d (deleted m fuel s x r) -> refslot m f ->
  ~ In (VObj d) (vals (delete_obj fuel m s x r) (a, f)).
Proof.
  intros Hr Hd Hin Hrs.
  exact (delete_rec_no_dangling m Hwf (Inv m) (fun s H => proj1 H) (fun s H => proj2 H)
           (Inv_delete_step m Hwf) fuel s x r d a f (ready_Inv s Hr) (ready_J s Hr) Hd Hin Hrs).
Qed.

Theorem delete_rec_frame_gen fuel s (x : oid) r (a : oid) (f : fid) :
  ready s -> decl_ok m s -> ~ In a (deleted m fuel s x r) -> refslot m f ->
  vals (delete_obj fuel m s x r) (a, f) =
  fold_left (fun l d => Ex m d f l) (deleted m fuel s x r) (vals s (a, f)).
Proof.
  intros Hr Hd Hn Hrs.
  exact (delete_rec_frame m Hwf (Inv m) (fun s H => proj1 H) (fun s H => proj2 H)
           (Inv_delete_step m Hwf) fuel s x r a f (ready_Inv s Hr) (ready_J s Hr) Hd Hn Hrs).
Qed.

Theorem delete_rec_frame_unrelated_gen fuel s (x : oid) r (a : oid) (f : fid) :
  sym m s -> shape m s -> ~ In a (deleted m fuel s x r) ->
  (forall d, In d (deleted m fuel s x r) -> ~ In (VObj d) (vals s (a, f))) ->
  vals (delete_obj fuel m s x r) (a, f) = vals s (a, f).
Proof.
  intros Hs Hsh Hn Hno.
  exact (delete_rec_frame_unrelated m (Inv m) (fun s H => proj1 H)
           (Inv_delete_step m Hwf) fuel s x r a f (conj Hs Hsh) Hn Hno).
Qed.

End DeleteGen.

(* ------------------------------------------------------------------ *)
(* histories of any metamodel (containment allowed), then x.delete(r):  *)
(* everything but symmetry + shape of the reached state is established  *)
(* ------------------------------------------------------------------ *)
Section GenHistory.
Variable m : mm.
Hypothesis Hwf : wf_opp m.
Hypothesis Hty : wf_typed m.
Hypothesis Hdef : ref_defaults_none m.
Variable ops : list op.
Hypothesis Hfit : Forall (op_fits m) ops.
Hypothesis Happl : Forall (op_appl m) ops.

Let s0 := fold_left (next m) ops (init_state m).

Lemma gen_history_ready : Inv m s0 -> ready m s0 /\ decl_ok m s0.
Proof.
  intros [Hs Hsh]. pose proof (J_history_from m Hwf ops _ (J_init m Hdef) Hfit) as [U I].
  split; [split; [exact Hs | split; [exact Hsh | split; [exact U | exact I]]]|].
  exact (decl_ok_history m Hty ops Hdef Happl).
Qed.

Theorem gen_history_delete_no_dangling x r (d a : oid) (f : fid) :
  Inv m s0 -> In d (deleted m (S (length (ocls m))) s0 x r) -> refslot m f ->
  ~ In (VObj d) (vals (next m s0 (ODelete x r)) (a, f)).
Proof.
  intros HI Hin Hrs. destruct (gen_history_ready HI) as [Hr Hd].
  exact (delete_rec_no_dangling_gen m Hwf _ s0 x r d a f Hr Hd Hin Hrs).
Qed.

Theorem gen_history_delete_frame x r (a : oid) (f : fid) :
  Inv m s0 -> ~ In a (deleted m (S (length (ocls m))) s0 x r) -> refslot m f ->
  vals (next m s0 (ODelete x r)) (a, f) =
  fold_left (fun l d => Ex m d f l) (deleted m (S (length (ocls m))) s0 x r) (vals s0 (a, f)).
Proof.
  intros HI Hn Hrs. destruct (gen_history_ready HI) as [Hr Hd].
  exact (delete_rec_frame_gen m Hwf _ s0 x r a f Hr Hd Hn Hrs).
Qed.

Theorem gen_history_delete_frame_unrelated x r (a : oid) (f : fid) :
  Inv m s0 -> ~ In a (deleted m (S (length (ocls m))) s0 x r) ->
  (forall d, In d (deleted m (S (length (ocls m))) s0 x r) -> ~ In (VObj d) (vals s0 (a, f))) ->
  vals (next m s0 (ODelete x r)) (a, f) = vals s0 (a, f).
Proof.
  intros [Hs Hsh] Hn Hno.
  exact (delete_rec_frame_unrelated_gen m Hwf _ s0 x r a f Hs Hsh Hn Hno).
Qed.

End GenHistory.

(* ------------------------------------------------------------------ *)
(* the full well-formedness WF (symmetry, shape, ownership, resources)   *)
(* is kept by every step of delete(): the deleted objects end up without *)
(* container                                                            *)
(* ------------------------------------------------------------------ *)
Section DeleteWF.
Variable m : mm.
Hypothesis W : wf_mm m.

Lemma nonref_noopp h : f_isref (fd m h) = false -> f_opp (fd m h) = None.
Proof.
  intros Hr. destruct (f_opp (fd m h)) as [g|] eqn:E; [|reflexivity].
  pose proof (wf_opp_ref m W h g E). congruence.
Qed.

Lemma nonref_nocont h : f_isref (fd m h) = false -> f_cont (fd m h) = false.
Proof.
  intros Hr. destruct (f_cont (fd m h)) eqn:E; [|reflexivity].
  pose proof (wf_cont_ref m W h E). congruence.
Qed.

(* writing the slot of an attribute *)
Lemma WF_attr_write s s' (o : oid) (h : fid) l :
  WF m s -> f_isref (fd m h) = false ->
  (f_many (fd m h) = false -> exists v, l = [v]) ->
  (forall k, vals s' k = upd (vals s) (o, h) l k) ->
  (forall c, cont s' c = cont s c) -> (forall c, eres s' c = eres s c) ->
  (forall r, rcont s' r = rcont s r) ->
  WF m s'.
Proof.
  intros [Hsym Hsh Hown Hres Hroots] Hr Hl HV HC HE HR.
  pose proof (nonref_noopp h Hr) as Ho. pose proof (nonref_nocont h Hr) as Hc.
  constructor.
  - apply (sym_frame_noopp m W s s' h Hsym Ho). intros a h' N. rewrite HV. apply upd_other.
    intros E; inversion E; congruence.
  - intros a h'. rewrite HV. destruct (cell_eqb_spec (o, h) (a, h')) as [E|N].
    + inversion E; subst a h'. rewrite upd_same. split; [exact Hl|]. intros [H|H]; congruence.
    + rewrite upd_other by exact N. apply Hsh.
  - apply own_ok_c. apply (own_okc_frame m (vals s) (cont s)); [exact Hown | | exact HC].
    intros p f' Hcf. rewrite HV. apply upd_other. intros E; inversion E; subst. congruence.
  - destruct Hres as [A B]. split; [intros r; rewrite HR; apply A | intros c r; rewrite HR, HE; apply B].
  - intros c r. rewrite HR, HC. apply Hroots.
Qed.

(* a many-valued slot whose objects are unchanged *)
Lemma WF_objs_cell s s' (x : oid) (f : fid) :
  WF m s -> f_many (fd m f) = true ->
  (forall k, k <> (x, f) -> vals s' k = vals s k) ->
  objs_of (vals s' (x, f)) = objs_of (vals s (x, f)) ->
  (forall c, cont s' c = cont s c) -> (forall c, eres s' c = eres s c) ->
  (forall r, rcont s' r = rcont s r) ->
  WF m s'.
Proof.
  intros [Hsym Hsh Hown Hres Hroots] Hm HV Hobj HC HE HR.
  assert (Hall : forall k, objs_of (vals s' k) = objs_of (vals s k)).
  { intros k. destruct (cell_eqb_spec k (x, f)) as [E|N]; [subst k; exact Hobj | rewrite (HV k N); reflexivity]. }
  constructor.
  - apply (sym_objs_ext m s s' Hall Hsym).
  - intros a h. destruct (cell_eqb_spec (a, h) (x, f)) as [E|N].
    + inversion E; subst a h. split; [intros C; congruence|]. intros Hoc. unfold nodup_objs. rewrite Hobj.
      exact (proj2 (Hsh x f) Hoc).
    + rewrite (HV _ N). apply Hsh.
  - intros c p h. rewrite HC. rewrite (Hown c p h). rewrite <- !objs_of_In, Hall. tauto.
  - destruct Hres as [A B]. split; [intros r; rewrite HR; apply A | intros c r; rewrite HR, HE; apply B].
  - intros c r. rewrite HR, HC. apply Hroots.
Qed.

Lemma unlink_nonref s (x : oid) (f : fid) v : f_isref (fd m f) = false -> unlink_elem m s x f v = s.
Proof. intros H. unfold unlink_elem. rewrite H. reflexivity. Qed.

Lemma fold_unlink_nonref (x : oid) (f : fid) l s :
  f_isref (fd m f) = false -> fold_left (fun acc v => unlink_elem m acc x f v) l s = s.
Proof.
  intros H. induction l as [|v l IH]; cbn [fold_left]; [reflexivity|]. rewrite unlink_nonref by exact H. exact IH.
Qed.

(* unlinking does not look at the own slot: the other components do not depend on it *)
Lemma unlink_fields_upd s0 (x : oid) (f : fid) v L :
  f_many (fd m f) = true ->
  cont (unlink_elem m (set_vals s0 (x, f) L) x f v) = cont (unlink_elem m s0 x f v) /\
  eres (unlink_elem m (set_vals s0 (x, f) L) x f v) = eres (unlink_elem m s0 x f v) /\
  rcont (unlink_elem m (set_vals s0 (x, f) L) x f v) = rcont (unlink_elem m s0 x f v).
Proof.
  intros Hm. unfold unlink_elem. destruct (f_isref (fd m f)); [|repeat split; reflexivity].
  destruct (obj_of v) as [y|]; [|repeat split; reflexivity].
  set (u0 := uc_clear m s0 f (Some y)).
  assert (Eu : uc_clear m (set_vals s0 (x, f) L) f (Some y) = set_vals u0 (x, f) L).
  { unfold u0, uc_clear. destruct (f_cont (fd m f)); reflexivity. }
  rewrite Eu. unfold update_opposite_remove. destruct (f_opp (fd m f)) as [g|] eqn:Eg.
  - destruct (f_many (fd m g)) eqn:Hmg.
    + destruct (cell_eqb_spec (y, g) (x, f)) as [E|N]; [repeat split; reflexivity|].
      destruct (coll_remove_raw_fields m (set_vals u0 (x, f) L) (y, g) x) as [_ [A [B C]]].
      destruct (coll_remove_raw_fields m u0 (y, g) x) as [_ [A' [B' C']]].
      rewrite A, B, C, A', B', C'. cbn [vals set_vals cont eres rcont].
      rewrite (upd_other (vals u0) (x, f) (y, g)) by (intros E; apply N; symmetry; exact E).
      repeat split; reflexivity.
    + assert (N : (x, f) <> (y, g)) by (intros E; inversion E; subst; congruence).
      pose proof (wf_opp_ref m W g f (wf_opp_inv m W f g Eg)) as Hgr.
      destruct (set_none_raw_fields m (set_vals u0 (x, f) L) (y, g) Hgr) as [_ [A [B C]]].
      destruct (set_none_raw_fields m u0 (y, g) Hgr) as [_ [A' [B' C']]].
      rewrite A, B, C, A', B', C'. cbn [vals set_vals cont eres rcont snd]. unfold single.
      cbn [vals set_vals]. rewrite (upd_other (vals u0) (x, f) (y, g)) by exact N.
      repeat split; reflexivity.
  - cbn [inv set_vals]. destruct (cmem (x, f) (inv u0 y)) eqn:Ec.
    + repeat split; reflexivity.
    + unfold inv_add. cbn [inv set_vals]. rewrite Ec. repeat split; reflexivity.
Qed.

Lemma WF_clear_loop (x : oid) (f : fid) :
  f_many (fd m f) = true -> f_isref (fd m f) = true ->
  forall rest s0, WF m (set_vals s0 (x, f) rest) ->
  WF m (set_vals (fold_left (fun acc v => unlink_elem m acc x f v) rest s0) (x, f) []).
Proof.
  intros Hm Hr. induction rest as [|v rest IH]; intros s0 HW; cbn [fold_left]; [exact HW|].
  apply IH. set (t := set_vals s0 (x, f) (v :: rest)) in *.
  destruct (obj_of v) as [y|] eqn:Ev.
  - apply obj_of_Some' in Ev. subst v.
    assert (Hin : In (VObj y) (vals t (x, f))).
    { unfold t. cbn [vals set_vals]. rewrite upd_same. left. reflexivity. }
    pose proof (WF_coll_remove_full m W t x f y HW Hm Hr Hin) as HR.
    destruct (unlink_fields_upd s0 x f (VObj y) (VObj y :: rest) Hm) as [EC [EE ER]]. fold t in EC, EE, ER.
    apply (WF_ext m (coll_remove_full m t (x, f) (VObj y))); [| | | |exact HR].
    + intros k.
      change (vals (coll_remove_full m t (x, f) (VObj y)))
        with (upd (vals (unlink_elem m t x f (VObj y))) (x, f)
                  (raw_remove (VObj y) (vals (unlink_elem m t x f (VObj y)) (x, f)))).
      cbn [vals set_vals]. rewrite !vals_unlink_g. unfold t. cbn [vals set_vals].
      rewrite (Uval_own m _ x f (VObj y) Hm). rewrite upd_same.
      rewrite (upd_ext _ _ (x, f) (raw_remove (VObj y) (VObj y :: rest))
                 (Uval_comm m (vals s0) x f (VObj y) (VObj y :: rest) Hm)).
      rewrite upd_upd. unfold raw_remove. cbn [remove_first]. rewrite C01Full.veqb_refl. reflexivity.
    + intros c. change (cont (coll_remove_full m t (x, f) (VObj y))) with (cont (unlink_elem m t x f (VObj y))).
      cbn [cont set_vals]. rewrite EC. reflexivity.
    + intros c. change (eres (coll_remove_full m t (x, f) (VObj y))) with (eres (unlink_elem m t x f (VObj y))).
      cbn [eres set_vals]. rewrite EE. reflexivity.
    + intros r. change (rcont (coll_remove_full m t (x, f) (VObj y))) with (rcont (unlink_elem m t x f (VObj y))).
      cbn [rcont set_vals]. rewrite ER. reflexivity.
  - assert (Eu : unlink_elem m s0 x f v = s0).
    { unfold unlink_elem. rewrite Ev. destruct (f_isref (fd m f)); reflexivity. }
    rewrite Eu. apply (WF_objs_cell t _ x f HW Hm).
    + intros k N. unfold t. cbn [vals set_vals]. rewrite !upd_other by (intros E; apply N; symmetry; exact E).
      reflexivity.
    + unfold t. cbn [vals set_vals]. rewrite !upd_same. symmetry. apply objs_of_cons_nonobj. exact Ev.
    + reflexivity.
    + reflexivity.
    + reflexivity.
Qed.

Theorem WF_coll_clear_full s (x : oid) (f : fid) :
  WF m s -> f_many (fd m f) = true -> WF m (coll_clear_full m s (x, f)).
Proof.
  intros HW Hm. unfold coll_clear_full. destruct (vals s (x, f)) as [|a0 l0] eqn:El; [exact HW|].
  rewrite <- El. destruct (f_isref (fd m f)) eqn:Hr.
  - apply (WF_ext m (set_vals (fold_left (fun acc v => unlink_elem m acc x f v) (vals s (x, f)) s) (x, f) []));
      [reflexivity | reflexivity | reflexivity | reflexivity|].
    apply WF_clear_loop; [exact Hm | exact Hr|].
    apply (WF_ext m s); [| reflexivity | reflexivity | reflexivity | exact HW].
    intros k. cbn [vals set_vals]. unfold upd. destruct (cell_eqb_spec (x, f) k) as [E|N]; [subst k|]; reflexivity.
  - rewrite (fold_unlink_nonref x f _ s Hr).
    apply (WF_attr_write s _ x f [] HW Hr); [intros C; congruence | reflexivity | reflexivity | reflexivity | reflexivity].
Qed.

Theorem WF_delete_step (x : oid) s (k : cell) : WF m s -> WF m (delete_step m x s k).
Proof.
  intros HW. destruct k as [o h]. unfold delete_step. destruct (f_many (fd m h)) eqn:Hm.
  - destruct (o =? x); [apply WF_coll_clear_full; assumption|].
    destruct (vmem (VObj x) (vals s (o, h))) eqn:Ev; [|exact HW].
    destruct (f_isref (fd m h)) eqn:Hr.
    + apply (WF_coll_remove_full m W); [exact HW | exact Hm | exact Hr | apply vmem_obj; exact Ev].
    + apply (WF_attr_write s _ o h (raw_remove (VObj x) (vals s (o, h))) HW Hr); [intros C; congruence | | | |].
      * intros k. unfold coll_remove_full. rewrite Hr. reflexivity.
      * intros c. unfold coll_remove_full. rewrite Hr. reflexivity.
      * intros c. unfold coll_remove_full. rewrite Hr. reflexivity.
      * intros r. unfold coll_remove_full. rewrite Hr. reflexivity.
  - destruct ((match single s (o, h) with VObj y => y =? x | _ => false end) || (o =? x)); [|exact HW].
    rewrite set_full_none_is_set_none_full. destruct (f_isref (fd m h)) eqn:Hr.
    + apply (WF_set_none_full m W); assumption.
    + apply (WF_attr_write s _ o h [VNone] HW Hr); [intros _; eexists; reflexivity | | | |].
      * intros k. unfold set_none_full. rewrite Hr. reflexivity.
      * intros c. unfold set_none_full. rewrite Hr. reflexivity.
      * intros c. unfold set_none_full. rewrite Hr. reflexivity.
      * intros r. unfold set_none_full. rewrite Hr. reflexivity.
Qed.

Lemma WF_fold_delete_step (x : oid) l s : WF m s -> WF m (fold_left (delete_step m x) l s).
Proof.
  revert s; induction l as [|k l IH]; intros s H; cbn [fold_left]; [exact H|]. apply IH. apply WF_delete_step. exact H.
Qed.

Theorem WF_delete_obj fuel : forall s (x : oid) r, WF m s -> WF m (delete_obj fuel m s x r).
Proof.
  induction fuel as [|fu IH]; intros s x r HW; cbn [delete_obj]; [exact HW|].
  apply WF_fold_delete_step. destruct r; [|exact HW].
  generalize (econtents m s x). intros l. revert s HW.
  induction l as [|c l IHl]; intros s HW; cbn [fold_left]; [exact HW|]. apply IHl. apply IH. exact HW.
Qed.

Lemma cont_refslot f : f_cont (fd m f) = true -> refslot m f.
Proof.
  intros Hc. split; [exact (wf_cont_ref m W f Hc)|].
  destruct (f_many (fd m f)) eqn:Hm; [right | left; reflexivity].
  apply (wf_many_unique m W f Hm). right. exact Hc.
Qed.

(* (c) every deleted object ends up without container *)
Theorem delete_rec_uncontained fuel s (x : oid) r (d : oid) :
  WF m s -> uniq_ok m s -> inv_ok m s -> decl_ok m s ->
  In d (deleted m fuel s x r) ->
  cont (delete_obj fuel m s x r) d = None.
Proof.
  intros HW U I Hd Hin.
  pose proof (WF_delete_obj fuel s x r HW) as HW'.
  destruct (cont (delete_obj fuel m s x r) d) as [[p f]|] eqn:E; [|reflexivity].
  exfalso. apply (wf_own m _ HW') in E. destruct E as [Hcf Hv].
  refine (delete_rec_no_dangling m (wf_mm_wf_opp m W) (WF m) (wf_sym m)
            (fun s0 H => shape2_shape m s0 (wf_shape m s0 H)) (fun x0 s0 k H => WF_delete_step x0 s0 k H)
            fuel s x r d p f HW (conj U I) Hd Hin (cont_refslot f Hcf) Hv).
Qed.

Theorem delete_uncontained_wf fuel s (x : oid) r :
  WF m s -> uniq_ok m s -> inv_ok m s -> decl_ok m s ->
  cont (delete_obj (S fuel) m s x r) x = None.
Proof.
  intros HW U I Hd. apply delete_rec_uncontained; try assumption. apply deleted_self.
Qed.

End DeleteWF.

(* ------------------------------------------------------------------ *)
(* the deleted objects and the containment subtree of the initial state *)
(* ------------------------------------------------------------------ *)
Section Subtree.
Variable m : mm.

(* d is a (transitive) content of x *)
Inductive desc (s : state) : oid -> oid -> Prop :=
| desc_child x c : In c (econtents m s x) -> desc s x c
| desc_step x c d : In c (econtents m s x) -> desc s c d -> desc s x d.

Lemma econtents_shrinks s s' (a c : oid) :
  shrinks s s' -> In c (econtents m s' a) -> In c (econtents m s a).
Proof.
  intros Hs H. apply econtents_spec in H. destruct H as [f [Hf [Hc Hin]]].
  apply econtents_spec. exists f. split; [exact Hf|]. split; [exact Hc|]. apply Hs. exact Hin.
Qed.

Lemma desc_shrinks s s' (a d : oid) : shrinks s s' -> desc s' a d -> desc s a d.
Proof.
  intros Hs H. induction H as [x c H|x c d H _ IH].
  - apply desc_child. exact (econtents_shrinks s s' x c Hs H).
  - eapply desc_step; [exact (econtents_shrinks s s' x c Hs H) | exact IH].
Qed.

(* only x and contents of x (in the state where delete is called) are deleted *)
Theorem deleted_in_subtree fuel : forall s (x : oid) r (d : oid),
  In d (deleted m fuel s x r) -> d = x \/ desc s x d.
Proof.
  induction fuel as [|fu IH]; intros s x r d Hin; [destruct Hin|].
  cbn [deleted] in Hin. apply in_app_or in Hin. destruct Hin as [Hin|[Hin|[]]]; [|left; symmetry; exact Hin].
  right. destruct r; [|destruct Hin].
  set (F := fun (p : state * list oid) c =>
              (delete_obj fu m (fst p) c true, snd p ++ deleted m fu (fst p) c true)) in *.
  assert (G : forall l acc D0,
            shrinks s acc -> (forall c, In c l -> In c (econtents m s x)) ->
            (forall e, In e D0 -> desc s x e) ->
            forall e, In e (snd (fold_left F l (acc, D0))) -> desc s x e).
  { induction l as [|c l IHl]; intros acc D0 Hs Hl HD e He; cbn [fold_left] in He; [apply HD; exact He|].
    unfold F at 2 in He. cbn [fst snd] in He.
    apply (IHl (delete_obj fu m acc c true) (D0 ++ deleted m fu acc c true)); [| | |exact He].
    - eapply shrinks_trans; [exact Hs | apply delete_only_removes].
    - intros c' Hc'. apply Hl. right. exact Hc'.
    - intros e' He'. apply in_app_or in He'. destruct He' as [He'|He']; [apply HD; exact He'|].
      assert (Hc : In c (econtents m s x)) by (apply Hl; left; reflexivity).
      destruct (IH acc c true e' He') as [E|E].
      + subst e'. apply desc_child. exact Hc.
      + eapply desc_step; [exact Hc | exact (desc_shrinks s acc c e' Hs E)]. }
  apply (G (econtents m s x) s []); [apply shrinks_refl | tauto | intros e [] | exact Hin].
Qed.

(* every direct content of x is deleted by the recursive delete *)
Theorem children_deleted fu s (x c : oid) :
  In c (econtents m s x) -> In c (deleted m (S (S fu)) s x true).
Proof.
  intros Hc. cbn [deleted]. apply in_or_app. left.
  set (F := fun (p : state * list oid) c0 =>
              (delete_obj (S fu) m (fst p) c0 true, snd p ++ deleted m (S fu) (fst p) c0 true)).
  assert (Mono : forall l acc D0 e, In e D0 -> In e (snd (fold_left F l (acc, D0)))).
  { induction l as [|c0 l IHl]; intros acc D0 e He; cbn [fold_left]; [exact He|].
    unfold F at 2. cbn [fst snd]. apply IHl. apply in_or_app. left. exact He. }
  assert (G : forall l acc D0, In c l -> In c (snd (fold_left F l (acc, D0)))).
  { induction l as [|c0 l IHl]; intros acc D0 Hl; [destruct Hl|]. cbn [fold_left].
    unfold F at 2. cbn [fst snd]. destruct Hl as [E|Hl].
    - subst c0. apply Mono. apply in_or_app. right. apply (deleted_self m fu acc c true).
    - apply IHl. exact Hl. }
  apply G. exact Hc.
Qed.

End Subtree.
