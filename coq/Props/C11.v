(* C11 — an object's URI fragment always resolves back to that object.
   Statements only; proofs in Proofs/C11Proofs.v over Model/Fragment.v
   (eURIFragment / Resource.resolve / _navigate_from on the kernel state).
   For every state in which single-valued containment slots agree with the
   back-pointers (the relevant part of C02), every object, single- and
   multi-root resources: whenever the positional fragment can be computed
   (index() found the object in its container's collection), the resource
   resolves it to that very object; hence two different objects never share
   a fragment.  The position used is the one index() reports, which C04
   proves is the position of iteration for unique collections.
   That premise (`single_slots_ok`) holds in EVERY REACHABLE STATE of every
   well-formed metamodel (C11_…_in_every_reachable_state below, through the global
   ownership invariant of Proofs/OwnAll.v), so the two theorems hold at any
   point of any editing history.
   IDS (second part of this file): the uuid / id-attribute half is a separate model,
   Model/IdFrag.v, with its own theorems (C11_id_...) and correspondence (run_idfrag).
   PARTIAL: name-based fragments of metamodel elements are decided by the
   implementation oracle only (harness/props/c11.py) [see also Model/NameFrag.v];
   the rendering of segments as text ('/@name.index') is compared with the
   implementation by the correspondence. *)
From Coq Require Import ZArith List Bool Arith.
From PyecoreV Require Import Lib.PyBase Lib.PyList Model.Kernel Model.Fragment Proofs.C01Full Proofs.C11Proofs Proofs.WFBase
  Proofs.OwnAll Proofs.WFCorollaries Proofs.C11Hist.
Import ListNotations.

Theorem C11_fragment_resolves_to_its_object :
  forall m s fuel o root segs r pre,
    single_slots_ok m s ->
    frag_segs fuel m s o = Some (root, segs) ->
    root_prefix s (Some r) root = Some pre ->
    In root (rcont s r) ->
    resolve s r pre segs = Some o.
Proof. exact resolve_fragment. Qed.
Print Assumptions C11_fragment_resolves_to_its_object.

Theorem C11_fragments_are_distinct :
  forall m s fuel o1 o2 root1 root2 segs r pre,
    single_slots_ok m s ->
    frag_segs fuel m s o1 = Some (root1, segs) -> frag_segs fuel m s o2 = Some (root2, segs) ->
    root_prefix s (Some r) root1 = Some pre -> root_prefix s (Some r) root2 = Some pre ->
    In root1 (rcont s r) -> In root2 (rcont s r) ->
    o1 = o2.
Proof. exact fragments_distinct. Qed.
Print Assumptions C11_fragments_are_distinct.

Definition ex_mm : mm :=
  {| feats := [ {| f_owner := 0; f_isref := true; f_many := true; f_unique := true; f_cont := true;
                   f_opp := None; f_type := TClass 0; f_default := VNone |} ];
     conf := [(0, 0)]; ocls := [0; 0; 0; 0]; enames := []; nres := 1 |}.

Example C11_witness :
  let s := fold_left (next ex_mm)
             [OAppend 0 0 (VObj 1); OAppend 0 0 (VObj 2); ORAppend 0 0; ORAppend 0 3; OPop 0 0 0] (init_state ex_mm) in
  frag_segs 5 ex_mm s 2 = Some (0, [SMany 0 0]) /\ root_prefix s (Some 0) 0 = Some (Some 0) /\
  resolve s 0 (Some 0) [SMany 0 0] = Some 2.
Proof. vm_compute. repeat split; reflexivity. Qed.

(* ---------- at any point of any editing history ---------- *)
Theorem C11_fragment_resolves_to_its_object_in_every_reachable_state :
  forall m, wf_mm m -> ref_defaults_none m -> forall ops, Forall (op_many m) ops ->
  forall fuel o root segs r pre,
    frag_segs fuel m (reach m ops) o = Some (root, segs) ->
    root_prefix (reach m ops) (Some r) root = Some pre ->
    In root (rcont (reach m ops) r) ->
    resolve (reach m ops) r pre segs = Some o.
Proof. exact reach_resolve_fragment. Qed.
Print Assumptions C11_fragment_resolves_to_its_object_in_every_reachable_state.

Theorem C11_fragments_are_distinct_in_every_reachable_state :
  forall m, wf_mm m -> ref_defaults_none m -> forall ops, Forall (op_many m) ops ->
  forall fuel o1 o2 root1 root2 segs r pre,
    frag_segs fuel m (reach m ops) o1 = Some (root1, segs) ->
    frag_segs fuel m (reach m ops) o2 = Some (root2, segs) ->
    root_prefix (reach m ops) (Some r) root1 = Some pre -> root_prefix (reach m ops) (Some r) root2 = Some pre ->
    In root1 (rcont (reach m ops) r) -> In root2 (rcont (reach m ops) r) ->
    o1 = o2.
Proof. exact reach_fragments_distinct. Qed.
Print Assumptions C11_fragments_are_distinct_in_every_reachable_state.


(* ------------------------------------------------------------------------------------------------
   IDS: what a resource does with uuids (xmi:id / "uuid", obj._internal_id, Resource.uuid_dict) and with id
   attributes (EAttribute iD=True, registered in the same uuid_dict by the loaders).  Model/IdFrag.v is a state
   machine for ONE resource following resource.py / xmi.py / json.py statement by statement (members of the tree,
   _internal_id, uuid_dict as an association list, usable id-attribute text, use_uuid, and the uuid4() draws as a
   counter); operations Save, Load of a document, Reload (save + load in a fresh resource), Add, Remove, SetIdAttr,
   Ref (a reference written from another resource: _assign_uuid on the target), SetUuid.  `fragment_of` is what a
   reference to the object is written with (uuid / id text / positional, the latter abstract: first part of this
   file), `resolve` the dictionary path of Resource.resolve / _navigate_from.
   PREMISES, all visible in the statements:
     load_ok s d  : the freshness assumption on a loaded document -- its objects are new, two entries that share an
                    id are the same object, every id is below the uuid4 counter (uuid4 never draws an id a document
                    holds) and belongs to nobody yet;
     op_ok s a    : load_ok for a Load; an id attribute is edited to a text nobody else carries;
     bound_edit   : an id attribute edited AFTER the load must already be bound to the object in uuid_dict (the
                    code never re-registers: C11_id_stale_attribute_refuted);
     quiet v s a  : only for the variants that do not register drawn ids (before fix 330f52e): Save / Ref draw nothing.
   TRUSTED: uuid4 modelled as a counter (never repeats); the tie to the code is the correspondence run_idfrag
   (harness/props/c11.py, family idfrag).
   REFUTED variants (witnesses by computation): the JSON loader before fix 3401449, _assign_uuid before fix
   330f52e, an id attribute edited after the load. *)
From PyecoreV Require Model.IdFrag Proofs.IdFragProofs.

Theorem C11_id_resolves_in_a_registered_state :
  forall s o, IdFragProofs.Inv s -> In o (IdFrag.members s) ->
    IdFrag.resolve s (IdFrag.fragment_of s o) = Some o.
Proof. exact IdFragProofs.resolve_back. Qed.
Print Assumptions C11_id_resolves_in_a_registered_state.

Theorem C11_id_fragments_distinct_in_a_registered_state :
  forall s o1 o2, IdFragProofs.Inv s -> In o1 (IdFrag.members s) -> In o2 (IdFrag.members s) ->
    IdFrag.fragment_of s o1 = IdFrag.fragment_of s o2 -> o1 = o2.
Proof. exact IdFragProofs.fragments_distinct. Qed.
Print Assumptions C11_id_fragments_distinct_in_a_registered_state.

Theorem C11_id_after_a_load :
  forall v s d o, IdFragProofs.WF s -> IdFragProofs.Inv s -> IdFragProofs.load_ok s d ->
    In o (IdFrag.members (IdFrag.load v s d)) ->
    IdFrag.resolve (IdFrag.load v s d) (IdFrag.fragment_of (IdFrag.load v s d) o) = Some o.
Proof. exact IdFragProofs.load_resolves. Qed.
Print Assumptions C11_id_after_a_load.

Theorem C11_id_save_then_load_registers_everything :
  forall v s, IdFragProofs.WF s ->
    IdFragProofs.WF (IdFrag.step v s IdFrag.Reload) /\ IdFragProofs.Inv (IdFrag.step v s IdFrag.Reload).
Proof. exact IdFragProofs.reload_WF_Inv. Qed.
Print Assumptions C11_id_save_then_load_registers_everything.

(* every reachable state of every history, HEAD: resolve(fragment(o)) = o and fragments pairwise distinct *)
Theorem C11_id_in_every_history_on_head :
  forall n h o, IdFragProofs.head_ok (IdFrag.init n) h ->
    In o (IdFrag.members (IdFrag.run IdFrag.head (IdFrag.init n) h)) ->
    IdFrag.resolve (IdFrag.run IdFrag.head (IdFrag.init n) h)
                   (IdFrag.fragment_of (IdFrag.run IdFrag.head (IdFrag.init n) h) o) = Some o.
Proof. exact IdFragProofs.head_history_resolves. Qed.
Print Assumptions C11_id_in_every_history_on_head.

Theorem C11_id_distinct_in_every_history_on_head :
  forall n h o1 o2, IdFragProofs.head_ok (IdFrag.init n) h ->
    In o1 (IdFrag.members (IdFrag.run IdFrag.head (IdFrag.init n) h)) ->
    In o2 (IdFrag.members (IdFrag.run IdFrag.head (IdFrag.init n) h)) ->
    IdFrag.fragment_of (IdFrag.run IdFrag.head (IdFrag.init n) h) o1 =
    IdFrag.fragment_of (IdFrag.run IdFrag.head (IdFrag.init n) h) o2 -> o1 = o2.
Proof. exact IdFragProofs.head_history_distinct. Qed.
Print Assumptions C11_id_distinct_in_every_history_on_head.

(* the same for every variant of the code, under the extra premise `quiet` (inside hist_ok) *)
Theorem C11_id_in_every_quiet_history :
  forall v n h o, IdFragProofs.hist_ok v (IdFrag.init n) h ->
    In o (IdFrag.members (IdFrag.run v (IdFrag.init n) h)) ->
    IdFrag.resolve (IdFrag.run v (IdFrag.init n) h) (IdFrag.fragment_of (IdFrag.run v (IdFrag.init n) h) o) = Some o.
Proof. exact IdFragProofs.history_resolves. Qed.
Print Assumptions C11_id_in_every_quiet_history.

(* each operation keeps the two invariants (the induction step of the theorems above) *)
Theorem C11_id_step_keeps_ids_distinct :
  forall v s a, IdFragProofs.WF s -> IdFragProofs.op_ok s a -> IdFragProofs.WF (IdFrag.step v s a).
Proof. exact IdFragProofs.WF_step. Qed.
Print Assumptions C11_id_step_keeps_ids_distinct.

Theorem C11_id_step_keeps_ids_registered :
  forall v s a, IdFragProofs.WF s -> IdFragProofs.Inv s -> IdFragProofs.op_ok s a -> IdFragProofs.quiet v s a ->
    IdFragProofs.Inv (IdFrag.step v s a).
Proof. exact IdFragProofs.Inv_step. Qed.
Print Assumptions C11_id_step_keeps_ids_registered.

(* non-vacuity: histories that meet the premises and end in non-trivial states *)
Example C11_id_premises_satisfiable : IdFragProofs.hist_ok IdFrag.head (IdFrag.init 100) IdFragProofs.h_ex.
Proof. exact IdFragProofs.hist_ok_ex. Qed.
Print Assumptions C11_id_premises_satisfiable.

(* refuted variants *)
Theorem C11_id_old_json_loader_refuted : exists h o,
  In o (IdFrag.members (IdFrag.run IdFrag.old_json (IdFrag.init 0) h)) /\
  IdFrag.resolves_back (IdFrag.run IdFrag.old_json (IdFrag.init 0) h) o = false /\
  IdFrag.resolves_back (IdFrag.run IdFrag.head (IdFrag.init 0) h) o = true.
Proof. exact IdFragProofs.old_json_loader_refuted. Qed.
Print Assumptions C11_id_old_json_loader_refuted.

Theorem C11_id_unregistered_draw_refuted : exists h o,
  In o (IdFrag.members (IdFrag.run IdFrag.before_330f52e (IdFrag.init 0) h)) /\
  IdFrag.resolves_back (IdFrag.run IdFrag.before_330f52e (IdFrag.init 0) h) o = false /\
  IdFrag.resolves_back (IdFrag.run IdFrag.head (IdFrag.init 0) h) o = true.
Proof. exact IdFragProofs.unregistered_draw_refuted. Qed.
Print Assumptions C11_id_unregistered_draw_refuted.

Theorem C11_id_stale_attribute_refuted : exists h o,
  In o (IdFrag.members (IdFrag.run IdFrag.head (IdFrag.init 10) h)) /\
  IdFrag.resolves_back (IdFrag.run IdFrag.head (IdFrag.init 10) h) o = false.
Proof. exact IdFragProofs.stale_idattr_refuted. Qed.
Print Assumptions C11_id_stale_attribute_refuted.

(* the same two theorems with an EXECUTABLE premise: head_okb b decides head_ok (op_ok + bound_edit at every
   step, the quantifiers over all objects restricted to the objects below b, which is sound for histories that
   only name objects below b: Proofs/IdFragPremisesProofs.v, supp / supp_step).  The harness evaluates it on
   every compared history (run_idfrag_premises, b = 1 + the largest object number of the history). *)
From PyecoreV Require Model.IdFragPremises Proofs.IdFragPremisesProofs.

Theorem C11_id_decider_is_sound :
  forall b h s, IdFragPremisesProofs.supp b s -> IdFragPremises.head_okb b s h = true -> IdFragProofs.head_ok s h.
Proof. exact IdFragPremisesProofs.head_okb_sound. Qed.
Print Assumptions C11_id_decider_is_sound.

Theorem C11_id_in_every_history_passing_the_decider :
  forall b n h o, IdFragPremises.head_okb b (IdFrag.init n) h = true ->
    In o (IdFrag.members (IdFrag.run IdFrag.head (IdFrag.init n) h)) ->
    IdFrag.resolve (IdFrag.run IdFrag.head (IdFrag.init n) h)
                   (IdFrag.fragment_of (IdFrag.run IdFrag.head (IdFrag.init n) h) o) = Some o.
Proof. exact IdFragPremisesProofs.head_okb_history_resolves. Qed.
Print Assumptions C11_id_in_every_history_passing_the_decider.

Theorem C11_id_distinct_in_every_history_passing_the_decider :
  forall b n h o1 o2, IdFragPremises.head_okb b (IdFrag.init n) h = true ->
    In o1 (IdFrag.members (IdFrag.run IdFrag.head (IdFrag.init n) h)) ->
    In o2 (IdFrag.members (IdFrag.run IdFrag.head (IdFrag.init n) h)) ->
    IdFrag.fragment_of (IdFrag.run IdFrag.head (IdFrag.init n) h) o1 =
    IdFrag.fragment_of (IdFrag.run IdFrag.head (IdFrag.init n) h) o2 -> o1 = o2.
Proof. exact IdFragPremisesProofs.head_okb_history_distinct. Qed.
Print Assumptions C11_id_distinct_in_every_history_passing_the_decider.

Example C11_id_decider_accepts_the_example :
  IdFragPremises.head_okb (IdFragPremises.hist_bound IdFragProofs.h_ex) (IdFrag.init 100) IdFragProofs.h_ex = true.
Proof. exact IdFragPremisesProofs.head_okb_ex. Qed.
Print Assumptions C11_id_decider_accepts_the_example.
