"""C12 — dynamic metaclasses and their instances follow metamodel edits.

Corners:
  implementation (EClass / eSuperTypes / eStructuralFeatures / eOperations edits, instances, getattr/setattr/dir/isinstance)
      <-> Coq model (Model/MetaEdit.v on top of Model/C3.v), the same history run on both
  CPython's type.mro()  <-> Model/C3.v, exhaustively over all class graphs of <=4 (thorough: 5) classes
  implementation <-> the property restated over the *declared* metamodel (oracle; knows nothing of MROs or namespaces)
  Coq model      <-> the property: theorems of Props/C12.v

pyecore replaces the linearisation method of its metaclass process-wide when two attempts to order the bases fail
(ecore.py 843 / 918).  The model says beforehand which histories do that; those run in a separate worker process
(harness.metaedit_io as a script), never in this one."""
import itertools
import json
import os
import subprocess

from harness import common
from harness import metaedit_io as mio
from harness.props.c20 import split_records, in_quantifier, random_walk, shape

FEAT_NAMES = ['x', 'y', 'z']
OP_NAMES = ['f', 'g']
NAMES = FEAT_NAMES + OP_NAMES


# ---------------------------------------------------------------- C3 vs type.mro
def c3_exhaustive(out, model, nmax, stats):
    """Every graph: class k picks an ordered selection of earlier classes as bases."""
    def rec(tbl, pyclasses):
        k = len(tbl) + 1
        if k > nmax:
            return
        earlier = list(range(1, k))
        for r in range(0, len(earlier) + 1):
            for bases in itertools.permutations(earlier, r):
                row = list(bases) if bases else [0]
                try:
                    cls = type(f'K{k}', tuple(pyclasses[b - 1] for b in bases) or (object,), {})
                    want = [pyclasses.index(c) + 1 if c in pyclasses else (k if c is cls else 0) for c in cls.__mro__]
                except TypeError:
                    cls, want = None, None
                toks = [0]
                for rw in tbl + [row]:
                    toks += [len(rw)] + rw
                got = model.ask('c3', toks)
                # the answer lists every class; take the last one
                recs, i = [], 0
                while i < len(got):
                    if got[i] == -1:
                        recs.append(None)
                        i += 1
                    else:
                        recs.append(got[i + 1:i + 1 + got[i]])
                        i += 1 + got[i]
                stats['c3_graphs'] += 1
                last = recs[-1] if recs else 'nothing'
                if last != want:
                    out.diff(f'C3 model vs type.mro for bases table {tbl + [row]}: model {last} python {want}',
                             {'section': 'c3', 'table': tbl + [row]})
                if want is None:
                    stats['c3_conflicts'] += 1
                    continue
                if len(want) > 3:
                    stats['c3_nontrivial'] += 1
                rec(tbl + [row], pyclasses + [cls])
    rec([], [])


# ---------------------------------------------------------------- the property over the declared metamodel
class Spec:
    def __init__(self, out, case, intern=None):
        self.out, self.case = out, case
        self.intern = intern or mio.Interner()
        self.names = list(case.get('names', NAMES)) if isinstance(case, dict) else list(NAMES)
        self.gens = {}          # class -> classifiers of its generic super types (-1: none), in order
        self.opparams = {}      # (class, operation name) -> its current parameter list
        self.opbad = set()      # (class, operation name): the current list has no Python signature
        self.frozen = set()     # (instance, declaration id): the default was edited after the instance looked at it
        self.supers = {}
        self.feats = {}
        self.ops = {}
        self.inst = []
        self.touched = {}
        self.stored = {}
        self.did = 0
        self.broken = False     # an edit raised: later observations are not judged

    # declared closure: the class and its transitive supertypes
    def closure(self, c):
        seen, todo = [], [c]
        while todo:
            x = todo.pop(0)
            if x in seen or x == 0:
                continue
            seen.append(x)
            todo += self.supers.get(x, [])
            todo += [g for g in self.gens.get(x, []) if g > 0]      # the second inheritance channel
        return seen

    def reaches(self, a, b):
        return b in self.closure(a)

    def decls(self, c, n):
        return [d for k in self.closure(c) for d in self.feats[k] if d['name'] == n]

    def opdecl(self, c, n):
        return any(n in self.ops[k] for k in self.closure(c))

    def opbad_in(self, c, n):
        """Is an operation n of the closure declared with a parameter list that has no Python signature at the moment
        (an edit in progress)?  Then whether a method shows is not the property's business."""
        return any((k, n) in self.opbad for k in self.closure(c))

    def fail(self, clause, what, stale=False, culprit='edit'):
        if self.out is None:        # bookkeeping only (the generator uses a Spec to stay well-formed)
            return
        if stale:
            sig = {'property': 'C12', 'clause': 'feature-follows-edit', 'culprit': 'instance-dict-slot',
                   'qualifiers': ['instance-touched-before-removal']}
        else:
            sig = {'property': 'C12', 'clause': clause, 'culprit': culprit, 'qualifiers': []}
        self.out.fail(sig, what, self.case)

    def attr_default(self, d):
        """The property: the declared default (its literal read in the attribute's type, else the declared value) if
        there is one, else the default of the data type."""
        tk = d['akind']
        if d['lit'] is not None:
            lit = d['lit']
            v = {'EString': str, 'EInt': int, 'EIntegerObject': int, 'EDouble': float, 'EDoubleObject': float,
                 'EBoolean': lambda x: x == 'true', 'EBooleanObject': lambda x: x == 'true'}[tk](lit)
        elif d['dv'] is not None:
            v = d['dv']
        else:
            v = mio.ATTR_TYPES[tk][0]
        return mio.value_token(v, self.intern)

    def conforms(self, d, v):
        if v == -1:
            return True
        if d['ftype'] == 0:
            return 0 <= v < 1000
        return v >= 1000 and self.reaches(self.inst[v - 1000], d['ftype'])

    def is_stale(self, i, n, cur):
        t = self.touched.get((i, n), set())
        return any(x != cur for x in t)

    def check_attr(self, i, n, obs, where):
        """obs: the gres tokens observed for getattr(instance i, n)"""
        if self.out is None:
            return
        c = self.inst[i]
        if self.opbad_in(c, n):
            return
        D = self.decls(c, n)
        O = self.opdecl(c, n)
        cur = D[0]['did'] if len(D) == 1 else (None if not D else -1)
        stale = self.is_stale(i, n, cur)
        if not D and not O:
            if obs != [0]:
                self.fail('undeclared-name-visible', f'{where}: instance {i} (class {c}) shows {n!r} = {obs} although neither '
                          f'its class nor a supertype declares it', stale)
            return
        if obs == [0]:
            self.fail('declared-name-not-visible', f'{where}: instance {i} (class {c}) lacks {n!r} declared in its closure', stale)
            return
        if D and O:
            return
        if O:
            if obs[0] != 4:
                self.fail('operation-not-a-method', f'{where}: {n!r} on instance {i} is {obs}, an operation is declared', stale)
            return
        if len(D) > 1:
            return
        d = D[0]
        st = self.stored.get((i, n))
        if st is not None and st[0] == d['did']:
            want = st[1]
        else:
            want = [2, 0] if d['many'] else [1, d['default']]
        if (i, d['did']) in self.frozen:
            return
        if obs != want:
            typed = (f" [attribute over {d['akind']}, declared default_value {d['dv']!r}, defaultValueLiteral {d['lit']!r}; values as "
                     f"tokens: -1 None, 900/901 False/True, 5000+k the k-th interned text {self.intern.t}]") if d.get('akind') else ''
            self.fail('default-or-multiplicity', f'{where}: {n!r} on instance {i} reads {obs}, declared '
                      f'{"many" if d["many"] else "single"} with default {d["default"]} (expected {want}){typed}', stale)

    def check_views(self, i, bits, where):
        """The class-level views of instance i (no instance slot involved): every name of the run is listed by
        dir / eAllStructuralFeatures / findEStructuralFeature / eAllAttributes+eAllReferences / the Python class /
        eAllOperations iff the class or a transitive super type (either channel) declares it."""
        if self.out is None:
            return
        c = self.inst[i]
        for j, n in enumerate(self.names):
            in_dir, in_all, found, in_attr, in_ref, on_type, in_ops = bits[7 * j:7 * j + 7]
            D = self.decls(c, n)
            O = self.opdecl(c, n)
            want_kind = None
            if D and all(d['ftype'] == 0 for d in D):
                want_kind = (1, 0)
            elif D and all(d['ftype'] != 0 for d in D):
                want_kind = (0, 1)
            for label, got, want in (('dir(instance)', in_dir, bool(D) or O), ('eAllStructuralFeatures()', in_all, bool(D)),
                                     ('findEStructuralFeature()', found, bool(D)), ('hasattr(type(instance))', on_type, bool(D) or O),
                                     ('eAllOperations()', in_ops, O)):
                if label in ('dir(instance)', 'hasattr(type(instance))') and self.opbad_in(c, n):
                    continue
                if bool(got) != bool(want):
                    self.fail('view', f'{where}: {label} of instance {i} (class {c}) says {bool(got)} for {n!r}, '
                              f'declared in the closure: {bool(want)}')
            if want_kind is not None and (in_attr, in_ref) != want_kind:
                self.fail('view', f'{where}: eAllAttributes/eAllReferences of class {c} list {n!r} as {(in_attr, in_ref)}, '
                          f'declared {want_kind}')
            if not D and (in_attr or in_ref):
                self.fail('view', f'{where}: eAllAttributes/eAllReferences of class {c} list the undeclared {n!r}')

    def touch(self, i, n):
        D = self.decls(self.inst[i], n)
        if D:
            self.touched.setdefault((i, n), set()).add(D[0]['did'] if len(D) == 1 else -1)

    def feed(self, idx, op, res):
        code, payload = res
        k = op[0]
        where = f'op {idx} {op}'
        if k == 'newclass':
            c = len(self.supers) + 1
            self.supers[c] = list(dict.fromkeys(op[1]))
            self.feats[c], self.ops[c] = [], []
            if code != 0:
                self.fail('edit-raises', f'{where}: creating the class raised (code {code})', culprit='newclass')
                self.broken = True
        elif k == 'addsuper':
            if op[2] not in self.supers[op[1]]:
                self.supers[op[1]].append(op[2])
            if code != 0:
                self.fail('edit-raises', f'{where}: raised (code {code})', culprit=k)
                self.broken = True
        elif k == 'rmsuper':
            if op[2] in self.supers[op[1]]:
                self.supers[op[1]].remove(op[2])
                if code != 0:
                    self.fail('edit-raises', f'{where}: raised (code {code})', culprit=k)
                    self.broken = True
        elif k in ('addgen', 'retgen', 'rmgen', 'cleargens', 'movegen', 'annot', 'typar'):
            gs = self.gens.setdefault(op[1], [])
            if k == 'addgen':
                gs.append(op[2])
            elif k == 'retgen':
                gs[op[2]] = op[3]
            elif k == 'rmgen':
                gs.pop(op[2])
            elif k == 'cleargens':
                del gs[:]
            elif k == 'movegen':
                self.gens.setdefault(op[3], []).append(gs.pop(op[2]))
            if code != 0:
                self.fail('edit-raises', f'{where}: raised (code {code})', culprit=k)
                self.broken = True
        elif k == 'delclass':
            dk = op[1]
            for c in self.supers:
                self.supers[c] = [x for x in self.supers[c] if x != dk]
                self.gens[c] = [-1 if g == dk else g for g in self.gens.get(c, [])]
                for d in self.feats[c]:
                    if d['ftype'] == dk:
                        d['untyped'] = True         # its type is gone: writes are not judged
            self.supers[dk], self.gens[dk], self.feats[dk], self.ops[dk] = [], [], [], []
            self.opbad = {x for x in self.opbad if x[0] != dk}
            if code != 0:
                self.fail('edit-raises', f'{where}: raised (code {code})', culprit=k)
                self.broken = True
        elif k == 'rebound':
            _, c, name, ub = op
            d = next(x for x in self.feats[c] if x['name'] == name)
            if d.setdefault('born_many', d['many']) and d['ftype'] == 0:
                d['default'] = 0        # a many-valued attribute is declared without default_value: EInt's own default
            d['many'] = ub < 0 or ub > 1
            # an instance that has looked at the feature keeps the holder it got (the recorded stale-slot finding)
            for (i, n), dids in self.touched.items():
                if n == name and d['did'] in dids:
                    self.frozen.add((i, d['did']))
            if code != 0:
                self.fail('edit-raises', f'{where}: raised (code {code})', culprit=k)
                self.broken = True
        elif k == 'look':
            if not self.broken and code == 0:
                self.check_views(op[1], list(payload), where)
            elif not self.broken:
                self.fail('view-raises', f'{where}: asking the views raised (code {code})')
        elif k == 'movefeat':
            _, c, name, dcl, via = op
            d = next(x for x in self.feats[c] if x['name'] == name)
            self.feats[c].remove(d)
            if dcl:
                self.feats[dcl].append(d)
            if code != 0:
                self.fail('edit-raises', f'{where}: raised (code {code})', culprit=k)
                self.broken = True
        elif k == 'moveop':
            _, c, name, dcl, via = op
            self.ops[c].remove(name)
            if dcl:
                self.ops[dcl].append(name)
                if (c, name) in self.opparams:
                    self.opparams[(dcl, name)] = self.opparams.pop((c, name))
            if code != 0:
                self.fail('edit-raises', f'{where}: raised (code {code})', culprit=k)
                self.broken = True
        elif k == 'pkg':
            if code != 0:
                self.fail('edit-raises', f'{where}: raised (code {code})', culprit=k)
                self.broken = True
        elif k == 'addattr':
            _, c, name, tkind, dk, how = op
            self.did += 1
            d = {'name': name, 'ftype': 0, 'many': False, 'did': self.did, 'akind': tkind,
                 'dv': None if how.startswith('literal') else mio.declared_default(tkind, dk),
                 'lit': mio.declared_literal(tkind, dk) if how.startswith('literal') else None}
            d['default'] = self.attr_default(d)
            self.feats[c].append(d)
            if code != 0:
                self.fail('edit-raises', f'{where}: raised (code {code})', culprit=k)
                self.broken = True
        elif k == 'setdefault':
            _, c, name, dk, how = op
            d = next(x for x in self.feats[c] if x['name'] == name)
            if how == 'literal':
                d['lit'] = mio.declared_literal(d['akind'], dk)
            else:
                d['dv'] = mio.declared_default(d['akind'], dk)
            d['default'] = self.attr_default(d)
            # an instance that has looked at the attribute holds a value of its own from then on
            for (i, n), dids in self.touched.items():
                if n == name and d['did'] in dids:
                    self.frozen.add((i, d['did']))
            if code != 0:
                self.fail('edit-raises', f'{where}: raised (code {code})', culprit=k)
                self.broken = True
        elif k == 'clearsupers':
            self.supers[op[1]] = []
            if code != 0:
                self.fail('edit-raises', f'{where}: raised (code {code})', culprit=k)
                self.broken = True
        elif k == 'popsuper':
            ss = self.supers[op[1]]
            if -len(ss) <= op[2] < len(ss):
                ss.pop(op[2])
                if code != 0:
                    self.fail('edit-raises', f'{where}: raised (code {code})', culprit=k)
                    self.broken = True
        elif k == 'setsupers':
            self.supers[op[1]] = list(dict.fromkeys(op[2]))
            if code != 0:
                self.fail('edit-raises', f'{where}: raised (code {code})', culprit=k)
                self.broken = True
        elif k == 'replsuper':
            ss = self.supers[op[1]]
            if ss:
                ss.pop()
                if op[2] not in ss:
                    ss.append(op[2])
                if code != 0:
                    self.fail('edit-raises', f'{where}: raised (code {code})', culprit=k)
                    self.broken = True
        elif k == 'popfeat':
            fs = self.feats[op[1]]
            if -len(fs) <= op[2] < len(fs):
                fs.pop(op[2])
                if code != 0:
                    self.fail('edit-raises', f'{where}: raised (code {code})', culprit=k)
                    self.broken = True
        elif k == 'popop':
            os_ = self.ops[op[1]]
            if -len(os_) <= op[2] < len(os_):
                gone = os_.pop(op[2])
                if (op[1], gone) in self.opbad:
                    self.opbad.discard((op[1], gone))
                elif code != 0:
                    self.fail('edit-raises', f'{where}: raised (code {code})', culprit=k)
                    self.broken = True
        elif k == 'addfeat':
            _, c, name, ftype, many, default, via = op
            self.did += 1
            self.feats[c].append({'name': name, 'ftype': ftype, 'many': bool(many), 'default': default, 'did': self.did})
            if code != 0:
                self.fail('edit-raises', f'{where}: raised (code {code})', culprit=k)
                self.broken = True
        elif k == 'rmfeat':
            d = next((d for d in self.feats[op[1]] if d['name'] == op[2]), None)
            if d is not None:
                self.feats[op[1]].remove(d)
                if code != 0:
                    self.fail('edit-raises', f'{where}: raised (code {code})', culprit=k)
                    self.broken = True
        elif k == 'clearfeats':
            self.feats[op[1]] = []
            if code != 0:
                self.fail('edit-raises', f'{where}: raised (code {code})', culprit=k)
                self.broken = True
        elif k == 'editop':
            _, c, name, edits = op
            new = mio.apply_param_edits(self.opparams.get((c, name), []), edits)
            self.opparams[(c, name)] = new
            (self.opbad.discard if in_quantifier(name, new) else self.opbad.add)((c, name))
            if code != 0 and in_quantifier(name, new):
                self.fail('edit-raises', f'{where}: raised (code {code})', culprit=k)
                self.broken = True
        elif k == 'addop':
            self.ops[op[1]].append(op[2])
            self.opparams[(op[1], op[2])] = [list(p) for p in op[3]]
            if not in_quantifier(op[2], op[3]):
                self.opbad.add((op[1], op[2]))
            elif code != 0:
                self.fail('edit-raises', f'{where}: raised (code {code})', culprit=k)
                self.broken = True
        elif k == 'rmop':
            if op[2] in self.ops[op[1]]:
                self.ops[op[1]].remove(op[2])
                self.opparams.pop((op[1], op[2]), None)
                if (op[1], op[2]) in self.opbad:        # no method to take away: whether that raises is not judged
                    self.opbad.discard((op[1], op[2]))
                elif code != 0:
                    self.fail('edit-raises', f'{where}: raised (code {code})', culprit=k)
                    self.broken = True
        elif k == 'clearops':
            had_bad = any(x[0] == op[1] for x in self.opbad)
            self.opbad = {x for x in self.opbad if x[0] != op[1]}
            self.ops[op[1]] = []
            if code != 0 and had_bad:
                self.broken = True
            elif code != 0:
                self.fail('edit-raises', f'{where}: raised (code {code})', culprit=k)
                self.broken = True
        elif k == 'newinst':
            self.inst.append(op[1])
        elif self.broken:
            return
        elif k == 'get':
            i, n = op[1], op[2]
            self.check_attr(i, n, [0] if code == 5 else list(payload), where)
            self.touch(i, n)
        elif k in ('set', 'append'):
            i, n, v = op[1], op[2], op[3]
            D = self.decls(self.inst[i], n)
            if len(D) == 1 and (D[0].get('akind') or D[0].get('untyped') or (i, D[0]['did']) in self.frozen) and not self.opdecl(self.inst[i], n):
                self.touch(i, n)            # writes into the typed attributes of the defaults family are not judged,
                self.frozen.add((i, D[0]['did']))       # nor what the instance reads afterwards
                return
            if len(D) != 1 or self.opdecl(self.inst[i], n):
                self.touch(i, n)
                self.stored.pop((i, n), None)
                if D:
                    self.touched.setdefault((i, n), set()).add(-2)    # value no longer predictable
                return
            d = D[0]
            stale = self.is_stale(i, n, d['did'])
            shape_ok = (d['many'] if k == 'append' else not d['many'])
            ok = self.conforms(d, v) and not (k == 'append' and v == -1 and d['ftype'] != 0)   # no None inside a reference collection
            want = 0 if (shape_ok and ok) else (4 if shape_ok or k == 'set' else 5)
            if code != want:
                self.fail('write', f'{where}: outcome code {code}, the declaration calls for {want}', stale)
                self.touched.setdefault((i, n), set()).add(-2)
            elif code == 0:
                st = self.stored.get((i, n))
                if k == 'set':
                    self.stored[(i, n)] = (d['did'], [1, v])
                else:
                    prev = st[1][2:] if (st is not None and st[0] == d['did']) else []
                    if v not in prev:
                        prev = prev + [v]
                    self.stored[(i, n)] = (d['did'], [2, len(prev)] + prev)
            self.touch(i, n)

    def final(self, dump, names, nclasses):
        """dump: tokens after the per-op records"""
        i = 0
        for j, c in enumerate(self.inst):
            d_expected = {n: bool(self.decls(c, n)) or self.opdecl(c, n) for n in names}
            for n in names:
                t = dump[i]
                ln = {0: 1, 1: 2, 3: 1, 4: 2}.get(t) or (2 + dump[i + 1])
                obs = dump[i:i + ln]
                i += ln
                in_dir = dump[i]
                i += 1
                if self.broken:
                    continue
                self.check_attr(j, n, obs, 'final dump')
                if bool(in_dir) != d_expected[n] and not self.opbad_in(c, n):
                    self.fail('dir', f'final dump: {n!r} in dir(instance {j}) is {bool(in_dir)}, declared: {d_expected[n]}')
            row = dump[i:i + nclasses]
            i += nclasses
            if self.broken:
                continue
            want = [1 if k in self.closure(c) else 0 for k in range(1, nclasses + 1)]
            if row != want:
                self.fail('isinstance', f'final dump: isinstance row of instance {j} (class {c}) is {row}, '
                          f'the declared closure gives {want}')


# ---------------------------------------------------------------- generators
class Gen:
    def __init__(self, rng, maxc, nedits):
        self.rng, self.maxc, self.nedits = rng, maxc, nedits
        self.sp = Spec(None, None)
        self.h = []

    def emit(self, op):
        self.h.append(op)
        self.sp.feed(len(self.h), op, (0, []))

    def rand_supers(self, k):
        r = self.rng
        n = r.choice([0, 1, 1, 2, 2, 3])
        cand = list(range(1, k))
        r.shuffle(cand)
        s = cand[:n]
        if s and r.random() < 0.08:
            s.insert(r.randrange(len(s) + 1), 0)
        return s

    def history(self):
        r, sp = self.rng, self.sp
        ncls = r.randint(2, self.maxc)
        start = r.randint(1, ncls)
        for k in range(1, start + 1):
            self.emit(['newclass', self.rand_supers(k)])
        n = 0
        while n < self.nedits:
            if self.step(ncls):
                n += 1
        if not sp.inst or r.random() < 0.5:
            for c in range(1, len(sp.supers) + 1):
                if r.random() < 0.7:
                    self.emit(['newinst', c])
        return self.h

    def step(self, ncls):
        """One op of the ordinary alphabet; False when the draw was not applicable (nothing emitted)."""
        r, sp = self.rng, self.sp
        nc = len(sp.supers)
        x = r.random()
        c = r.randint(1, nc)
        if x < 0.08 and nc < ncls:
            self.emit(['newclass', self.rand_supers(nc + 1)])
        elif x < 0.20:
            s = r.randint(0, nc)
            if s == c or (s != 0 and sp.reaches(s, c)):
                return False
            self.emit(['addsuper', c, s, r.choice(['append', 'append', 'insert', 'extend', 'iadd'])])
        elif x < 0.27:
            if sp.supers[c] and r.random() < 0.9:
                self.emit(['rmsuper', c, r.choice(sp.supers[c])])
            else:
                s = r.randint(1, nc)
                if s in sp.supers[c]:
                    return False
                self.emit(['rmsuper', c, s])
        elif x < 0.40:
            name = r.choice(FEAT_NAMES)
            if any(d['name'] == name for d in sp.feats[c]):
                return False
            ref = r.random() < 0.35
            many = r.random() < 0.4
            self.emit(['addfeat', c, name, r.randint(1, nc) if ref else 0, 1 if many else 0,
                       -1 if ref else r.choice([0, 0, 5]), r.choice(['append', 'append', 'extend'])])
        elif x < 0.49:
            if sp.feats[c]:
                self.emit(['rmfeat', c, r.choice(sp.feats[c])['name']])
            elif r.random() < 0.25:
                self.emit(['rmfeat', c, r.choice(FEAT_NAMES)])     # not declared: KeyError, nothing changes
            else:
                return False
        elif x < 0.505:
            self.emit(['clearfeats', c])
        elif x < 0.56:
            name = r.choice(OP_NAMES)
            if name in sp.ops[c]:
                return False
            self.emit(['addop', c, name, r.choice([[], [['a', 1, 'int']], [['a', 1, 'int'], ['d', 0, 'str']]]),
                       r.choice(['append', 'extend'])])
        elif x < 0.60:
            if sp.ops[c]:
                self.emit(['rmop', c, r.choice(sp.ops[c])])
            elif r.random() < 0.2:
                self.emit(['clearops', c])
            else:
                return False
        elif x < 0.70 or not sp.inst:
            self.emit(['newinst', c])
        else:
            i = r.randrange(len(sp.inst))
            y = r.random()
            visible = [m for m in NAMES if sp.decls(sp.inst[i], m)]
            name = r.choice(visible) if (visible and r.random() < 0.7) else r.choice(NAMES)
            D = sp.decls(sp.inst[i], name)
            if y < 0.4 or not D:
                self.emit(['get', i, name])
            else:
                d = D[0]
                z = r.random()
                if z < 0.55:
                    v = r.choice([1, 7, 42]) if d['ftype'] == 0 else 1000 + r.randrange(len(sp.inst))
                elif z < 0.7:
                    v = -1
                else:
                    v = 1000 + r.randrange(len(sp.inst)) if d['ftype'] == 0 else r.choice([3, 1000 + r.randrange(len(sp.inst))])
                kind = 'append' if (d['many'] != (r.random() < 0.1)) else 'set'
                self.emit([kind, i, name, v])
        return True


CLEAR_VIAS = ['clear', 'delslice', 'delattr', 'assign']


class BulkGen(Gen):
    """Histories in which a share of the edits are BULK calls on eSuperTypes / eStructuralFeatures / eOperations:
    clear(), del coll[:], del owner.coll, owner.coll = [...], pop(), pop(i), del coll[i], coll[-1] = x."""

    def __init__(self, rng, maxc, nedits, share=0.3):
        super().__init__(rng, maxc, nedits)
        self.share = share

    def valid_super(self, c, s):
        return s != c and (s == 0 or not self.sp.reaches(s, c))

    def step(self, ncls):
        r, sp = self.rng, self.sp
        if r.random() >= self.share:
            return super().step(ncls)
        nc = len(sp.supers)
        rich = [k for k in range(1, nc + 1) if len(sp.supers[k]) >= 2]
        c = r.choice(rich) if (rich and r.random() < 0.5) else r.randint(1, nc)
        x = r.random()
        if x < 0.30:
            if not sp.supers[c] and r.random() < 0.8:
                return False
            self.emit(['clearsupers', c, r.choice(CLEAR_VIAS)])
        elif x < 0.45:
            n = len(sp.supers[c])
            if n == 0 and r.random() < 0.8:
                return False
            idx = r.choice([-1, -1, 0, r.randrange(-n, n) if n else 0])
            self.emit(['popsuper', c, idx, r.choice(['pop', 'pop', 'delitem'])])
        elif x < 0.65:
            cand = [s for s in range(1, nc + 1) if self.valid_super(c, s)]
            r.shuffle(cand)
            new = cand[:r.choice([0, 1, 1, 2, 2, 3])]
            if new and r.random() < 0.08:
                new.insert(r.randrange(len(new) + 1), 0)
            self.emit(['setsupers', c, new])
        elif x < 0.72:
            cand = [s for s in range(0, nc + 1) if self.valid_super(c, s)]
            if not sp.supers[c] or not cand:
                return False
            self.emit(['replsuper', c, r.choice(cand)])
        elif x < 0.80:
            if not sp.feats[c] and r.random() < 0.7:
                return False
            self.emit(['clearfeats', c, r.choice(CLEAR_VIAS)])
        elif x < 0.88:
            n = len(sp.feats[c])
            if n == 0 and r.random() < 0.8:
                return False
            self.emit(['popfeat', c, r.choice([-1, 0, n - 1 if n else 0]), r.choice(['pop', 'delitem'])])
        elif x < 0.94:
            if not sp.ops[c] and r.random() < 0.7:
                return False
            self.emit(['clearops', c, r.choice(CLEAR_VIAS)])
        else:
            n = len(sp.ops[c])
            if n == 0 and r.random() < 0.8:
                return False
            self.emit(['popop', c, r.choice([-1, 0]), r.choice(['pop', 'delitem'])])
        return True


GEN_MODES = ['before', 'before', 'after', 'extend']
TYPAR_NAMES = ['T', 'x', 'y', 'f']      # also names of features / operations of the histories
POP_VIAS = ['remove', 'pop', 'delitem']
ATTR_HOWS = ['ctor', 'before', 'later', 'literal', 'literal-later']


class GenericGen(Gen):
    """Histories in which a share of the edits go through the second inheritance channel, eGenericSuperTypes (add with
    the classifier set before / after, re-target, SET TO None, remove, pop, clear, move to another class), mixed with
    the plain super types, plus edits of eAnnotations / eTypeParameters (which must not change anything)."""

    def __init__(self, rng, maxc, nedits, share=0.4):
        super().__init__(rng, maxc, nedits)
        self.share = share

    def valid(self, c, s):
        return s != c and (s <= 0 or not self.sp.reaches(s, c))

    def step(self, ncls):
        r, sp = self.rng, self.sp
        if r.random() >= self.share:
            return super().step(ncls)
        return self.generic_step()

    def generic_step(self):
        r, sp = self.rng, self.sp
        nc = len(sp.supers)
        holders = [k for k in range(1, nc + 1) if sp.gens.get(k)]
        c = r.choice(holders) if (holders and r.random() < 0.6) else r.randint(1, nc)
        gs = sp.gens.get(c, [])
        cand = [s for s in range(1, nc + 1) if self.valid(c, s)]
        x = r.random()
        if x < 0.32:
            y = r.random()
            if y < 0.10:
                s = -1
            elif y < 0.14:
                s = 0
            elif cand:
                s = r.choice(cand)
            else:
                return False
            self.emit(['addgen', c, s, r.choice(GEN_MODES)])
        elif x < 0.56:
            if not gs:
                return False
            if r.random() < 0.45 or not cand:
                s = -1
            else:
                s = r.choice(cand)
            self.emit(['retgen', c, r.randrange(len(gs)), s])
        elif x < 0.68:
            if not gs:
                return False
            self.emit(['rmgen', c, r.randrange(len(gs)), r.choice(POP_VIAS)])
        elif x < 0.74:
            if not gs and r.random() < 0.7:
                return False
            self.emit(['cleargens', c, r.choice(CLEAR_VIAS)])
        elif x < 0.80:
            if not gs:
                return False
            idx = r.randrange(len(gs))
            ds = [d for d in range(1, nc + 1) if d != c and (gs[idx] <= 0 or self.valid(d, gs[idx]))]
            if not ds:
                return False
            self.emit(['movegen', c, idx, r.choice(ds)])
        elif x < 0.90:
            self.emit(['annot', c, r.choice(['add', 'add', 'rm', 'pop', 'clear'])])
        else:
            self.emit(['typar', c, r.choice(['add', 'add', 'rm']), r.choice(TYPAR_NAMES)])
        return True


class DefaultsGen(GenericGen):
    """... and attributes over seven data types with a declared default that is absent, falsy or truthy, given at
    construction or edited afterwards, read on instances created before and after, through both channels."""

    def __init__(self, rng, maxc, nedits):
        super().__init__(rng, maxc, nedits, share=0.12)

    def emit(self, op):
        if op[0] in ('set', 'append'):
            D = self.sp.decls(self.sp.inst[op[1]], op[2])
            if D and D[0].get('akind'):
                op = ['get', op[1], op[2]]      # the typed attributes are only read
        super().emit(op)

    def step(self, ncls):
        r, sp = self.rng, self.sp
        if r.random() >= 0.4:
            return super().step(ncls)
        nc = len(sp.supers)
        c = r.randint(1, nc)
        typed = [(k, d) for k in range(1, nc + 1) for d in sp.feats[k] if d.get('akind')]
        x = r.random()
        if x < 0.45 or not typed:
            free = [n for n in FEAT_NAMES if not any(d['name'] == n for d in sp.feats[c])]
            if not free:
                return False
            self.emit(['addattr', c, r.choice(free), r.choice(list(mio.ATTR_TYPES)), r.choice(['none', 'falsy', 'falsy', 'truthy']),
                       r.choice(ATTR_HOWS)])
        elif x < 0.75:
            k, d = r.choice(typed)
            self.emit(['setdefault', k, d['name'], r.choice(['none', 'falsy', 'falsy', 'truthy']), r.choice(['value', 'value', 'literal'])])
        else:
            if not sp.inst:
                return False
            k, d = r.choice(typed)
            seers = [i for i, ci in enumerate(sp.inst) if sp.reaches(ci, k)]
            if not seers:
                return False
            self.emit(['get', r.choice(seers), d['name']])
        return True


EDIT_OPS = ('newclass', 'addsuper', 'rmsuper', 'clearsupers', 'popsuper', 'setsupers', 'replsuper', 'addfeat', 'rmfeat',
            'clearfeats', 'popfeat', 'addop', 'rmop', 'clearops', 'popop', 'addgen', 'retgen', 'rmgen', 'cleargens', 'movegen',
            'movefeat', 'moveop', 'addattr')


class ViewsGen(GenericGen):
    """Deep hierarchies (chains of 3 and more levels are favoured); the class-level views of EVERY instance are asked
    before and after every edit ('look'), so that whatever a class remembers about its views is warm when a class far
    above changes; features and operations also move between classes through their single-valued end
    (x.eContainingClass = Other / None) and through the collection of the other class."""

    def __init__(self, rng, maxc, nedits):
        super().__init__(rng, maxc, nedits, share=0.1)
        self.quiet = False

    def rand_supers(self, k):
        if k > 1 and self.rng.random() < 0.6:
            return [k - 1]
        return super().rand_supers(k)

    def looks(self):
        for i in range(len(self.sp.inst)):
            super().emit(['look', i])

    def emit(self, op):
        edit = op[0] in EDIT_OPS and not self.quiet
        if edit and self.rng.random() < 0.8:
            self.looks()
        super().emit(op)
        if op[0] == 'newclass' and not self.quiet:
            super().emit(['newinst', len(self.sp.supers)])
        if edit:
            self.looks()

    def step(self, ncls):
        r, sp = self.rng, self.sp
        if r.random() >= 0.3:
            return super().step(ncls)
        nc = len(sp.supers)
        x = r.random()
        if x < 0.45:
            owners = [(c, d['name']) for c in range(1, nc + 1) for d in sp.feats[c]]
            if not owners:
                return False
            c, name = r.choice(owners)
            ds = [d for d in range(0, nc + 1) if d != c and (d == 0 or not any(f['name'] == name for f in sp.feats[d]))]
            d = r.choice(ds)
            self.emit(['movefeat', c, name, d, 'container' if (d == 0 or r.random() < 0.7) else 'append'])
        elif x < 0.8:
            owners = [(c, n) for c in range(1, nc + 1) for n in sp.ops[c]]
            if not owners:
                return False
            c, name = r.choice(owners)
            ds = [d for d in range(0, nc + 1) if d != c and (d == 0 or name not in sp.ops[d])]
            d = r.choice(ds)
            self.emit(['moveop', c, name, d, 'container' if (d == 0 or r.random() < 0.7) else 'append'])
        else:
            self.emit(['pkg', r.randint(1, nc), r.choice(['set', 'add', 'unset'])])
        return True


def views_systematic():
    """A <- B <- C <- D and an unrelated E, one instance of each; every view of every instance asked; ONE edit at the top
    (or a feature / operation moved to another class); every view asked again on the old instances and on new ones."""
    base = [['newclass', []], ['newclass', [1]], ['newclass', [2]], ['newclass', [3]], ['newclass', []],
            ['addfeat', 1, 'x', 0, 0, 5, 'append'], ['addfeat', 5, 'z', 0, 1, 0, 'append'], ['addop', 1, 'f', [], 'append'],
            ['addfeat', 2, 'y', 1, 0, -1, 'append']]
    base += [['newinst', c] for c in (1, 2, 3, 4, 5)]
    looks = [['look', i] for i in range(5)]
    after = [['newinst', c] for c in (1, 2, 3, 4, 5)] + [['look', i] for i in range(10)]
    edits = [[['addfeat', 1, 'z', 0, 0, 0, 'append']], [['rmfeat', 1, 'x']], [['clearfeats', 1, 'clear']], [['addop', 1, 'g', [], 'append']],
             [['rmop', 1, 'f']], [['addsuper', 1, 5, 'append']], [['addgen', 1, 5, 'before']], [['addsuper', 2, 5, 'append']],
             [['rmsuper', 2, 1]], [['rmsuper', 3, 2]], [['addsuper', 1, 5, 'append'], ['look', 3], ['rmsuper', 1, 5]],
             [['addgen', 1, 5, 'after'], ['look', 3], ['retgen', 1, 0, -1]], [['addfeat', 5, 'x', 0, 0, 0, 'append'], ['rmfeat', 5, 'z']],
             [['addattr', 1, 'z', 'EString', 'falsy', 'ctor']], [['pkg', 1, 'set'], ['pkg', 3, 'add'], ['pkg', 1, 'unset']]]
    for d in (5, 2, 4, 0):
        for via in ('container', 'append'):
            if d == 0 and via == 'append':
                continue
            edits.append([['movefeat', 1, 'x', d, via]])
            edits.append([['moveop', 1, 'f', d, via]])
            edits.append([['movefeat', 2, 'y', d if d != 2 else 1, via], ['moveop', 1, 'f', d, via]])
    edits.append([['movefeat', 1, 'x', 5, 'container'], ['look', 3], ['movefeat', 5, 'x', 1, 'container']])
    edits.append([['moveop', 1, 'f', 5, 'container'], ['look', 3], ['moveop', 5, 'f', 3, 'container']])
    return [base + looks + e + after for e in edits]


def views_scenarios(ctx, out, intern=None, stats=None):
    """Implementation + oracle only, PRNG stream 'C12:views'."""
    common.use_repo()
    intern = intern or mio.Interner()
    thorough = ctx.tier == 'thorough'
    rng = common.rng_for(ctx.seed, 'C12:views')
    fams = [(h, 'views-systematic') for h in views_systematic()]
    for _ in range(5000 if thorough else 500):
        fams.append((ViewsGen(rng, 5, rng.randint(3, 10 if thorough else 7)).history(), 'views-random'))
    for h, section in fams:
        case = {'section': section, 'scenario': 'views', 'seed': ctx.seed, 'tier': ctx.tier, 'history': h, 'names': NAMES}
        r = mio.run_impl(h, NAMES, intern)
        if r['flag_after']:
            restore_linearisation()
        judge(out, h, NAMES, r['tokens'], r['per_op'], case, intern)
        if r['isinstance_disagreements']:
            out.fail({'property': 'C12', 'clause': 'isinstance-vs-EcoreUtils', 'culprit': 'isinstance', 'qualifiers': []},
                     f'isinstance and EcoreUtils.isinstance disagree: {r["isinstance_disagreements"]}', case)
        if stats is not None:
            stats['oracle_only_histories']['views'] = stats['oracle_only_histories'].get('views', 0) + 1
            stats['ops'] += len(h)
            for op in h:
                stats['op_kinds'][op[0]] = stats['op_kinds'].get(op[0], 0) + 1
            if section == 'views-random' and not any(c.get('scenario') == 'views' for c in stats['samples']):
                stats['samples'].append(case)


# ---------------------------------------------------------------- operations whose parameters are edited while declared
def opwalk_history(rng, name, params, steps, chainlen, pos, extra_super):
    """A chain of classes (plus, optionally, an unrelated class made a second super type of the last one), the operation
    declared at `pos`, one instance per class; the parameter edits one by one, each followed by a new instance and by a look
    at EVERY instance: getattr (a method or nothing), the views; finally the operation is removed."""
    h = [['newclass', [k - 1] if k > 1 else []] for k in range(1, chainlen + 1)]
    if extra_super:
        h.append(['newclass', []])
        h.append(['addsuper', chainlen, chainlen + 1, 'append'])
    ncls = chainlen + (1 if extra_super else 0)
    h.append(['addfeat', 1, 'x', 0, 0, 5, 'append'])
    h += [['newinst', c] for c in range(1, ncls + 1)]
    h.append(['addop', pos, name, params, 'append'])
    ninst = ncls

    def looks():
        for i in range(ninst):
            h.append(['get', i, name])
            h.append(['look', i])
    looks()
    for e in steps:
        h.append(['editop', pos, name, [e]])
        h.append(['newinst', rng.randint(1, ncls)])
        ninst += 1
        looks()
    h.append(['rmop', pos, name])
    looks()
    return h


def opwalk_scenarios(ctx, out, intern=None, stats=None):
    """Implementation + oracle only, PRNG stream 'C12:opwalk': the visibility side of editing a declared operation's
    parameters through lists without a Python signature and back (the walk generator is C20's)."""
    common.use_repo()
    intern = intern or mio.Interner()
    thorough = ctx.tier == 'thorough'
    rng = common.rng_for(ctx.seed, 'C12:opwalk')
    hs = []
    for n in (2, 3):
        params = [[['a', 'b', 'c'][i], 1, 'int'] for i in range(n)]
        for order in itertools.permutations(range(n)):
            steps = [['flip', i] for i in order] + [['flip', i] for i in reversed(order)]
            for pos, extra in ((1, False), (2, True)):
                hs.append(opwalk_history(rng, 'f', params, steps, 3, pos, extra))
    hs.append(opwalk_history(rng, 'g', shape(1, 1), [['append', ['g', 1, 'int']], ['move', 2, 0], ['flip', 2], ['flip', 1]], 4, 2, False))
    for _ in range(1500 if thorough else 100):
        params = shape(rng.randrange(3), rng.randrange(3))
        chainlen = rng.randint(2, 4)
        hs.append(opwalk_history(rng, rng.choice(OP_NAMES), params, random_walk(rng, params, rng.randint(3, 7)), chainlen,
                                 rng.randint(1, chainlen), rng.random() < 0.3))
    for h in hs:
        case = {'section': 'opwalk', 'scenario': 'opwalk', 'seed': ctx.seed, 'tier': ctx.tier, 'history': h, 'names': NAMES}
        r = mio.run_impl(h, NAMES, intern)
        if r['flag_after']:
            restore_linearisation()
        judge(out, h, NAMES, r['tokens'], r['per_op'], case, intern)
        if stats is not None:
            stats['oracle_only_histories']['opwalk'] = stats['oracle_only_histories'].get('opwalk', 0) + 1
            stats['ops'] += len(h)


# ---------------------------------------------------------------- several classes of the same name
def samename_systematic():
    """Two (three) distinct classes called Node -- in two packages, or in none -- with a feature each, used as super types of
    one class: declared at creation in both orders, added one by one, through a bulk assignment, one of them through a
    generic super type; instances before and after; every view."""
    out = []
    names2 = [['Node', 1], ['Node', 2], ['Holder', 0], ['Node', 0], ['Sub', 1]]
    names0 = [['Node', 0], ['Node', 0], ['Node', 0], ['Node', 0], ['Node', 0]]
    feats = [['addfeat', 1, 'x', 0, 0, 5, 'append'], ['addfeat', 2, 'y', 0, 1, 0, 'append'], ['addop', 1, 'f', [], 'append'],
             ['addop', 2, 'g', [['a', 1, 'int']], 'append']]
    tail = [['newinst', 3], ['newinst', 5], ['look', 0], ['look', 1], ['look', 2], ['get', 1, 'x'], ['set', 2, 'x', 7], ['append', 1, 'y', 4]]
    for cn in (names2, names0):
        for sup in ([1, 2], [2, 1]):
            out.append(([['newclass', []], ['newclass', []], ['newclass', sup]] + feats
                        + [['newclass', []], ['newclass', [3]], ['newinst', 3]] + tail, cn))
        for e in ([['addsuper', 3, 1, 'append'], ['addsuper', 3, 2, 'append']], [['addsuper', 3, 2, 'insert'], ['addsuper', 3, 1, 'extend']],
                  [['setsupers', 3, [1, 2]]], [['setsupers', 3, [2, 1]]], [['addsuper', 3, 1, 'append'], ['addgen', 3, 2, 'before']],
                  [['addgen', 3, 1, 'after'], ['addgen', 3, 2, 'extend']], [['addsuper', 3, 1, 'append'], ['addsuper', 3, 2, 'append'], ['rmsuper', 3, 2]],
                  [['addsuper', 3, 4, 'append'], ['addsuper', 3, 1, 'append'], ['addsuper', 3, 2, 'append'], ['rmsuper', 3, 4]]):
            out.append(([['newclass', []], ['newclass', []], ['newclass', []]] + feats + [['newclass', []], ['newclass', [3]], ['newinst', 3]]
                        + e + tail, cn))
    return out


def samename_scenarios(ctx, out, intern=None, stats=None):
    """Implementation + oracle only, PRNG stream 'C12:samename': the histories of the ordinary / generic / views generators
    run on classes that share their NAME (in two packages or in none)."""
    common.use_repo()
    intern = intern or mio.Interner()
    thorough = ctx.tier == 'thorough'
    rng = common.rng_for(ctx.seed, 'C12:samename')
    hs = [(h, cn, 'samename-systematic') for h, cn in samename_systematic()]
    for j in range(6000 if thorough else 360):
        g = [Gen, GenericGen, ViewsGen][j % 3](rng, 5, rng.randint(4, 9))
        cn = [[rng.choice(['Node', 'Node', 'Node', 'Item']), rng.choice([0, 1, 2])] for _ in range(5)]
        hs.append((g.history(), cn, 'samename-random'))
    for h, cn, section in hs:
        case = {'section': section, 'scenario': 'samename', 'seed': ctx.seed, 'tier': ctx.tier, 'history': h, 'names': NAMES,
                'class_names': cn}
        r = mio.run_impl(h, NAMES, intern, class_names=cn)
        if r['flag_after']:
            restore_linearisation()
        judge(out, h, NAMES, r['tokens'], r['per_op'], case, intern)
        if r['isinstance_disagreements']:
            out.fail({'property': 'C12', 'clause': 'isinstance-vs-EcoreUtils', 'culprit': 'isinstance', 'qualifiers': []},
                     f'isinstance and EcoreUtils.isinstance disagree: {r["isinstance_disagreements"]}', case)
        if stats is not None:
            stats['oracle_only_histories']['samename'] = stats['oracle_only_histories'].get('samename', 0) + 1
            stats['ops'] += len(h)


# ---------------------------------------------------------------- a class is deleted; a bound is edited
class DelGen(BulkGen, GenericGen):
    """Super types arrive by every route (append / insert / extend / += / whole assignment / superclass=tuple / generic);
    at the end a class that others inherit from is delete()d; instances of every class are created and every view asked."""

    def history(self):
        super().history()
        sp, r = self.sp, self.rng
        nc = len(sp.supers)
        typed = {d['ftype'] for c in sp.feats for d in sp.feats[c]}
        used = [k for k in range(1, nc + 1) if k not in typed and any(k in sp.supers[c] or k in sp.gens.get(c, []) for c in sp.supers)]
        cand = used or [k for k in range(1, nc + 1) if k not in typed]
        if cand:
            self.emit(['delclass', r.choice(cand)])
        for c in range(1, nc + 1):
            self.emit(['newinst', c])
        for i in range(len(sp.inst)):
            self.emit(['look', i])
        return self.h


def delclass_systematic():
    out = []
    feats = [['addfeat', 1, 'x', 0, 0, 5, 'append'], ['addop', 1, 'f', [], 'append'], ['addfeat', 2, 'y', 0, 1, 0, 'append']]
    tail = [['newinst', 3], ['newinst', 4], ['newinst', 1], ['look', 0], ['look', 1], ['look', 2], ['look', 3], ['look', 4]]
    routes = [[['addsuper', 3, 1, via], ['addsuper', 3, 2, via]] for via in ('append', 'insert', 'extend', 'iadd')]
    routes += [[['setsupers', 3, [1, 2]]], [['setsupers', 3, [2, 1]]], [['addgen', 3, 1, 'before'], ['addsuper', 3, 2, 'extend']],
               [['addsuper', 3, 2, 'append'], ['addgen', 3, 1, 'after']]]
    for k in (1, 2):
        for rt in routes:
            out.append([['newclass', []], ['newclass', []], ['newclass', []], ['newclass', [3]]] + feats + rt
                       + [['newinst', 3], ['newinst', 4], ['delclass', k]] + tail)
        for sup in ([1, 2], [2, 1], [1]):       # superclass=tuple / single
            out.append([['newclass', []], ['newclass', []], ['newclass', sup], ['newclass', [3]]] + feats
                       + [['newinst', 3], ['newinst', 4], ['delclass', k]] + tail)
    # the middle of a chain goes
    out.append([['newclass', []], ['newclass', [1]], ['newclass', [2]], ['newclass', [3]]] + feats
               + [['newinst', 3], ['newinst', 4], ['delclass', 2]] + tail)
    return out


class ReboundGen(Gen):
    """upperBound of declared features edited in place among 1, -1, -2, 2, 5, 0."""

    def step(self, ncls):
        r, sp = self.rng, self.sp
        if r.random() >= 0.3:
            return super().step(ncls)
        owners = [(c, d['name']) for c in sp.feats for d in sp.feats[c] if not d.get('akind')]
        if not owners:
            return False
        c, name = r.choice(owners)
        self.emit(['rebound', c, name, r.choice([1, -1, -2, -2, 2, 5, 0])])
        return True


def rebound_systematic():
    out = []
    for many0 in (0, 1):
        for ftype in (0, 2):
            for ub in (1, -1, -2, 2, 5, 0):
                for ub2 in (None, 1, -2):
                    h = [['newclass', []], ['newclass', [1]], ['newinst', 2], ['addfeat', 1, 'x', ftype, many0, -1 if ftype else 0, 'append'],
                         ['rebound', 1, 'x', ub]]
                    if ub2 is not None:
                        h += [['newinst', 1], ['get', 1, 'x'], ['rebound', 1, 'x', ub2]]
                    h += [['newinst', 1], ['newinst', 2], ['get', 0, 'x']]
                    many = (ub if ub2 is None else ub2)
                    many = many < 0 or many > 1
                    last = sum(1 for o in h if o[0] == 'newinst') - 1
                    h.append(['append', last, 'x', 1000 if ftype else 3] if many else ['set', last, 'x', 1000 if ftype else 3])
                    out.append(h)
    return out


def lifecycle_scenarios(ctx, out, intern=None, stats=None, which=('delclass', 'rebound')):
    """Implementation + oracle only; PRNG streams 'C12:delclass' and 'C12:rebound'."""
    common.use_repo()
    intern = intern or mio.Interner()
    thorough = ctx.tier == 'thorough'
    hs = []
    if 'delclass' in which:
        rng = common.rng_for(ctx.seed, 'C12:delclass')
        hs += [(h, 'delclass') for h in delclass_systematic()]
        for _ in range(3000 if thorough else 300):
            hs.append((DelGen(rng, 5, rng.randint(3, 8), 0.3).history(), 'delclass'))
    if 'rebound' in which:
        rng = common.rng_for(ctx.seed, 'C12:rebound')
        hs += [(h, 'rebound') for h in rebound_systematic()]
        for _ in range(3000 if thorough else 300):
            hs.append((ReboundGen(rng, 4, rng.randint(4, 10)).history(), 'rebound'))
    for h, scen in hs:
        case = {'section': scen, 'scenario': scen, 'seed': ctx.seed, 'tier': ctx.tier, 'history': h, 'names': NAMES}
        r = mio.run_impl(h, NAMES, intern)
        if r['flag_after']:
            restore_linearisation()
        judge(out, h, NAMES, r['tokens'], r['per_op'], case, intern)
        if r['isinstance_disagreements']:
            out.fail({'property': 'C12', 'clause': 'isinstance-vs-EcoreUtils', 'culprit': 'isinstance', 'qualifiers': []},
                     f'isinstance and EcoreUtils.isinstance disagree: {r["isinstance_disagreements"]}', case)
        if stats is not None:
            stats['oracle_only_histories'][scen] = stats['oracle_only_histories'].get(scen, 0) + 1
            stats['ops'] += len(h)


def generic_systematic():
    """A (x, f), B (y), C, D(C) with instances of each; C gets A as a generic super type (three ways); one edit of that
    channel; instances created afterwards; an old, untouched instance of C is looked at; the final dump judges."""
    out = []
    base = [['newclass', []], ['newclass', []], ['newclass', []], ['newclass', [3]],
            ['addfeat', 1, 'x', 0, 0, 5, 'append'], ['addop', 1, 'f', [], 'append'], ['addfeat', 2, 'y', 0, 1, 0, 'append'],
            ['newinst', 1], ['newinst', 2], ['newinst', 3], ['newinst', 4]]
    after = [['newinst', 3], ['newinst', 4], ['get', 2, 'x'], ['get', 5, 'y']]
    edits = [[], [['retgen', 3, 0, -1]], [['retgen', 3, 0, 2]], [['retgen', 3, 0, -1], ['retgen', 3, 0, 2]],
             [['retgen', 3, 0, -1], ['retgen', 3, 0, 1]], [['movegen', 3, 0, 4]], [['movegen', 3, 0, 2]],
             [['addsuper', 3, 2, 'append'], ['retgen', 3, 0, -1]], [['addsuper', 3, 1, 'append'], ['retgen', 3, 0, -1]],
             [['addsuper', 3, 1, 'append'], ['rmsuper', 3, 1]], [['addgen', 3, 1, 'before'], ['rmgen', 3, 0, 'remove']],
             [['addgen', 3, 2, 'after'], ['retgen', 3, 0, -1]], [['addgen', 3, 2, 'extend'], ['rmgen', 3, 1, 'pop'], ['retgen', 3, 0, -1]],
             [['addgen', 4, 1, 'before'], ['retgen', 3, 0, -1]], [['addgen', 4, 2, 'before'], ['retgen', 4, 0, -1], ['retgen', 3, 0, -1]],
             [['typar', 3, 'add', 'x'], ['typar', 3, 'rm', 'x']], [['typar', 1, 'add', 'x'], ['typar', 1, 'add', 'f'], ['typar', 1, 'rm', 'f'], ['typar', 1, 'rm', 'x']],
             [['annot', 1, 'add'], ['annot', 1, 'rm'], ['annot', 3, 'add'], ['annot', 3, 'add'], ['annot', 3, 'clear'], ['annot', 3, 'add'], ['annot', 3, 'pop']]]
    edits += [[['rmgen', 3, 0, via]] for via in POP_VIAS] + [[['cleargens', 3, via]] for via in CLEAR_VIAS]
    for mode in ('before', 'after', 'extend'):
        for e in edits:
            out.append(base + [['addgen', 3, 1, mode], ['newinst', 3]] + e + after)
    # the generic type is attached empty and gets its classifier later; the class is created with a plain super type
    out.append(base + [['addgen', 3, -1, 'before'], ['newinst', 3], ['retgen', 3, 0, 1]] + after)
    out.append(base + [['addgen', 3, -1, 'before'], ['retgen', 3, 0, 1], ['newinst', 3], ['retgen', 3, 0, -1]] + after)
    return out


def defaults_systematic():
    """Base, Sub(Base), G (generic super type Base) with instances of each; one attribute on Base for every data type
    x declared default x way of giving it; read by an old and a new instance; the default edited; new instances."""
    out = []
    base = [['newclass', []], ['newclass', [1]], ['newclass', []], ['addgen', 3, 1, 'before'],
            ['newinst', 1], ['newinst', 2], ['newinst', 3]]
    dks = ['none', 'falsy', 'truthy']
    k = 0
    for tkind in mio.ATTR_TYPES:
        for dk in dks:
            for how in ATTR_HOWS:
                k += 1
                h = base + [['addattr', 1 + (k % 5 == 0), 'x', tkind, dk, how], ['newinst', 2], ['newinst', 3],
                            ['get', 1, 'x'], ['get', 4, 'x']]
                h += [['setdefault', 1 + (k % 5 == 0), 'x', dks[(k + 1) % 3], 'literal' if k % 4 == 0 else 'value'],
                      ['newinst', 1 + (k % 5 == 0)], ['newinst', 2]]
                if k % 3 == 0:
                    h += [['setdefault', 1 + (k % 5 == 0), 'x', 'falsy', 'value'], ['newinst', 2]]
                out.append(h)
    return out


def oracle_only_families(ctx, out, intern, stats):
    """Histories with ops the Coq model does not have: implementation + oracle only (PRNG streams 'C12:generic',
    'C12:defaults').  Run in this process; a linearisation replacement installed on the way is taken out again after
    the history (nothing is compared with the model here)."""
    thorough = ctx.tier == 'thorough'
    fams = []
    grng = common.rng_for(ctx.seed, 'C12:generic')
    fams += [(h, 'generic', 'generic-systematic') for h in generic_systematic()]
    for _ in range(12000 if thorough else 1200):
        fams.append((GenericGen(grng, 5, grng.randint(4, 14 if thorough else 10)).history(), 'generic', 'generic-random'))
    drng = common.rng_for(ctx.seed, 'C12:defaults')
    fams += [(h, 'defaults', 'defaults-systematic') for h in defaults_systematic()]
    for _ in range(6000 if thorough else 600):
        fams.append((DefaultsGen(drng, 4, drng.randint(5, 14 if thorough else 10)).history(), 'defaults', 'defaults-random'))
    for h, scen, section in fams:
        case = {'section': section, 'scenario': scen, 'seed': ctx.seed, 'tier': ctx.tier, 'history': h, 'names': NAMES}
        r = mio.run_impl(h, NAMES, intern)
        if r['flag_after']:
            restore_linearisation()
            stats['oracle_only_flagged'] += 1
        stats['oracle_only_histories'][scen] = stats['oracle_only_histories'].get(scen, 0) + 1
        stats['ops'] += len(h)
        for op in h:
            stats['op_kinds'][op[0]] = stats['op_kinds'].get(op[0], 0) + 1
        judge(out, h, NAMES, r['tokens'], r['per_op'], case, intern)
        if r['isinstance_disagreements']:
            out.fail({'property': 'C12', 'clause': 'isinstance-vs-EcoreUtils', 'culprit': 'isinstance', 'qualifiers': []},
                     f'isinstance and EcoreUtils.isinstance disagree: {r["isinstance_disagreements"]}', case)
        if section.endswith('random') and len(h) > 9 and not any(c.get('scenario') == scen for c in stats['samples']):
            stats['samples'].append(case)


def bulk_systematic():
    """The diamond A <- B, A <- C, (B, C) <- D with one feature per class and instances of every class created before;
    one bulk call on the super types of D or of B (every spelling), instances created after; the final dump judges."""
    base = [['newclass', []], ['newclass', [1]], ['newclass', [1]], ['newclass', [2, 3]],
            ['addfeat', 1, 'x', 0, 0, 5, 'append'], ['addfeat', 2, 'y', 0, 1, 0, 'append'],
            ['addfeat', 3, 'z', 1, 0, -1, 'append'], ['addop', 1, 'f', [], 'append'], ['addop', 3, 'g', [['a', 1, 'int']], 'append'],
            ['newinst', 1], ['newinst', 2], ['newinst', 3], ['newinst', 4],
            ['set', 2, 'z', 1003]]        # an instance of D accepted as an A (reference z of C) before the edit
    after = [['newinst', 4], ['newinst', 2], ['get', 3, 'x'], ['get', 4, 'x'], ['get', 4, 'z'],
             ['set', 2, 'z', 1004]]       # ... and a new instance of D judged again afterwards
    out = []
    for target in (4, 2):
        edits = [[['clearsupers', target, via]] for via in CLEAR_VIAS]
        edits += [[['popsuper', target, i, via]] for i in (-1, 0) for via in ('pop', 'delitem')]
        edits += [[['popsuper', target, -1, 'pop'], ['popsuper', target, -1, 'pop']]]
        if target == 4:
            edits += [[['setsupers', 4, new]] for new in ([3], [3, 2], [2], [1], [0], [2, 3])]
            edits += [[['replsuper', 4, s]] for s in (1, 2, 0)]
            edits += [[['setsupers', 4, [3]], ['setsupers', 4, [2, 3]], ['clearsupers', 4, via], ['addsuper', 4, 2, 'append'],
                       ['clearsupers', 2, 'delslice']] for via in ('clear', 'delslice')]
        for e in edits:
            out.append(base + e + after)
    # bulk removals of features and operations under existing instances
    for via in CLEAR_VIAS:
        out.append(base + [['clearfeats', 1, via], ['clearops', 3, via]] + after)
    for via in ('pop', 'delitem'):
        out.append(base + [['addfeat', 1, 'y', 0, 0, 0, 'append'], ['popfeat', 1, 0, via], ['popop', 3, -1, via]] + after)
        out.append(base + [['addfeat', 1, 'y', 0, 0, 0, 'append'], ['popfeat', 1, -1, via], ['popop', 1, 0, via]] + after)
    return out


def systematic():
    """A, B(A), C(A); D with every ordered selection of {A,B,C}, declared at creation or added one by one,
    instances before and after, one feature per class; then a base class is edited under existing subclasses."""
    out = []
    base = [['newclass', []], ['newclass', [1]], ['newclass', [1]]]
    feats = [['addfeat', 1, 'x', 0, 0, 5, 'append'], ['addfeat', 2, 'y', 0, 1, 0, 'extend'], ['addfeat', 3, 'z', 1, 0, -1, 'append']]
    for r in range(0, 4):
        for sel in itertools.permutations([1, 2, 3], r):
            h = base + feats + [['newclass', list(sel)], ['newinst', 4], ['addop', 4, 'f', [], 'append'], ['newinst', 4]]
            out.append(h + [['get', 0, 'x'], ['rmfeat', 1, 'x'], ['newinst', 2]])
            h2 = base + [['newclass', []], ['newinst', 4]] + [['addsuper', 4, s] for s in sel] + feats + [['newinst', 4]]
            h2 += [['rmsuper', 4, sel[0]]] if sel else []
            out.append(h2 + [['newinst', 4]])
    # editing a class that already has subclasses (both orders of the subclass's bases)
    for order in ([1, 2], [2, 1]):
        out.append([['newclass', []], ['newclass', []], ['newclass', order], ['newinst', 3],
                    ['addfeat', 2, 'y', 0, 0, 0, 'append'], ['addsuper', 1, 2], ['newinst', 3], ['newinst', 1],
                    ['rmsuper', 1, 2], ['newinst', 1]])
        out.append([['newclass', []], ['newclass', []], ['newclass', order], ['addsuper', 2, 1], ['newinst', 3],
                    ['addfeat', 1, 'x', 0, 1, 0, 'append'], ['append', 0, 'x', 4], ['rmsuper', 2, 1], ['newinst', 3]])
    # diamonds with EObject named explicitly
    out.append([['newclass', [0]], ['newclass', [0, 1]], ['newclass', [1, 0]], ['newclass', [2, 3]], ['newinst', 4],
                ['addfeat', 1, 'x', 0, 0, 0, 'append'], ['rmsuper', 2, 1], ['newinst', 4], ['newinst', 2]])
    return out


# ---------------------------------------------------------------- running
def count_records(history):
    return len(history)


def judge(out, history, names, impl_tokens, per_op, case, intern=None):
    sp = Spec(out, case, intern)
    for idx, (op, res) in enumerate(zip(history, per_op)):
        sp.feed(idx, op, res)
    _, rest = split_records(impl_tokens, len(history))
    sp.final(rest, names, len(sp.supers))


def compare(out, history, model_toks, impl_toks, case):
    if model_toks == impl_toks:
        return True
    mrec, mrest = split_records(model_toks, len(history))
    irec, irest = split_records(impl_toks, len(history))
    for j, (a, b) in enumerate(zip(mrec, irec)):
        if a != b:
            out.diff(f'metaedit model vs impl at op {j} {history[j]}: model {a} impl {b}', case)
            return False
    k = next((i for i, (a, b) in enumerate(zip(mrest, irest)) if a != b), min(len(mrest), len(irest)))
    out.diff(f'metaedit model vs impl in the final dump at token {k}: model ...{mrest[max(0, k - 6):k + 8]} '
             f'impl ...{irest[max(0, k - 6):k + 8]}', case, detail={'model': mrest, 'impl': irest})
    return False


def in_process(prims, intern):
    r = mio.run_impl(prims, NAMES, intern)
    if r['flag_after']:
        restore_linearisation()
    return r['tokens']


def compare_bulk(out, history, model_toks, impl_toks, case, stats, run_prims):
    """The model has no bulk ops: a bulk call is compared with the SEQUENCE of primitive edits it stands for.  The two
    may legitimately part (one assignment of the bases instead of several: other intermediate linearisations, other
    fall-backs); then the tie model <-> implementation is checked on the sequence itself, and the bulk run is left
    to the oracle."""
    if model_toks == impl_toks:
        return True
    if mio.has_composite(history):
        prims, groups = mio.expand(history)
        if mio.fold_records(list(run_prims(prims)), groups) == model_toks:
            stats['bulk_differs_from_sequence'] += 1
            return True
    return compare(out, history, model_toks, impl_toks, case)


def run_worker(cases, intern):
    req = {'cases': cases, 'intern': intern.t}
    env = dict(os.environ, PYTHONHASHSEED='0', PYTHONDONTWRITEBYTECODE='1')
    p = subprocess.run([common.PY, '-P', os.path.join(common.VERIF, 'harness', 'metaedit_io.py')], input=json.dumps(req), text=True, cwd=common.VERIF,
                       env=env, stdout=subprocess.PIPE, stderr=subprocess.PIPE, timeout=600)
    if p.returncode != 0:
        raise RuntimeError('worker failed: ' + p.stderr[-800:])
    ans = json.loads(p.stdout)
    intern.t = ans['intern']
    return ans['answers']


def restore_linearisation():
    from pyecore.ecore import Metasubinstance
    if 'mro' in vars(Metasubinstance):
        delattr(Metasubinstance, 'mro')


def run(ctx, out):
    common.use_repo()
    thorough = ctx.tier == 'thorough'
    model = common.Model()
    intern = mio.Interner()
    stats = {'c3_graphs': 0, 'c3_conflicts': 0, 'c3_nontrivial': 0, 'histories': 0, 'ops': 0, 'in_worker': 0,
             'flag_installed_in_worker': 0, 'started_with_flag': 0, 'samples': [], 'op_kinds': {}, 'outcomes': {},
             'classes_hist': {}, 'stale_cases': 0, 'sorted_fallback': 0, 'bulk_histories': 0, 'bulk_calls': 0,
             'bulk_differs_from_sequence': 0, 'oracle_only_histories': {}, 'oracle_only_flagged': 0}
    c3_exhaustive(out, model, 5 if thorough else 4, stats)

    hists = [(h, 'systematic') for h in systematic()]
    nrand = 40000 if thorough else 4000
    for _ in range(nrand):
        g = Gen(ctx.rng, 5, ctx.rng.randint(4, 16 if thorough else 10))
        hists.append((g.history(), 'random'))
    # bulk calls (clear / del [:] / del owner.coll / whole assignment / pop / item replacement): own PRNG stream
    brng = common.rng_for(ctx.seed, 'C12:bulk')
    hists += [(h, 'bulk-systematic') for h in bulk_systematic()]
    for _ in range(15000 if thorough else 1500):
        g = BulkGen(brng, 5, brng.randint(3, 14 if thorough else 9))
        hists.append((g.history(), 'bulk-random'))
    deferred = []
    for h, origin in hists:
        case = {'section': origin, 'history': h, 'names': NAMES}
        if origin.startswith('bulk'):
            case.update({'scenario': 'bulk', 'seed': ctx.seed, 'tier': ctx.tier})
            stats['bulk_histories'] += 1
            stats['bulk_calls'] += sum(1 for op in h if op[0] in mio.COMPOSITE or (op[0] in ('clearfeats', 'clearops') and len(op) > 2))
        for op in h:
            stats['op_kinds'][op[0]] = stats['op_kinds'].get(op[0], 0) + 1
        ncls = sum(1 for op in h if op[0] == 'newclass')
        stats['classes_hist'][ncls] = stats['classes_hist'].get(ncls, 0) + 1
        mt = mio.model_ask(model, h, NAMES, False, intern)
        stats['histories'] += 1
        stats['ops'] += len(h)
        if len(mt) > 1 and mt[-2] == 1:
            deferred.append(case)
            continue
        if deferred and (brng if origin.startswith('bulk') else ctx.rng).random() < 0.03:
            deferred.append(case)          # ordinary histories also run after the replacement, in the worker
            continue
        r = mio.run_impl(h, NAMES, intern)
        if r['flag_after']:
            restore_linearisation()
            if not mio.has_composite(h):
                out.diff('the implementation replaced the linearisation of its metaclass in a history for which the model '
                         'does not predict it', case)
        compare_bulk(out, h, mt, r['tokens'], case, stats, lambda prims: in_process(prims, intern))
        for code, _ in r['per_op']:
            stats['outcomes'][code] = stats['outcomes'].get(code, 0) + 1
        judge(out, h, NAMES, r['tokens'], r['per_op'], case)
        if r['isinstance_disagreements']:
            out.fail({'property': 'C12', 'clause': 'isinstance-vs-EcoreUtils', 'culprit': 'isinstance', 'qualifiers': []},
                     f'isinstance and EcoreUtils.isinstance disagree: {r["isinstance_disagreements"]}', case)
        if len(stats['samples']) < 3 and origin == 'random' and len(h) > 8:
            stats['samples'].append(case)
    # histories that install the replacement: one isolated worker process
    if deferred:
        nworkers = min(len(deferred), 12 if thorough else 5)
        chunks = [deferred[k::nworkers] for k in range(nworkers)]
        deferred = [c for ch in chunks for c in ch]
        answers = []
        for ch in chunks:       # each worker starts without the replacement: several installations are observed
            answers += run_worker([{'history': c['history'], 'names': NAMES} for c in ch], intern)
        for case, r in zip(deferred, answers):
            h = case['history']
            case = dict(case, init_flag=bool(r['flag_before']))
            stats['in_worker'] += 1
            stats['started_with_flag'] += 1 if r['flag_before'] else 0
            stats['flag_installed_in_worker'] += 1 if (r['flag_after'] and not r['flag_before']) else 0
            mt = mio.model_ask(model, h, NAMES, r['flag_before'], intern)
            per_op = [tuple(x) for x in r['per_op']]
            compare_bulk(out, h, mt, r['tokens'], case, stats,
                         lambda prims, fb=bool(r['flag_before']): run_worker(
                             [{'history': prims, 'names': NAMES, 'needs_flag': fb}], intern)[0]['tokens'])
            judge(out, h, NAMES, r['tokens'], per_op, case)
            if r['isinstance_disagreements']:
                out.fail({'property': 'C12', 'clause': 'isinstance-vs-EcoreUtils', 'culprit': 'isinstance', 'qualifiers': []},
                         f'isinstance and EcoreUtils.isinstance disagree: {r["isinstance_disagreements"]}', case)
        if len(deferred) and len(stats['samples']) < 5:
            stats['samples'].append(dict(deferred[0]))
    model.close()
    oracle_only_families(ctx, out, intern, stats)
    views_scenarios(ctx, out, intern, stats)
    opwalk_scenarios(ctx, out, intern, stats)
    samename_scenarios(ctx, out, intern, stats)
    lifecycle_scenarios(ctx, out, intern, stats)
    if mio.flag_installed():
        out.diff('Metasubinstance.mro is replaced in the checking process at the end of the run', {'global': True})
        restore_linearisation()
    stats['stale_cases'] = sum(1 for f in out.oracle_fails if f['signature'].get('clause') == 'feature-follows-edit')
    out.coverage.update({
        'evaluations': stats['c3_graphs'] + stats['histories'] + sum(stats['oracle_only_histories'].values()),
        'distinct_nontrivial': stats['c3_nontrivial'] + stats['histories'] + sum(stats['oracle_only_histories'].values()),
        'rule': 'C3: every class graph in which class k (k <= %d) takes an ordered selection of earlier classes as bases, '
                'compared with type.mro() class by class (nontrivial = linearisation longer than 3); histories: the '
                'systematic diamond/order set plus seeded random edit histories (<= 5 classes, <= %d edits + final '
                'instantiation), each run on model and implementation and dumped for every instance x name x class; '
                'bulk family (own PRNG stream): the diamond with every spelling of a bulk removal / whole assignment / '
                'pop / item replacement on eSuperTypes, eStructuralFeatures, eOperations, plus random histories in which '
                '30%% of the edits are such calls (model side: the sequence of primitive edits the call stands for); '
                'generic family (stream C12:generic, implementation + oracle only): eGenericSuperTypes as a second '
                'inheritance channel (classifier set before/after, re-targeted, set to None, removed, popped, cleared, moved), '
                'mixed with plain super types, annotations and type parameters edited on the way, matrix from the closure '
                'over both channels; defaults family (stream C12:defaults): attributes over 7 data types x declared '
                'default absent/falsy/truthy x 5 ways of declaring it, edited afterwards, read before and after; '
                'views family (stream C12:views): hierarchies 3+ levels deep, dir / eAllStructuralFeatures / findEStructuralFeature / '
                'eAllAttributes / eAllReferences / eAllOperations / hasattr(type) of every instance asked before and after every edit, '
                'features and operations re-parented through eContainingClass (single-valued end) and through the other collection; '
                'opwalk family (stream C12:opwalk): a declared operation whose parameters are edited one at a time through lists without a '
                'Python signature and back, getattr + views on every instance after every step; samename family (stream C12:samename): '
                'the ordinary / generic / views histories on classes that share their name (two packages or none)'
                % (5 if thorough else 4, 16 if thorough else 10),
        'traces_validated_against_impl': stats['histories'],
        'c3_graphs': stats['c3_graphs'], 'c3_conflicts': stats['c3_conflicts'],
        'histories': stats['histories'], 'history_ops': stats['ops'], 'ops_by_kind': stats['op_kinds'],
        'outcomes_by_code_in_process': stats['outcomes'], 'histories_by_number_of_classes': stats['classes_hist'],
        'histories_run_in_isolated_worker': stats['in_worker'],
        'histories_installing_the_global_replacement': stats['flag_installed_in_worker'],
        'histories_started_with_replacement_installed': stats['started_with_flag'],
        'oracle_failures_of_the_known_stale_slot_kind': stats['stale_cases'],
        'implementation_and_oracle_only_histories': stats['oracle_only_histories'],
        'of_which_installed_the_global_replacement': stats['oracle_only_flagged'],
        'bulk_call_histories': stats['bulk_histories'], 'bulk_calls': stats['bulk_calls'],
        'bulk_call_histories_where_the_implementation_parts_from_the_primitive_sequence': stats['bulk_differs_from_sequence'],
        'samples': stats['samples'][:5],
    })
    out.assumptions += [
        'inheritance graphs are acyclic (the generator never closes a cycle); generic supertypes are not used',
        'a class declares at most one feature/operation of a given name at a time (Ecore well-formedness); the same name '
        'may be declared by several classes of a hierarchy, in which case only visibility is judged',
        'attribute type EInt, reference types are classes of the graph; values None, small ints, instances',
        'renaming a feature and changing its bounds in place are not part of the edit alphabet; multiplicity changes are '
        'explored as remove + add under the same name',
        'generic super types: classifiers are classes of the graph (no data types, no cycles over the two channels together); '
        'type arguments are not used; a default edited after an instance has read the attribute is judged on the other '
        'instances only (the instance keeps its own value holder); the typed attributes of the defaults family are only read',
        'CPython semantics assumed as modelled: C3 (validated here against type.mro), data descriptor > instance dict > '
        'class attribute, __bases__ assignment re-linearises the class and its subclasses or fails as a whole',
    ]


def replay(ctx, rep):
    """Runs in a fresh process, so the global replacement is harmless here."""
    common.use_repo()
    case = rep['case']
    if case.get('section') == 'c3':
        print('C3 table', case['table'], '(compare Model/C3.v with type.mro by hand)')
        return 1
    if case.get('scenario') in ('views', 'opwalk', 'samename', 'delclass', 'rebound'):
        return common.scenario_replay(ctx, rep, {'views': views_scenarios, 'opwalk': opwalk_scenarios, 'samename': samename_scenarios,
                                                 'delclass': lambda c, o: lifecycle_scenarios(c, o, which=('delclass',)),
                                                 'rebound': lambda c, o: lifecycle_scenarios(c, o, which=('rebound',))})
    intern = mio.Interner()
    if case.get('init_flag'):
        mio.run_impl(mio.FLAG_TRIGGER, [], intern)
        print('global linearisation replacement installed first:', mio.flag_installed())
    out = common.Outcome('C12', 'quick', 0)
    r = mio.run_impl(case['history'], case['names'], intern)
    for op, res in zip(case['history'], r['per_op']):
        print(op, '->', res)
    judge(out, case['history'], case['names'], r['tokens'], r['per_op'], case, intern)
    for f in out.oracle_fails:
        print('FAILS:', f['what'])
    print('REPRODUCED' if out.oracle_fails else 'not reproduced')
    return 1 if out.oracle_fails else 0
