(* CPython's C3 linearisation (Objects/typeobject.c: pmerge / mro_implementation)
   as an executable function on class graphs.  A class graph is a function
   giving, for every class id, the ordered list of its bases; the root (the
   class without bases: `object`, or EObject in the pyecore mirror) has [].
   Also the replacement linearisation that pyecore installs globally when
   both of its attempts to find a C3 order fail
   (ecore.py Metasubinstance._mro_alternative, 154-167).  No proofs here. *)
From Coq Require Import ZArith List Bool.
From PyecoreV Require Import Lib.PyBase Lib.PyList.
Import ListNotations.
Open Scope Z_scope.

Definition zmem (x : Z) (l : list Z) : bool := memb Z.eqb x l.

Definition in_tail (x : Z) (s : list Z) : bool :=
  match s with [] => false | _ :: t => zmem x t end.

(* pmerge's inner search: the head of the first non-empty sequence (in order)
   that occurs in the tail of no sequence *)
Fixpoint find_cand (seqs all : list (list Z)) : option Z :=
  match seqs with
  | [] => None
  | [] :: rest => find_cand rest all
  | (h :: _) :: rest => if existsb (in_tail h) all then find_cand rest all else Some h
  end.

Definition drop_head (x : Z) (s : list Z) : list Z :=
  match s with
  | [] => []
  | h :: t => if h =? x then t else s
  end.

Definition is_nil (s : list Z) : bool := match s with [] => true | _ => false end.

(* None = "Cannot create a consistent method resolution order" (TypeError) *)
Fixpoint merge (fuel : nat) (seqs : list (list Z)) : option (list Z) :=
  if forallb is_nil seqs then Some []
  else match fuel with
       | O => None
       | S f =>
         match find_cand seqs seqs with
         | None => None
         | Some h =>
           match merge f (map (drop_head h) seqs) with
           | Some l => Some (h :: l)
           | None => None
           end
         end
       end.

Definition total_len (seqs : list (list Z)) : nat :=
  fold_right (fun s n => (length s + n)%nat) O seqs.

Definition c3_merge (seqs : list (list Z)) : option (list Z) :=
  merge (S (total_len seqs)) seqs.

(* mro(C) = C :: merge (mro(B1), ..., mro(Bn), [B1..Bn]) *)
Definition linearize (c : Z) (base_mros : list (list Z)) (bases : list Z) : option (list Z) :=
  match c3_merge (base_mros ++ [bases]) with
  | Some l => Some (c :: l)
  | None => None
  end.

Fixpoint map_opt {A B} (f : A -> option B) (l : list A) : option (list B) :=
  match l with
  | [] => Some []
  | x :: xs => match f x, map_opt f xs with
               | Some y, Some ys => Some (y :: ys)
               | _, _ => None
               end
  end.

Definition zdedup (l : list Z) : list Z := dedup_acc Z.eqb [] l.

Section Graph.
  Variable g : Z -> list Z.     (* bases of each class *)

  (* _eAllBases_gen: the bases, then the expansion of each base in turn *)
  Fixpoint all_bases (fuel : nat) (c : Z) : list Z :=
    match fuel with
    | O => []
    | S f => g c ++ flat_map (all_bases f) (g c)
    end.

  (* the linearisation Python holds for class c.  alt = the global
     Metasubinstance.mro replacement is installed: C3 is still tried first.
     Fuel bounds the depth of the graph; None on a failure of C3 anywhere
     below (or on exhausted fuel: cyclic graphs). *)
  Fixpoint mro_of (alt : bool) (fuel : nat) (c : Z) : option (list Z) :=
    match fuel with
    | O => None
    | S f =>
      match map_opt (mro_of alt f) (g c) with
      | None => None
      | Some ms =>
        match linearize c ms (g c) with
        | Some l => Some l
        | None => if alt then Some (zdedup (c :: all_bases (S f) c)) else None
        end
      end
    end.
End Graph.

(* ---------- graphs as association tables, token codec ---------- *)

Fixpoint take {A} (n : nat) (l : list A) : list A :=
  match n, l with S n', x :: xs => x :: take n' xs | _, _ => [] end.
Fixpoint drop {A} (n : nat) (l : list A) : list A :=
  match n, l with S n', _ :: xs => drop n' xs | _, _ => l end.

(* class k (1-based) has the k-th entry of the table; everything else is a root *)
Definition table_graph (tbl : list (list Z)) (c : Z) : list Z :=
  if c <=? 0 then [] else nth (Z.to_nat (c - 1)) tbl [].

(* tokens: k1 b.. k2 b.. ...  (k = number of bases of the next class) *)
Fixpoint decode_table (fuel : nat) (t : list Z) : list (list Z) :=
  match fuel with
  | O => []
  | S f => match t with
           | [] => []
           | k :: rest => take (Z.to_nat k) rest :: decode_table f (drop (Z.to_nat k) rest)
           end
  end.

Fixpoint zseq (lo : Z) (n : nat) : list Z :=
  match n with O => [] | S n' => lo :: zseq (lo + 1) n' end.

Definition enc_mro (r : option (list Z)) : list Z :=
  match r with
  | Some l => Z.of_nat (length l) :: l
  | None => [-1]
  end.

(* input: alt ; table tokens.  output: for every class, its linearisation
   (length-prefixed) or -1 *)
Definition run_c3 (t : list Z) : list Z :=
  match t with
  | alt :: rest =>
    let tbl := decode_table (length rest) rest in
    let n := length tbl in
    flat_map (fun c => enc_mro (mro_of (table_graph tbl) (alt =? 1) (S (S n)) c)) (zseq 1 n)
  | [] => []
  end.
