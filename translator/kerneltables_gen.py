"""Kernel family (C01-C07, C11, C13, C19): translate the two DECISION TABLES of the kernel that the
hand-written model Model/Kernel.v relies on into coq/Gen/KernelTables.v:

  1. notification.py  `class Kind(Enum)`  ->  kind_values : list (name, value)
     (Model/KernelIO.v's kind_code must be this numbering: the notification logs of model and
     implementation are compared by these numbers);
  2. valuecontainer.py  `ECollection.create(owner, feature)`  ->  create_kind derived ordered unique
     (the if/elif/else chain over feature.derived / feature.ordered / feature.unique, returning one of the
     collection classes) together with the class table (name, does it inherit EAbstractSet, does it inherit
     list): the model treats a many-valued feature as a duplicate-free ordered set exactly when
     f_unique holds and as a plain list otherwise.

Fail closed: any other shape of the chain (another attribute, a call, a nested statement), an unknown
returned class, a Kind member that is not an int literal => Refused (the runner reports it and the check
says that the tie to the source is broken)."""
import ast
import os

HERE = os.path.dirname(os.path.abspath(__file__))
VERIF = os.path.dirname(HERE)
REPO = os.environ.get('VERIF_REPO', '/repo')
OUT = os.path.join(VERIF, 'coq', 'Gen', 'KernelTables.v')


class Refused(Exception):
    pass


def write_if_changed(path, text):
    old = open(path).read() if os.path.exists(path) else None
    if old != text:
        os.makedirs(os.path.dirname(path), exist_ok=True)
        with open(path, 'w') as f:
            f.write(text)


def coq_name(s):
    return '[' + '; '.join(str(ord(c)) for c in s) + ']%Z'


def kinds():
    src = open(os.path.join(REPO, 'pyecore', 'notification.py')).read()
    tree = ast.parse(src)
    for node in tree.body:
        if isinstance(node, ast.ClassDef) and node.name == 'Kind':
            out = []
            for st in node.body:
                if isinstance(st, ast.Assign) and len(st.targets) == 1 and isinstance(st.targets[0], ast.Name) \
                        and isinstance(st.value, ast.Constant) and isinstance(st.value.value, int) \
                        and not isinstance(st.value.value, bool):
                    out.append((st.targets[0].id, st.value.value))
                elif isinstance(st, ast.Expr) and isinstance(st.value, ast.Constant):
                    continue       # docstring
                else:
                    raise Refused(f'Kind: unexpected member at line {st.lineno}')
            if not out:
                raise Refused('Kind: no members')
            return out
    raise Refused('class Kind not found in notification.py')


ATTRS = {'derived': 'derived', 'ordered': 'ordered', 'unique': 'unique'}


def cond(node):
    """a condition of the chain -> Coq boolean expression over derived/ordered/unique"""
    if isinstance(node, ast.Attribute) and isinstance(node.value, ast.Name) and node.value.id == 'feature' \
            and node.attr in ATTRS:
        return ATTRS[node.attr]
    if isinstance(node, ast.UnaryOp) and isinstance(node.op, ast.Not):
        return f'(negb {cond(node.operand)})'
    if isinstance(node, ast.BoolOp) and isinstance(node.op, ast.And):
        parts = [cond(v) for v in node.values]
        r = parts[0]
        for p in parts[1:]:
            r = f'({r} && {p})'
        return r
    if isinstance(node, ast.BoolOp) and isinstance(node.op, ast.Or):
        parts = [cond(v) for v in node.values]
        r = parts[0]
        for p in parts[1:]:
            r = f'({r} || {p})'
        return r
    raise Refused(f'ECollection.create: condition of unknown shape at line {node.lineno}')


def ret(body, classes):
    if len(body) == 1 and isinstance(body[0], ast.Return) and isinstance(body[0].value, ast.Call) \
            and isinstance(body[0].value.func, ast.Name) and body[0].value.func.id in classes:
        c = body[0].value
        if [a.id if isinstance(a, ast.Name) else None for a in c.args] != ['owner', 'feature'] or c.keywords:
            raise Refused(f'ECollection.create: constructor arguments at line {c.lineno}')
        return c.func.id
    raise Refused(f'ECollection.create: branch of unknown shape at line {body[0].lineno}')


def chain(stmt, classes):
    """an if/elif/else chain -> nested Coq if"""
    if not isinstance(stmt, ast.If):
        raise Refused(f'ECollection.create: statement of unknown shape at line {stmt.lineno}')
    c = cond(stmt.test)
    t = ret(stmt.body, classes)
    if len(stmt.orelse) == 1 and isinstance(stmt.orelse[0], ast.If):
        e = chain(stmt.orelse[0], classes)
    elif stmt.orelse:
        e = f'K_{ret(stmt.orelse, classes)}'
    else:
        raise Refused('ECollection.create: chain without else')
    return f'if {c} then K_{t} else ({e})'


def collections():
    src = open(os.path.join(REPO, 'pyecore', 'valuecontainer.py')).read()
    tree = ast.parse(src)
    bases = {}
    for node in tree.body:
        if isinstance(node, ast.ClassDef):
            bs = []
            for b in node.bases:
                if isinstance(b, ast.Name):
                    bs.append(b.id)
                elif isinstance(b, ast.Attribute):
                    bs.append(b.attr)
                else:
                    raise Refused(f'class {node.name}: base of unknown shape')
            bases[node.name] = bs

    def inherits(c, target, seen=()):
        if c == target:
            return True
        return any(inherits(b, target, seen + (c,)) for b in bases.get(c, []) if b not in seen)
    ecoll = next((n for n in tree.body if isinstance(n, ast.ClassDef) and n.name == 'ECollection'), None)
    if ecoll is None:
        raise Refused('class ECollection not found')
    create = next((n for n in ecoll.body if isinstance(n, ast.FunctionDef) and n.name == 'create'), None)
    if create is None or [a.arg for a in create.args.args] != ['owner', 'feature']:
        raise Refused('ECollection.create(owner, feature) not found')
    body = [s for s in create.body if not (isinstance(s, ast.Expr) and isinstance(s.value, ast.Constant))]
    if len(body) != 1:
        raise Refused('ECollection.create: body is not one if-chain')
    classes = [c for c in bases if inherits(c, 'ECollection') and c != 'ECollection']
    expr = chain(body[0], set(classes))
    table = [(c, inherits(c, 'EAbstractSet') or inherits(c, 'OrderedSet'), inherits(c, 'list')) for c in classes]
    return expr, table


def main():
    try:
        ks = kinds()
        expr, table = collections()
    except Refused as e:
        return str(e)
    lines = ['(* GENERATED by translator/kerneltables_gen.py from pyecore/notification.py and pyecore/valuecontainer.py.',
             '   Do not edit: regenerated on every run. *)',
             'From Coq Require Import ZArith List Bool.', 'Import ListNotations.', '',
             '(* class Kind(Enum): member name (code points), value *)',
             'Definition kind_values : list (list Z * Z) :=',
             '  [ ' + ';\n    '.join(f'({coq_name(n)}, {v}%Z)' for n, v in ks) + ' ].', '',
             '(* the collection classes of valuecontainer.py *)',
             'Inductive ckind : Type := ' + ' | '.join(f'K_{c}' for c, _, _ in table) + '.', '',
             '(* does the class inherit the set behaviour (EAbstractSet / OrderedSet)?  the list behaviour? *)',
             'Definition set_like (k : ckind) : bool :=',
             '  match k with ' + ' | '.join(f'K_{c} => {"true" if s else "false"}' for c, s, _ in table) + ' end.',
             'Definition list_like (k : ckind) : bool :=',
             '  match k with ' + ' | '.join(f'K_{c} => {"true" if li else "false"}' for c, _, li in table) + ' end.', '',
             '(* ECollection.create(owner, feature), as a function of feature.derived / ordered / unique *)',
             'Definition create_kind (derived ordered unique : bool) : ckind :=',
             f'  {expr}.', '']
    write_if_changed(OUT, '\n'.join(lines))
    return None


if __name__ == '__main__':
    print(main() or 'ok')
