(* C04 — multi-valued features behave like the collection they declare.
   Statements only; proofs are in Proofs/OSetProofs.v.
   At the end of this file, on the kernel model (Proofs/SelfExtend.v): c.extend(c) / c += c /
   c.update(c), the argument being the collection itself (OExtend x f (vals s (x,f))), for every
   many-valued feature without opposite and without containment (attributes and plain
   references), from any state: a non-unique collection is doubled as a Python list extended
   by itself, a unique one keeps its content; the call is accepted, no other slot changes, the
   slot is marked set.  (Containment references: Props/C02.v,
   C02_extend_by_the_own_collection_moves_nothing; references WITH a non-containment opposite
   are not covered by a self-extension theorem.) *)
From Coq Require Import ZArith List Bool.
From PyecoreV Require Import Lib.PyBase Lib.PyList Model.OSet Model.Coll Proofs.OSetProofs Gen.KernelTables Proofs.KernelTablesProofs.
Import ListNotations.
Open Scope Z_scope.

(* Every operation of the patched OrderedSet (any index in Z, any element)
   returns/raises what the duplicate-free Python list specification does,
   leaves the same item sequence, and re-establishes the index-map invariant. *)
Theorem C04_step_refines_list :
  forall op o, os_inv o -> step_agree (oset_step op o) (uspec_step op (items o)).
Proof. exact oset_step_refines. Qed.
Print Assumptions C04_step_refines_list.

(* For every finite history from the empty collection (raising calls
   included): the invariant holds and iteration order is the list spec's. *)
Theorem C04_every_history :
  forall ops,
    os_inv (fold_left oset_next ops os_empty) /\
    items (fold_left oset_next ops os_empty) = fold_left uspec_next ops [].
Proof. exact oset_history. Qed.
Print Assumptions C04_every_history.

(* a unique collection never holds an element twice *)
Theorem C04_unique_never_twice :
  forall ops, NoDup (items (fold_left oset_next ops os_empty)).
Proof. intros ops. exact (proj1 (proj1 (oset_history ops))). Qed.
Print Assumptions C04_unique_never_twice.

(* the position reported for an element is the position at which iteration yields it *)
Theorem C04_index_is_position :
  forall x i o, os_inv o ->
    (os_index x o = Ok i <-> (0 <= i /\ nth_error (items o) (Z.to_nat i) = Some x)).
Proof. exact index_is_position. Qed.
Print Assumptions C04_index_is_position.

Theorem C04_membership :
  forall x o, os_inv o -> os_contains x o = memb Z.eqb x (items o).
Proof. exact os_contains_ok. Qed.
Print Assumptions C04_membership.

(* the duplicate-free specification is the plain list whenever no present element is inserted *)
Theorem C04_spec_is_plain_list_when_fresh :
  forall op l,
  (match op with
   | CAppend x | CInsert _ x => ~ In x l
   | CSetItem _ _ | CExtend _ => False
   | _ => True end) ->
  match uspec_step op l, list_step op l with
  | Ok (l1, v1), Ok (l2, v2) => l1 = l2 /\ v1 = v2
  | Err _, Err _ => True
  | _, _ => False
  end.
Proof. exact uspec_eq_list_when_fresh. Qed.
Print Assumptions C04_spec_is_plain_list_when_fresh.

(* non-vacuity: a non-trivial reachable state, its invariant, and the pop(-1) that used to break it *)
Example C04_witness :
  let o := fold_left oset_next [CAppend 10; CInsert (-3) (-1); CAppend 20; CPop (-1); CSetItem 0 10] os_empty in
  items o = [10] /\ os_index 10 o = Ok 0.
Proof. vm_compute. split; reflexivity. Qed.

(* Which collection a declaration gets: ECollection.create, TRANSLATED from valuecontainer.py on every run
   (Gen/KernelTables.v).  A non-derived many-valued feature is set-like exactly when declared unique and
   list-like exactly when not, whatever `ordered` says — the dispatch the models (Coll.v, Kernel.v) make. *)
Theorem C04_the_declared_collection_follows_unique :
  forall ordered unique,
    set_like (create_kind false ordered unique) = unique /\
    list_like (create_kind false ordered unique) = negb unique.
Proof. exact create_follows_unique. Qed.
Print Assumptions C04_the_declared_collection_follows_unique.

(* ---------- a collection extended by itself, on the kernel model ---------- *)
From PyecoreV Require Import Model.Kernel Proofs.SelfExtend.
Open Scope nat_scope.

Theorem C04_list_extended_by_itself_is_doubled :
  forall m f, f_cont (fd m f) = false -> f_opp (fd m f) = None ->
  forall s x,
    f_unique (fd m f) = false -> forallb (check_elem m f) (vals s (x, f)) = true ->
    let s' := next m s (OExtend x f (vals s (x, f))) in
    fst (fst (step m s (OExtend x f (vals s (x, f))))) = None /\
    vals s' (x, f) = vals s (x, f) ++ vals s (x, f) /\
    (forall k, k <> (x, f) -> vals s' k = vals s k) /\
    isset s' (x, f) = true /\ (forall c, cont s' c = cont s c).
Proof. exact self_extend_list. Qed.
Print Assumptions C04_list_extended_by_itself_is_doubled.

Theorem C04_set_updated_by_itself_is_unchanged :
  forall m f, f_cont (fd m f) = false -> f_opp (fd m f) = None ->
  forall s x,
    f_unique (fd m f) = true -> forallb (check_elem m f) (vals s (x, f)) = true ->
    let s' := next m s (OExtend x f (vals s (x, f))) in
    fst (fst (step m s (OExtend x f (vals s (x, f))))) = None /\
    vals s' (x, f) = vals s (x, f) /\
    (forall k, k <> (x, f) -> vals s' k = vals s k) /\
    isset s' (x, f) = true /\ (forall c, cont s' c = cont s c).
Proof. exact self_extend_set. Qed.
Print Assumptions C04_set_updated_by_itself_is_unchanged.

(* [1;2] -> [1;2;1;2] for an EList attribute and an EList reference, unchanged for an EOrderedSet *)
Example C04_self_extend_witness :
  let m := ex_mm_self in
  let s := fold_left (next m) ex_self_ops (init_state m) in
  let after (f : fid) := next m s (OExtend 0 f (vals s (0, f))) in
  (vals s (0, 0), vals s (0, 1), vals s (0, 2)) =
    ([VInt 1%Z; VInt 2%Z], [VInt 1%Z; VInt 2%Z], [VObj 1; VObj 2]) /\
  vals (after 0) (0, 0) = vals s (0, 0) ++ vals s (0, 0) /\
  vals (after 1) (0, 1) = vals s (0, 1) /\
  vals (after 2) (0, 2) = vals s (0, 2) ++ vals s (0, 2) /\
  (vals (after 0) (0, 0), vals (after 1) (0, 1), vals (after 2) (0, 2), inv (after 2) 1) =
    ([VInt 1%Z; VInt 2%Z; VInt 1%Z; VInt 2%Z], [VInt 1%Z; VInt 2%Z], [VObj 1; VObj 2; VObj 1; VObj 2], [(0, 2)]).
Proof. exact self_extend_witness. Qed.
Print Assumptions C04_self_extend_witness.

(* ---------- slice access: c[a:b], c[a:b] = ys, del c[a:b]  (Model/Slice.v, Proofs/SliceProofs.v) ----------
   Step-1 slices with optional bounds, every bound in Z (absent, negative, past the end, crossing).
   List-based collections behave as a Python list does, stated position by position; the element-level
   calls are particular slice calls; OrderedSet-based collections refuse slice writes (only `del c[:]`,
   which empties them) and whole histories mixing element-level and slice calls still refine the
   duplicate-free list specification.  (Extended slices - a step other than 1 - are compared by the
   implementation-vs-list oracle only.) *)
From PyecoreV Require Import Model.Slice Proofs.SliceProofs.
Open Scope Z_scope.

Theorem C04_slice_assignment_position_by_position :
  forall (a b : option Z) (ys l : list Z) (k : nat),
  let '(lo, hi) := slice_bounds (zlen l) a b in
  (0 <= lo /\ lo <= hi /\ hi <= zlen l) /\
  zlen (py_setslice a b ys l) = zlen l - (hi - lo) + zlen ys /\
  nth_error (py_setslice a b ys l) k =
    if Z.of_nat k <? lo then nth_error l k
    else if Z.of_nat k <? lo + zlen ys then nth_error ys (k - Z.to_nat lo)
    else nth_error l (k - length ys + Z.to_nat (hi - lo)).
Proof.
  intros a b ys l k. pose proof (setslice_length a b ys l) as H1. pose proof (setslice_nth a b ys l k) as H2.
  destruct (slice_bounds (zlen l) a b) as [lo hi] eqn:E.
  split; [exact (slice_bounds_range _ _ _ _ _ (zlen_nonneg l) E) | split; assumption].
Qed.
Print Assumptions C04_slice_assignment_position_by_position.

Theorem C04_slice_read_position_by_position :
  forall (a b : option Z) (l : list Z) (k : nat),
  let '(lo, hi) := slice_bounds (zlen l) a b in
  zlen (py_getslice a b l) = hi - lo /\
  nth_error (py_getslice a b l) k = if Z.of_nat k <? hi - lo then nth_error l (Z.to_nat lo + k) else None.
Proof.
  intros a b l k. pose proof (getslice_length a b l) as H1. pose proof (getslice_nth a b l k) as H2.
  destruct (slice_bounds (zlen l) a b) as [lo hi]. split; assumption.
Qed.
Print Assumptions C04_slice_read_position_by_position.

(* deletion leaves what is read before and behind the slice; the whole slice reads / replaces / empties everything;
   writing back what was read changes nothing; what was written is read back where it was written *)
Theorem C04_slice_laws :
  forall (a b : option Z) (ys l : list Z),
  (let '(lo, hi) := slice_bounds (zlen l) a b in
   py_delslice a b l = py_getslice None (Some lo) l ++ py_getslice (Some hi) None l /\
   py_getslice (Some lo) (Some (lo + zlen ys)) (py_setslice a b ys l) = ys) /\
  py_setslice a b (py_getslice a b l) l = l /\
  py_getslice None None l = l /\ py_setslice None None ys l = ys /\ py_delslice None None l = [].
Proof.
  intros a b ys l. pose proof (delslice_is_rest a b l) as H1. pose proof (getslice_setslice a b ys l) as H2.
  destruct (slice_bounds (zlen l) a b) as [lo hi].
  split; [split; assumption|].
  split; [apply setslice_getslice_id|]. split; [apply getslice_all|]. split; [apply setslice_all | apply delslice_all].
Qed.
Print Assumptions C04_slice_laws.

(* the element-level calls of a list-based collection are slice calls *)
Theorem C04_element_calls_are_slice_calls :
  forall (x : Z) (ys l : list Z),
  (forall i, py_setslice (Some i) (Some i) [x] l = py_insert i x l) /\
  (forall k, 0 <= k < zlen l -> py_setslice (Some k) (Some (k + 1)) [x] l = set_at (Z.to_nat k) x l) /\
  (forall k, 0 <= k < zlen l -> py_delslice (Some k) (Some (k + 1)) l = remove_at (Z.to_nat k) l) /\
  py_setslice (Some (zlen l)) None ys l = l ++ ys.
Proof.
  intros x ys l. split; [intros i; apply insert_is_setslice|].
  split; [intros k H; apply setitem_is_setslice; exact H|].
  split; [intros k H; apply delitem_is_delslice; exact H | apply extend_is_setslice].
Qed.
Print Assumptions C04_element_calls_are_slice_calls.

(* unique collections: every history mixing element-level and slice calls (refused ones included) keeps the
   invariant, never holds an element twice and iterates as the duplicate-free list specification *)
Theorem C04_every_history_with_slices :
  forall ops,
    os_inv (fold_left (snext soset_step) ops os_empty) /\
    NoDup (items (fold_left (snext soset_step) ops os_empty)) /\
    items (fold_left (snext soset_step) ops os_empty) = fold_left (snext suspec_step) ops [].
Proof.
  intros ops. destruct (soset_history ops) as [H1 H2]. split; [exact H1|]. split; [exact (proj1 H1) | exact H2].
Qed.
Print Assumptions C04_every_history_with_slices.

(* non-vacuity: crossing, negative and absent bounds on [1;2;3;4;5], and a unique collection that refuses *)
Example C04_slice_witness :
  py_setslice (Some 1) (Some 3) [8; 9; 7] [1; 2; 3; 4; 5] = [1; 8; 9; 7; 4; 5] /\
  py_setslice (Some 4) (Some 2) [0] [1; 2; 3; 4; 5] = [1; 2; 3; 4; 0; 5] /\
  py_setslice (Some (-2)) None [] [1; 2; 3; 4; 5] = [1; 2; 3] /\
  py_getslice (Some (-9)) (Some (-1)) [1; 2; 3; 4; 5] = [1; 2; 3; 4] /\
  py_delslice (Some 7) (Some 9) [1; 2; 3] = [1; 2; 3] /\
  items (fold_left (snext soset_step)
           [SOp (CAppend 10); SOp (CAppend 20); SSetSlice (Some 0) (Some 1) [30]; SDelSlice (Some 0) None] os_empty) = [10; 20] /\
  items (fold_left (snext soset_step) [SOp (CAppend 10); SOp (CAppend 20); SDelSlice None None] os_empty) = [].
Proof. vm_compute. repeat split; reflexivity. Qed.
