"""C09 -- JSON save then load reproduces the model.

  Coq (Props/C09.v): value mapping of attributes (JSON-native for int/float/bool/str types, to_string /
      from_string otherwise, None <-> null), no element twice under a unique feature during load, order of
      a bidirectional end (Model/JsonVal.v, Model/RefLoad.v)
  correspondence: the extracted value mapping against the JSON text pyecore writes for a one-object model
      (json.loads of the bytes: type and content of the value) and against the value pyecore loads;
      the filling order of a bidirectional end on edited (one-sided) documents
  whole documents (harness/jsondoc.py, Model/JsonDoc.v, theorem C09_document_round_trip): on generated
      metamodels / models restricted to the modelled fragment (one package, positional fragments, no uuid, no id
      attribute) (a) json.loads of the bytes the real save wrote = run_jsondoc_enc on the abstract forest read from
      the real objects (entries of an object compared as sorted by key: the order of `_isset` is not modelled),
      (b) the observation of the real load of those bytes = run_jsondoc_dec on that document, and every generated
      state satisfies the premises wf_forest / jwf_forest of the theorem
  oracle: generated metamodels x models x options; save; load in a fresh ResourceSet; equal canonical dumps
      (proxies resolved); C01-C03 on the loaded model; no element twice under a unique feature.
  scenario families (harness/jsonscen.py, implementation only, own PRNG streams 'C09:save-history' /
      'C09:subpackages', replay through common.scenario_replay): histories of successful and FAILING saves and
      position-shifting edits on ONE resource object with no load in between, every saved document loaded afterwards
      in a fresh ResourceSet (fragment, id-attribute and uuid modes); metamodels with nested sub-packages holding
      same-named classes / enumerations / data types whose same-named features differ in type or kind, compared
      exactly (value and Python type of every attribute value); TWO FILES referring to each other ('C09:two-files':
      every mix of fragment / id-attribute / uuid mode per resource, one or two directories, single and many,
      unidirectional and 1-1 / 1-n / n-n references, both load orders, every proxy followed; targets by name, unique
      ends as sets without an element twice -- a proxy and its target are one element --, symmetric opposites); every
      built-in data type incl. the wrapper types EBooleanObject, EIntegerObject, ... ('C09:datatypes'); features flagged
      volatile / unsettable / changeable=False / transient / derived in many combinations ('C09:feature-flags'): exactly
      the transient and derived ones are missing after a round trip.
  placement_scenarios (this file, stream 'C09:placement'): 2-3 resources referring to each other, placed in directories that
      are equal / nested / apart / whose NAMES extend one another (model, model2, model2/sub, mode), each written by save(),
      save(output=<path>), save(output=<URI object the caller keeps>) or additionally to a second file next to its own; small
      and large documents, fragment / uuid mode, 1-2 roots; once the saves have returned every file is loaded in a fresh
      ResourceSet, every proxy followed, and compared with the description of the model taken before the saves.
"""
import json
import time

from harness import common
from harness import ser_gen as G
from harness import ser_rt as R
from harness import jsondoc as JD
from harness import jsonscen as JS
from harness.props import c08 as X

PROP = 'C09'
TAGS = {'EInt': 0, 'ELong': 0, 'EBigInteger': 0, 'EDouble': 1, 'EFloat': 1, 'EBoolean': 2, 'EString': 3, 'EChar': 3}
LIM = 2 ** 61


class FloatNames:
    """floats travel to the model under small integer names (the model only passes them on)"""

    def __init__(self):
        self.names = {}
        self.values = []

    def name(self, f):
        k = repr(f)
        if k not in self.names:
            self.names[k] = len(self.values)
            self.values.append(f)
        return self.names[k]


def pyv_tokens(v, tag, et, fl):
    if v is None:
        return [0]
    if tag == 4:
        return [5] + X.put_ostr(et.to_string(v))
    if isinstance(v, bool):
        return [3, 1 if v else 0]
    if isinstance(v, int):
        return [1, v]
    if isinstance(v, float):
        return [2, fl.name(v)]
    if isinstance(v, str):
        return [4] + X.put_ostr(v)
    raise ValueError(v)


def read_jv(t, fl):
    k = t.z()
    if k == 0:
        return ('null',)
    if k == 1:
        return ('int', t.z())
    if k == 2:
        return ('float', repr(fl.values[t.z()]))
    if k == 3:
        return ('bool', t.z() == 1)
    if k == 4:
        return ('str', t.ostr())
    return ('bad',)


def read_pyv(t, fl, et):
    """the model's loaded value as a tagged value (an object named by its text goes through from_string)"""
    k = t.z()
    if k == 0:
        return ['n']
    if k == 1:
        return ['i', t.z()]
    if k == 2:
        return G.tag_value(fl.values[t.z()])
    if k == 3:
        return ['b', t.z() == 1]
    if k == 4:
        return ['s', t.ostr()]
    if k == 5:
        return G.tag_value(et.from_string(t.ostr()))
    return ['raise']


def raw_jv(x):
    if x is None:
        return ('null',)
    if isinstance(x, bool):
        return ('bool', x)
    if isinstance(x, int):
        return ('int', x)
    if isinstance(x, float):
        return ('float', repr(x))
    if isinstance(x, str):
        return ('str', x)
    return ('other', type(x).__name__)


def small(v):
    return not (v[0] == 'i' and abs(v[1]) >= LIM)


def corr_values(out, model, st, rng, built, mm, t_end):
    types = G.DATATYPES + [G.ENUM['name']]
    fl = FloatNames()
    while time.time() < t_end:
        typ = rng.choice(types)
        kind = rng.choice(['m', 'u', 's', 'l', 'x', 'b'])
        fname = f'{kind}_{typ}'
        feat = built.features[fname]
        et = feat.eType
        tag = TAGS.get(typ, 4)
        single = kind in X.SINGLE_KINDS
        opts = {'uuid': rng.random() < 0.2, 'serialize_default': rng.random() < (0.4 if single else 0.8)}
        if single:
            v = X.gen_single_value(rng, typ, mm, G.find_feature(mm, 'A', fname))
            if not small(v):
                v = ['i', 7]
            sets = [[fname, v]]
        else:
            vals = []
            for _ in range(rng.choice([0, 1, 2, 3, 5])):
                e = ['n'] if rng.random() < 0.1 else G.gen_value(rng, typ, mm, 'json')
                vals.append(e if small(e) else ['i', -7])
            sets = [[fname, vals]]
        md = {'roots': [0], 'objs': {'0': {'cls': 'A', 'sets': sets}}}
        rt = R.RoundTrip(mm, md, 'json', opts, built=built, keep_loaded=True)
        case = {'mm': 'corr_mm', 'md': md, 'format': 'json', 'options': opts}
        if rt.stage is not None:
            out.diff(f'{rt.stage} raised {type(rt.exc).__name__}: {rt.exc} (the model predicts a document)', case)
            continue
        doc = json.loads(rt.data.decode('utf-8'))
        if isinstance(doc, list) and len(doc) == 1:
            doc = doc[0]            # a single root may be written alone or as a one-element list
        src = rt.inst[0]
        st['value_documents'] += 1
        if single:
            val = src.eGet(fname)
            dflt = feat.get_default_value()
            if isinstance(dflt, int) and not isinstance(dflt, bool) and abs(dflt) >= LIM:
                continue            # the driver protocol carries integers below 2**61
            sd = bool(opts['serialize_default'])
            dt = pyv_tokens(dflt, tag, et, fl)
            # the writer compares values; the model compares names: values equal under == carry one name
            vt = dt if (not sd and val is not None and dflt is not None and val == dflt) else pyv_tokens(val, tag, et, fl)
            t = X.Toks(model.ask('jsonval', [10, tag, 1 if sd else 0] + dt + vt))
            present = t.z() == 1
            mj = read_jv(t, fl) if present else None
            mv = read_pyv(t, fl, et)
            rv = G.tag_value(rt.loaded.contents[0].eGet(fname))
            st['entries_left_out' if not present else 'entries_written'] += 1
            if present != (fname in doc):
                out.diff(f'{fname} = {val!r} (default {dflt!r}, serialize_default={sd}): model '
                         f'{"writes" if present else "leaves out"} the entry, pyecore {"wrote" if fname in doc else "left out"} it', case)
            elif present and mj != raw_jv(doc[fname]):
                out.diff(f'JSON value of {fname}: model {mj!r} pyecore wrote {raw_jv(doc[fname])!r}', case)
            elif mv != rv:
                out.diff(f'loaded value of {fname}: model {mv!r} pyecore {rv!r}', case)
            if present:
                st['kinds'][mj[0]] = st['kinds'].get(mj[0], 0) + 1
        else:
            vals = list(src.eGet(fname))
            if fname not in doc:
                if vals and opts['serialize_default']:
                    out.diff(f'{fname} = {vals!r} was not written', case)
                elif [G.tag_value(x) for x in rt.loaded.contents[0].eGet(fname)] != [G.tag_value(x) for x in vals]:
                    out.diff(f'{fname} not written and loaded differently', case)
                st['skipped_as_default'] += 1
                continue
            if not isinstance(doc[fname], list) or len(doc[fname]) != len(vals):
                out.diff(f'{fname}: pyecore wrote {doc[fname]!r} for {len(vals)} values', case)
                continue
            lv = [G.tag_value(x) for x in rt.loaded.contents[0].eGet(fname)]
            mvs = []
            for x, jx in zip(vals, doc[fname]):
                t = X.Toks(model.ask('jsonval', [tag] + pyv_tokens(x, tag, et, fl)))
                mj = read_jv(t, fl)
                mvs.append(read_pyv(t, fl, et))
                st['kinds'][mj[0]] = st['kinds'].get(mj[0], 0) + 1
                if mj != raw_jv(jx):
                    out.diff(f'JSON value in {fname}: model {mj!r} pyecore wrote {raw_jv(jx)!r}', case)
                    break
            else:
                if kind == 'm' and mvs != lv:
                    out.diff(f'loaded values of {fname}: model {mvs!r} pyecore {lv!r}', case)
                elif kind == 'u':
                    # a unique collection: the loaded values are the model's, first occurrences only
                    ded = []
                    for e in mvs:
                        if e not in ded:
                            ded.append(e)
                    if ded != lv and mvs != lv:
                        out.diff(f'loaded values of {fname}: model {ded!r} pyecore {lv!r}', case)


def regression_cases():
    cases = list(X.regression_cases())
    mm = cases[0][1]
    no = {'uuid': False, 'serialize_default': False}
    cases += [
        ('json-none-typed', mm, {'roots': [0], 'objs': {'0': {'cls': 'A', 'sets': [
            ['n', ['n']], ['flag', ['n']], ['when', ['n']], ['dec', [['n'], ['D', '1.10']]], ['ints', [['n'], ['i', 3]]]]}}}, no),
        ('json-none-reference-serialize-default', mm, {'roots': [0], 'objs': {'0': {'cls': 'A', 'sets': [['abs', None], ['s1', None]]}}},
         dict(no, serialize_default=True)),
        ('json-many-many-between-children', mm,
         {'roots': [0], 'objs': {'0': {'cls': 'A', 'sets': [['kids', [1, 2, 3]]]},
                                 '1': {'cls': 'A', 'sets': [['r', [3, 2]]]}, '2': {'cls': 'A', 'sets': [['r', [1, 3, 2]]]},
                                 '3': {'cls': 'A', 'sets': [['q', [0]]]}}}, no),
        ('json-id-reference', mm,
         {'roots': [0], 'objs': {'0': {'cls': 'A', 'sets': [['kids', [1]], ['plain', [1, 1]], ['s1', 1]]},
                                 '1': {'cls': 'A', 'sets': [['ident', ['s', 'k1']]]}}}, no),
        # a resource without root: save raised IndexError before 3dec3c1
        ('json-empty-resource', mm, {'roots': [], 'objs': {}}, no),
        ('json-empty-resource-serialize-default', mm, {'roots': [], 'objs': {}}, dict(no, serialize_default=True)),
    ]
    out = []
    for name, m, md, opts in cases:
        o = {k: v for k, v in opts.items() if k in ('uuid', 'serialize_default')}
        out.append((name, m, md, o))
    return out


# ---------------------------------------------------------------- where and how the documents are written
PLACE_STEMS = ['model', 'v1', 'data', 'm', 'lib.d', 'x_y']
PLACE_SUFFIXES = ['2', '0', '_bak', 's', '.old', '-1']
PLACE_FILES = ['a', 'b', 'a2', 'm', 'model']
SAVE_WAYS = ['plain', 'output-string', 'output-uri-kept', 'output-uri-kept', 'export-uri-kept', 'export-string']


def _placement_metamodel():
    from pyecore.ecore import (EPackage, EClass, EAttribute, EReference, EString, EInt, EBoolean, EFloat, EIntegerObject)
    pkg = EPackage('place', nsURI='http://verif/c09/placement', nsPrefix='place')
    Node = EClass('Node')
    feats = Node.eStructuralFeatures
    feats.append(EAttribute('name', EString))
    feats.append(EAttribute('count', EInt))
    feats.append(EAttribute('flag', EBoolean))
    feats.append(EAttribute('ratio', EFloat))
    feats.append(EAttribute('opt', EIntegerObject))
    feats.append(EAttribute('marks', EInt, upper=-1))
    feats.append(EReference('kids', Node, upper=-1, containment=True))
    feats.append(EReference('link', Node))
    feats.append(EReference('links', Node, upper=-1))
    pkg.eClassifiers.append(Node)
    return pkg, Node


def _placement_snapshot(roots):
    """every object under its (unique) name: attribute values with their Python types, children in order, reference
    targets by name -- every proxy is followed"""
    d = {}

    def tv(v):
        return [type(v).__name__, v]

    def walk(o):
        d[o.name] = {'count': tv(o.count), 'flag': tv(o.flag), 'ratio': tv(o.ratio), 'opt': tv(o.opt),
                     'marks': [tv(x) for x in o.marks], 'kids': [k.name for k in o.kids],
                     'link': None if o.link is None else JS._resolved(o.link).name,
                     'links': [JS._resolved(x).name for x in o.links]}
        for k in o.kids:
            walk(k)
    for r in roots:
        walk(r)
    return {'roots': [r.name for r in roots], 'objs': d}


def _placement_dirs(rng):
    """a few directories (relative, as lists of segments) related in the ways directories are: the same, a child, a
    sibling, a sibling whose NAME extends / shortens the other's name, a directory further up"""
    dirs = [[rng.choice(PLACE_STEMS)] if rng.random() < 0.8 else [rng.choice(PLACE_STEMS), rng.choice(PLACE_STEMS)]]
    for _ in range(rng.choice([1, 2, 2, 3])):
        d = rng.choice(dirs)
        op = rng.choice(['suffix', 'suffix', 'child', 'sibling', 'shorten', 'suffix-child', 'up'])
        if op == 'suffix':
            n = d[:-1] + [d[-1] + rng.choice(PLACE_SUFFIXES)]
        elif op == 'child':
            n = d + [rng.choice(PLACE_STEMS + PLACE_SUFFIXES + ['sub'])]
        elif op == 'sibling':
            n = d[:-1] + [rng.choice(PLACE_STEMS)]
        elif op == 'shorten':
            n = d[:-1] + [d[-1][:-1] if len(d[-1]) > 1 else d[-1] + 'q']
        elif op == 'suffix-child':
            n = d[:-1] + [d[-1] + rng.choice(PLACE_SUFFIXES), rng.choice(PLACE_STEMS + ['sub'])]
        else:
            n = d[:-1] if len(d) > 1 else d
        dirs.append(n)
    return dirs


def placement_scenarios(ctx, out):
    """2-3 JSON resources referring to each other (and to themselves), placed in directories that are equal, nested,
    unrelated or whose names extend one another (model / model2 / model2/sub / mode), each written in one of the ways save
    offers -- save(), save(output=<path>), save(output=<URI object the caller keeps>), the same to a second file next to
    the resource's own -- with small and large documents, fragment and uuid mode, one or two roots.  As soon as the last
    save has returned (the kept URI objects still alive) every written file is loaded in a fresh ResourceSet, every
    proxy is followed, and the model is compared with the description taken before the saves."""
    import os
    import tempfile
    common.use_repo()
    from pyecore.resources import URI
    rng = common.rng_for(ctx.seed, 'C09:placement')
    n = 140 if ctx.tier != 'thorough' else 2500
    pkg, Node = _placement_metamodel()
    st = {'cases': 0, 'documents_loaded_and_compared': 0, 'save_ways': {}, 'dir_relations': {}, 'cross_file_links': 0,
          'large_documents': 0, 'uuid_resources': 0}
    for it in range(n):
        dirs = _placement_dirs(rng)
        k = rng.choice([2, 2, 3])
        places = []
        while len(places) < k:
            pl = [rng.choice(dirs), rng.choice(PLACE_FILES) + '.json']
            if pl not in places:
                places.append(pl)
        uuids = [rng.random() < 0.3 for _ in range(k)]
        ways = [rng.choice(SAVE_WAYS) for _ in range(k)]
        large = rng.random() < 0.12
        order = list(range(k))
        rng.shuffle(order)
        first_loaded = rng.randrange(k)
        # the models
        roots, objs, where = [[] for _ in range(k)], [], {}
        for i in range(k):
            for r in range(rng.choice([1, 1, 2])):
                root = Node(name=f'r{i}_{r}')
                roots[i].append(root)
                level = [root]
                objs.append(root)
                where[root.name] = i
                for depth in range(2):
                    nxt = []
                    for parent in level:
                        cnt = rng.choice([0, 1, 2, 3])
                        if large and depth == 0 and i == 0 and r == 0:
                            cnt = rng.choice([150, 400])
                        for c in range(cnt):
                            kid = Node(name=f'{parent.name}.{c}' + ('_long_name_' * 3 if large else ''))
                            parent.kids.append(kid)
                            nxt.append(kid)
                            objs.append(kid)
                            where[kid.name] = i
                    level = nxt[:6]
        sets = []
        for o in objs[:60]:
            if rng.random() < 0.5:
                o.count = rng.choice([0, 1, -1, 7, 2 ** 40, -3 * 10 ** 20])
            if rng.random() < 0.3:
                o.flag = rng.random() < 0.7
            if rng.random() < 0.3:
                o.ratio = rng.choice([0.0, 2.5, -1.25, 1e22, 3.0])
            if rng.random() < 0.3:
                o.opt = rng.choice([0, 5, None])
            if rng.random() < 0.3:
                o.marks.extend(rng.choice([[0], [7, 7], [1, 2, 7 * 10 ** 20]]))
            if rng.random() < 0.6:
                o.link = rng.choice(objs)
                sets.append([o.name, 'link', o.link.name])
                st['cross_file_links'] += where[o.name] != where[o.link.name]
            if rng.random() < 0.4:
                for t in rng.sample(objs, min(len(objs), rng.choice([1, 2, 3]))):
                    o.links.append(t)
                    sets.append([o.name, 'links', t.name])
                    st['cross_file_links'] += where[o.name] != where[t.name]
        hist = [[['/'.join(d), f] for d, f in places], ['uuid' if u else 'fragment' for u in uuids], ways,
                'large' if large else 'small', ['save order'] + order, ['first loaded', first_loaded],
                sets if len(sets) <= 40 else sets[:40] + [f'... {len(sets)} references']]
        case = {'scenario': 'placement', 'seed': ctx.seed, 'tier': ctx.tier, 'format': 'json', 'history': hist}
        sig = {'property': PROP, 'clause': 'placement', 'format': 'json'}
        st['cases'] += 1
        st['large_documents'] += large
        st['uuid_resources'] += sum(uuids)
        for w in ways:
            st['save_ways'][w] = st['save_ways'].get(w, 0) + 1
        for i in range(k):
            for j in range(k):
                if i != j:
                    a, b = '/'.join(places[i][0]), '/'.join(places[j][0])
                    rel = 'same' if a == b else 'below' if b.startswith(a + '/') else 'above' if a.startswith(b + '/') else \
                        'name-extends' if b.startswith(a) else 'name-shortens' if a.startswith(b) else 'apart'
                    st['dir_relations'][rel] = st['dir_relations'].get(rel, 0) + 1
        kept = []
        with tempfile.TemporaryDirectory(prefix='verif_place_') as tmp:
            try:
                paths, files = [], []
                for d, f in places:
                    os.makedirs(os.path.join(tmp, *d), exist_ok=True)
                    paths.append(os.path.join(tmp, *d, f))
                rs = JS._rset('json', pkg)
                ress = []
                for i in range(k):
                    res = rs.create_resource(URI(paths[i]), use_uuid=uuids[i])
                    res.extend(roots[i])
                    ress.append(res)
                want = [_placement_snapshot(roots[i]) for i in range(k)]
                try:
                    for i in order:
                        way, res = ways[i], ress[i]
                        export = os.path.join(os.path.dirname(paths[i]), 'export_' + places[i][1])
                        if way == 'plain':
                            res.save()
                        elif way == 'output-string':
                            res.save(output=paths[i])
                        elif way == 'output-uri-kept':
                            kept.append(URI(paths[i]))
                            res.save(output=kept[-1])
                        elif way == 'export-uri-kept':
                            # the resource's own file (the others refer to it) and a second document next to it
                            res.save()
                            kept.append(URI(export))
                            res.save(output=kept[-1])
                            files.append((i, export))
                        else:
                            res.save()
                            res.save(output=export)
                            files.append((i, export))
                        files.append((i, paths[i]))
                except Exception as e:      # noqa
                    out.fail(dict(sig, stage='save'), f'save ({way}) raised {type(e).__name__}: {e} on {hist[:5]}', case)
                    continue
                # the saves have returned: every file is a document of its model
                files.sort(key=lambda x: (x[0] != first_loaded, x[0], x[1]))
                for i, fpath in files:
                    label = f'{os.path.relpath(fpath, tmp)} ({ways[i]}, {"uuid" if uuids[i] else "fragment"})'
                    try:
                        rs2 = JS._rset('json', pkg)
                        loaded = rs2.get_resource(URI(fpath))
                        got = _placement_snapshot(list(loaded.contents))
                    except Exception as e:      # noqa
                        size = os.path.getsize(fpath) if os.path.exists(fpath) else None
                        out.fail(dict(sig, stage='load'), f'{label}, {size} bytes on disk once save had returned: loading / '
                                 f'following the references raised {type(e).__name__}: {str(e)[:200]} on {hist[:5]}', case)
                        break
                    st['documents_loaded_and_compared'] += 1
                    if got != want[i]:
                        if got['roots'] != want[i]['roots']:
                            what = f'roots saved {want[i]["roots"]} loaded {got["roots"]}'
                        else:
                            bad = [(nm, f, want[i]['objs'][nm][f], got['objs'].get(nm, {}).get(f)) for nm in want[i]['objs']
                                   for f in want[i]['objs'][nm] if got['objs'].get(nm, {}).get(f) != want[i]['objs'][nm][f]]
                            what = f'(object, feature, saved, loaded) {bad[:3]}'
                        out.fail(dict(sig, stage='compare'), f'{label}: the loaded model differs: {what} on {hist[:5]}', case)
                        break
            finally:
                for u in kept:
                    u.close_stream()
    out.coverage['placement_json'] = st


def run(ctx, out):
    common.use_repo()
    thorough = ctx.tier == 'thorough'
    t0 = time.time()
    budget = 480 if thorough else 34
    # scenario families on the implementation only (harness/jsonscen.py), each with its own PRNG stream; their time is
    # taken from the budget of the generated oracle cases
    ts = time.time()
    X.guarded(out, 'save histories', JS.save_history_scenarios, ctx, out)
    X.guarded(out, 'same-named classes in sub-packages', JS.subpackage_scenarios, ctx, out)
    X.guarded(out, 'two files referring to each other', JS.two_file_scenarios, ctx, out)
    X.guarded(out, 'built-in data types', JS.datatype_scenarios, ctx, out)
    X.guarded(out, 'feature flags', JS.feature_flag_scenarios, ctx, out)
    X.guarded(out, 'placement of the files and ways to save', placement_scenarios, ctx, out)
    budget -= min(time.time() - ts, 0.2 * budget)
    model = common.Model()
    mm = X.corr_mm()
    built = G.Built(mm)
    st = {'value_documents': 0, 'skipped_as_default': 0, 'entries_left_out': 0, 'entries_written': 0, 'kinds': {}, 'refload_documents': 0}
    X.guarded(out, 'bidirectional ends', X.corr_refload, out, model, st, ctx.rng, built, mm, 1500 if thorough else 200, fmt='json')
    X.guarded(out, 'attribute values', corr_values, out, model, st, ctx.rng, built, mm, t0 + budget * 0.4)
    stats = R.new_stats()
    # whole documents: extra time on top of the budget of the other sections (quick: <= 10 s); its own generator,
    # derived from the seed, so that the case stream of the oracle below stays what it was
    tx = time.time()
    jst = {}
    X.guarded(out, 'whole documents', JD.corr_jsondoc, PROP, out, model, jst, common.rng_for(ctx.seed, 'C09:jsondoc'),
              6000 if thorough else 400, tx + (150 if thorough else 10), stats)
    budget += time.time() - tx
    model.close()
    R.oracle_loop(PROP, 'json', ctx, out, max(5, t0 + budget - time.time()), stats, regression_cases())
    traces = st['value_documents'] + st['refload_documents'] + 2 * jst.get('cases', 0)
    scen = out.coverage.get('save_history_json', {}).get('documents_loaded_and_compared', 0) \
        + out.coverage.get('subpackages_json', {}).get('documents', 0) \
        + 2 * out.coverage.get('two_files_json', {}).get('cases', 0) + out.coverage.get('datatypes_json', {}).get('documents', 0) \
        + out.coverage.get('feature_flags_json', {}).get('documents', 0) \
        + out.coverage.get('placement_json', {}).get('documents_loaded_and_compared', 0)
    out.coverage.update({
        'evaluations': stats['cases'] + traces + scen,
        'scenario_documents': scen,
        'oracle_cases': stats['cases'],
        'distinct_nontrivial': len(stats['distinct_dumps']),
        'rule': 'oracle: a case = (generated metamodel, generated model, save options) saved as JSON and loaded in a fresh '
                'ResourceSet; distinct_nontrivial = number of distinct canonical dumps among them. correspondence: a trace = one '
                'document written by pyecore whose JSON value (type and content, read back with json.loads) and loaded value are '
                'compared with the extracted Coq value mapping, and edited one-sided documents for the bidirectional ends; '
                'jsondoc_cases = whole documents (generated metamodel + model + options) whose JSON written by the real save '
                'equals encode_jdoc AND whose real load equals decode_jdoc (two traces each)',
        'traces_validated_against_impl': traces,
        'correspondence': st,
        'jsondoc_cases': jst.get('cases', 0),
        'jsondoc': {k: v for k, v in jst.items() if k != 'samples'},
        'jsondoc_samples': jst.get('samples', []),
        'metamodels': stats['metamodels'], 'regression_cases': stats['regression_cases'],
        'failing_cases': stats['failing_cases'], 'shrink_steps': stats['shrink_steps'],
        'distribution': {'options': stats['options'], 'roots': stats['roots'], 'objects': stats['objects'],
                         'feature_shapes': stats['feature_shapes'], 'value_classes': stats['value_classes']},
        'samples': stats['samples'],
    })
    out.assumptions += [
        'A-json: json.dumps/json.loads map int, float, bool, str, None and lists to themselves (NaN not generated)',
        'the value correspondence uses integers below 2**61 (the driver protocol); the oracle covers unbounded integers',
        'isomorphism = equality of harness/ser_gen.dump with proxies resolved (floats/decimals/dates by value)',
        'references stay inside the resource (cross-resource references, which remain lazy proxies: C14)',
        'the semantic round trip over whole documents is proved for the fragment of Model/JsonDoc.v (C09_document_round_trip) and '
        'tied by harness/jsondoc.py; outside that fragment (uuid, id attributes as $ref, odd ids) it is checked by the oracle only',
        'jsondoc: the entries of a JSON object are compared as sorted by key (insertion order of _isset is not modelled)',
    ]


SCENARIOS = {'save-history': JS.save_history_scenarios, 'subpackages': JS.subpackage_scenarios,
             'two-files': JS.two_file_scenarios, 'datatypes': JS.datatype_scenarios,
             'feature-flags': JS.feature_flag_scenarios, 'placement': placement_scenarios}


def replay(ctx, rep):
    common.use_repo()
    case = rep['case']
    if case.get('scenario') in SCENARIOS:
        return common.scenario_replay(ctx, rep, SCENARIOS)
    if case.get('mm') == 'corr_mm':
        case = dict(case, mm=X.corr_mm())
        rep = dict(rep, case=case, signature=None)
    return R.replay(PROP, rep)
