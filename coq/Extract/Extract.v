(* Extraction of the executable models (trusted base: ExtrOcamlBasic only;
   Z, positive and nat stay extracted inductive datatypes). *)
From Coq Require Import ExtrOcamlBasic.
From PyecoreV Require Import Model.Coll Model.KernelIO Model.Fragment Model.Commands Model.SaveFsIO Model.DataConv Model.C3 Model.Operations Model.MetaEdit Model.EcoreIO.
Extraction "modelgen.ml" run_coll run_kernel run_frag run_commands run_savefs run_dataconv run_c3 run_sig run_promote run_iskw run_metaedit run_ecoremm.
