(* C16 — the ORDER OF EFFECTS of XMIResource.save / JsonResource.save over a
   one-file file system, and the id/bytes bookkeeping of a save.

   Part 1 (file system).  The target of a save is one file whose content is
   `None` (absent) or `Some bytes`.  A save is a sequence of steps, in the order
   in which the source performs them (the order itself is NOT written here: it
   is translated from the AST of xmi.py / json.py into Gen/SaveOrder.v):
     SOpen    Resource.open_out_stream -> URI.create_outstream = open(path,'wb'):
              the file exists and is EMPTY from this moment on
     SBuild   _go_across / to_dict over every object of the resource: raises at
              the first unserialisable element (position p of the traversal)
     SEncode  json.dumps of the dict (bytes exist before anything is written)
     SWrite   stream.write + flush: the file holds the new bytes; when no SEncode
              came before (lxml's tree.write(stream)) serialisation happens here
     SFlush   stream.flush(): the bytes written reach the file
     SClose   uri.close_stream(): flushes/closes the stream of the resource's OWN uri only
   An exception stops the save and keeps whatever the file holds at that
   moment (nothing in `save` catches it).  `Stuck` flags an order that cannot be
   executed at all (write before open, encode before build, ...): it is a model
   artefact that the theorems exclude for the generated orders.

   Part 2 (model side of a save).  A resource is a list of objects, each with
   an optional internal id and an observable payload; saving in uuid mode gives
   an id (next element of the uuid stream) to every object that has none and
   then encodes ids and payloads.  No proofs here. *)
From Coq Require Import ZArith List Bool.
Import ListNotations.
Open Scope Z_scope.

(* ------------------------------------------------------------------ *)
(* Part 1: order of effects                                            *)

Inductive step : Type := SOpen | SBuild | SNs | SEncode | SBytes | SWrite | SFlush | SClose.
(* SNs    the root element is created with the namespace map collected during the traversal
          (lxml Element(tag, nsmap=...)): raises for a package without nsURI or with an nsPrefix
          that is not an XML name
   SBytes text.encode('utf-8'): raises for a string that UTF-8 cannot represent (a lone surrogate)
   SFlush stream.flush(): what was written reaches the file *)

Definition content := option (list Z).

Inductive outcome : Type := Done | Raised | Stuck.

(* what one save has to do: number of positions at which the tree/dict construction can fail,
   at which encoding can fail, at which the namespace step can fail; whether the target is the
   resource's own URI (then uri.close_stream() closes the stream that was written) or an
   `output=` URI object kept by the caller (then it does not); bytes of the document *)
Record job : Type := { j_nbuild : nat; j_nenc : nat; j_nns : nat; j_nbytes : nat; j_own : bool; j_new : list Z }.

Record mach : Type := {
  m_file : content;               (* what a reader of the target sees *)
  m_open : bool;                  (* an output stream on the target is open *)
  m_tree : bool;                  (* the tree / dict exists *)
  m_bytes : bool;                 (* the document bytes exist *)
  m_pending : option (list Z)     (* written to the stream, not yet in the file *)
}.

Definition mach_init (old : content) : mach :=
  {| m_file := old; m_open := false; m_tree := false; m_bytes := false; m_pending := None |}.

(* a planted fault is a position; positions < nbuild hit the construction, the next nenc ones
   the encoder, the next nns ones the namespace step *)
Definition hits_build (j : job) (fault : option nat) : bool :=
  match fault with Some p => Nat.ltb p (j_nbuild j) | None => false end.
Definition hits_encode (j : job) (fault : option nat) : bool :=
  match fault with
  | Some p => Nat.leb (j_nbuild j) p && Nat.ltb p (j_nbuild j + j_nenc j)
  | None => false
  end.
Definition hits_ns (j : job) (fault : option nat) : bool :=
  match fault with
  | Some p => Nat.leb (j_nbuild j + j_nenc j) p && Nat.ltb p (j_nbuild j + j_nenc j + j_nns j)
  | None => false
  end.

Definition hits_bytes (j : job) (fault : option nat) : bool :=
  match fault with
  | Some p => Nat.leb (j_nbuild j + j_nenc j + j_nns j) p
              && Nat.ltb p (j_nbuild j + j_nenc j + j_nns j + j_nbytes j)
  | None => false
  end.

Definition flushed (m : mach) : content :=
  match m_pending m with Some b => Some b | None => m_file m end.

Definition exec_step (j : job) (fault : option nat) (s : step) (m : mach) : outcome * mach :=
  match s with
  | SOpen =>
    (Done, {| m_file := Some []; m_open := true; m_tree := m_tree m; m_bytes := m_bytes m; m_pending := None |})
  | SBuild =>
    if hits_build j fault then (Raised, m)
    else (Done, {| m_file := m_file m; m_open := m_open m; m_tree := true; m_bytes := m_bytes m;
                   m_pending := m_pending m |})
  | SNs =>
    if hits_ns j fault then (Raised, m) else (Done, m)
  | SEncode =>
    if negb (m_tree m) then (Stuck, m)
    else if hits_encode j fault then (Raised, m)
    else (Done, {| m_file := m_file m; m_open := m_open m; m_tree := m_tree m; m_bytes := true;
                   m_pending := m_pending m |})
  | SBytes =>
    (* needs the text of the document *)
    if negb (m_bytes m) then (Stuck, m)
    else if hits_bytes j fault then (Raised, m) else (Done, m)
  | SWrite =>
    if m_open m && m_tree m
    then
      (* without a previous SEncode the document is serialised while it is written
         (lxml's tree.write): an encoding fault then strikes on the opened target *)
      if negb (m_bytes m) && hits_encode j fault then (Raised, m)
      else (Done, {| m_file := m_file m; m_open := true; m_tree := true; m_bytes := true;
                     m_pending := Some (j_new j) |})
    else (Stuck, m)
  | SFlush =>
    if m_open m
    then (Done, {| m_file := flushed m; m_open := true; m_tree := m_tree m; m_bytes := m_bytes m;
                   m_pending := None |})
    else (Stuck, m)
  | SClose =>
    (* self.uri.close_stream(): closes (and flushes) the stream of the resource's OWN uri only *)
    if j_own j && m_open m
    then (Done, {| m_file := flushed m; m_open := false; m_tree := m_tree m; m_bytes := m_bytes m;
                   m_pending := None |})
    else (Done, m)
  end.

Fixpoint exec (j : job) (fault : option nat) (order : list step) (m : mach) : outcome * mach :=
  match order with
  | [] => (Done, m)
  | s :: rest =>
    match exec_step j fault s m with
    | (Done, m') => exec j fault rest m'
    | r => r
    end
  end.

(* the content a reader finds right after save() returned or raised *)
Definition run_save (j : job) (order : list step) (fault : option nat) (old : content)
  : outcome * content :=
  let (o, m) := exec j fault order (mach_init old) in (o, m_file m).

(* the order of the code before the repair (kept as a recorded witness) *)
Definition legacy_order : list step := [SOpen; SBuild; SEncode; SWrite; SFlush; SClose].

(* the shapes of order for which Props/C16.v has theorems *)
Definition order_kind (order : list step) : nat :=
  match order with
  | [SBuild; SEncode; SBytes; SOpen; SWrite; SFlush; SClose] => 1
      (* JsonResource.save: all that can raise precedes the opening *)
  | [SBuild; SNs; SBuild; SOpen; SWrite; SFlush; SClose] => 2
      (* XMIResource.save: traversal, namespace step, assembly; then open; serialised while written *)
  | _ => 0
  end.

(* ------------------------------------------------------------------ *)
(* Part 2: ids and bytes                                               *)

Record sobj : Type := { so_id : option Z; so_obs : list Z }.

(* Resource._assign_uuid over the traversal: the stream `uu` is read at
   counter n only for an object without id *)
Fixpoint assign_ids (uu : nat -> Z) (n : nat) (os : list sobj) : list sobj * nat :=
  match os with
  | [] => ([], n)
  | o :: rest =>
    match so_id o with
    | Some _ => let (r, n') := assign_ids uu n rest in (o :: r, n')
    | None =>
      let (r, n') := assign_ids uu (S n) rest in
      ({| so_id := Some (uu n); so_obs := so_obs o |} :: r, n')
    end
  end.

Definition zlen_l (l : list Z) : Z := Z.of_nat (length l).

Definition enc_obj (use_uuid : bool) (o : sobj) : list Z :=
  (if use_uuid then match so_id o with Some i => [1; i] | None => [0] end else [])
  ++ zlen_l (so_obs o) :: so_obs o.

Definition encode (use_uuid : bool) (os : list sobj) : list Z := flat_map (enc_obj use_uuid) os.

(* one successful save: new model state, new stream counter, bytes written *)
Definition save_model (use_uuid : bool) (uu : nat -> Z) (n : nat) (os : list sobj)
  : list sobj * nat * list Z :=
  if use_uuid
  then let (os', n') := assign_ids uu n os in (os', n', encode true os')
  else (os, n, encode false os).

Definition observation (os : list sobj) : list (list Z) := map so_obs os.

(* ------------------------------------------------------------------ *)
(* token codec for the correspondence:
   fmt ; fault(-1 = none) ; nbuild ; nenc ; nns ; nbytes ; own ; has_old ; |old| ; old.. ; |new| ; new..
   answer: outcome(0 done,1 raised,2 stuck) ; has_content ; |c| ; c.. *)

Fixpoint take {A} (n : nat) (l : list A) : list A :=
  match n, l with S n', x :: xs => x :: take n' xs | _, _ => [] end.
Fixpoint drop {A} (n : nat) (l : list A) : list A :=
  match n, l with S n', _ :: xs => drop n' xs | _, _ => l end.

Definition outcome_code (o : outcome) : Z :=
  match o with Done => 0 | Raised => 1 | Stuck => 2 end.

Definition run_savefs_with (order_xmi order_json : list step) (t : list Z) : list Z :=
  match t with
  | fmt :: fault :: nb :: ne :: nn :: ny :: own :: has_old :: lo :: rest =>
    let old := take (Z.to_nat lo) rest in
    match drop (Z.to_nat lo) rest with
    | ln :: rest2 =>
      let new := take (Z.to_nat ln) rest2 in
      let j := {| j_nbuild := Z.to_nat nb; j_nenc := Z.to_nat ne; j_nns := Z.to_nat nn; j_nbytes := Z.to_nat ny;
                  j_own := own =? 1; j_new := new |} in
      let order := if fmt =? 0 then order_xmi else order_json in
      let f := if fault <? 0 then None else Some (Z.to_nat fault) in
      let (o, c) := run_save j order f (if has_old =? 1 then Some old else None) in
      outcome_code o ::
      match c with
      | Some b => 1 :: zlen_l b :: b
      | None => [0; 0]
      end
    | [] => [-1]
    end
  | _ => [-1]
  end.
