(* C04 — multi-valued features behave like the collection they declare.
   Statements only; proofs are in Proofs/OSetProofs.v.
   At the end of this file, on the kernel model (Proofs/SelfExtend.v): c.extend(c) / c += c /
   c.update(c), the argument being the collection itself (OExtend x f (vals s (x,f))), for every
   many-valued feature without opposite and without containment (attributes and plain
   references), from any state: a non-unique collection is doubled as a Python list extended
   by itself, a unique one keeps its content; the call is accepted, no other slot changes, the
   slot is marked set.  (Containment references: Props/C02.v,
   C02_extend_by_the_own_collection_moves_nothing; references WITH a non-containment opposite
   are not covered by a self-extension theorem.) *)
From Coq Require Import ZArith List Bool.
From PyecoreV Require Import Lib.PyBase Lib.PyList Model.OSet Model.Coll Proofs.OSetProofs Gen.KernelTables Proofs.KernelTablesProofs.
Import ListNotations.
Open Scope Z_scope.

(* Every operation of the patched OrderedSet (any index in Z, any element)
   returns/raises what the duplicate-free Python list specification does,
   leaves the same item sequence, and re-establishes the index-map invariant. *)
Theorem C04_step_refines_list :
  forall op o, os_inv o -> step_agree (oset_step op o) (uspec_step op (items o)).
Proof. exact oset_step_refines. Qed.
Print Assumptions C04_step_refines_list.

(* For every finite history from the empty collection (raising calls
   included): the invariant holds and iteration order is the list spec's. *)
Theorem C04_every_history :
  forall ops,
    os_inv (fold_left oset_next ops os_empty) /\
    items (fold_left oset_next ops os_empty) = fold_left uspec_next ops [].
Proof. exact oset_history. Qed.
Print Assumptions C04_every_history.

(* a unique collection never holds an element twice *)
Theorem C04_unique_never_twice :
  forall ops, NoDup (items (fold_left oset_next ops os_empty)).
Proof. intros ops. exact (proj1 (proj1 (oset_history ops))). Qed.
Print Assumptions C04_unique_never_twice.

(* the position reported for an element is the position at which iteration yields it *)
Theorem C04_index_is_position :
  forall x i o, os_inv o ->
    (os_index x o = Ok i <-> (0 <= i /\ nth_error (items o) (Z.to_nat i) = Some x)).
Proof. exact index_is_position. Qed.
Print Assumptions C04_index_is_position.

Theorem C04_membership :
  forall x o, os_inv o -> os_contains x o = memb Z.eqb x (items o).
Proof. exact os_contains_ok. Qed.
Print Assumptions C04_membership.

(* the duplicate-free specification is the plain list whenever no present element is inserted *)
Theorem C04_spec_is_plain_list_when_fresh :
  forall op l,
  (match op with
   | CAppend x | CInsert _ x => ~ In x l
   | CSetItem _ _ | CExtend _ => False
   | _ => True end) ->
  match uspec_step op l, list_step op l with
  | Ok (l1, v1), Ok (l2, v2) => l1 = l2 /\ v1 = v2
  | Err _, Err _ => True
  | _, _ => False
  end.
Proof. exact uspec_eq_list_when_fresh. Qed.
Print Assumptions C04_spec_is_plain_list_when_fresh.

(* non-vacuity: a non-trivial reachable state, its invariant, and the pop(-1) that used to break it *)
Example C04_witness :
  let o := fold_left oset_next [CAppend 10; CInsert (-3) (-1); CAppend 20; CPop (-1); CSetItem 0 10] os_empty in
  items o = [10] /\ os_index 10 o = Ok 0.
Proof. vm_compute. split; reflexivity. Qed.

(* Which collection a declaration gets: ECollection.create, TRANSLATED from valuecontainer.py on every run
   (Gen/KernelTables.v).  A non-derived many-valued feature is set-like exactly when declared unique and
   list-like exactly when not, whatever `ordered` says — the dispatch the models (Coll.v, Kernel.v) make. *)
Theorem C04_the_declared_collection_follows_unique :
  forall ordered unique,
    set_like (create_kind false ordered unique) = unique /\
    list_like (create_kind false ordered unique) = negb unique.
Proof. exact create_follows_unique. Qed.
Print Assumptions C04_the_declared_collection_follows_unique.

(* ---------- a collection extended by itself, on the kernel model ---------- *)
From PyecoreV Require Import Model.Kernel Proofs.SelfExtend.
Open Scope nat_scope.

Theorem C04_list_extended_by_itself_is_doubled :
  forall m f, f_cont (fd m f) = false -> f_opp (fd m f) = None ->
  forall s x,
    f_unique (fd m f) = false -> forallb (check_elem m f) (vals s (x, f)) = true ->
    let s' := next m s (OExtend x f (vals s (x, f))) in
    fst (fst (step m s (OExtend x f (vals s (x, f))))) = None /\
    vals s' (x, f) = vals s (x, f) ++ vals s (x, f) /\
    (forall k, k <> (x, f) -> vals s' k = vals s k) /\
    isset s' (x, f) = true /\ (forall c, cont s' c = cont s c).
Proof. exact self_extend_list. Qed.
Print Assumptions C04_list_extended_by_itself_is_doubled.

Theorem C04_set_updated_by_itself_is_unchanged :
  forall m f, f_cont (fd m f) = false -> f_opp (fd m f) = None ->
  forall s x,
    f_unique (fd m f) = true -> forallb (check_elem m f) (vals s (x, f)) = true ->
    let s' := next m s (OExtend x f (vals s (x, f))) in
    fst (fst (step m s (OExtend x f (vals s (x, f))))) = None /\
    vals s' (x, f) = vals s (x, f) /\
    (forall k, k <> (x, f) -> vals s' k = vals s k) /\
    isset s' (x, f) = true /\ (forall c, cont s' c = cont s c).
Proof. exact self_extend_set. Qed.
Print Assumptions C04_set_updated_by_itself_is_unchanged.

(* [1;2] -> [1;2;1;2] for an EList attribute and an EList reference, unchanged for an EOrderedSet *)
Example C04_self_extend_witness :
  let m := ex_mm_self in
  let s := fold_left (next m) ex_self_ops (init_state m) in
  let after (f : fid) := next m s (OExtend 0 f (vals s (0, f))) in
  (vals s (0, 0), vals s (0, 1), vals s (0, 2)) =
    ([VInt 1%Z; VInt 2%Z], [VInt 1%Z; VInt 2%Z], [VObj 1; VObj 2]) /\
  vals (after 0) (0, 0) = vals s (0, 0) ++ vals s (0, 0) /\
  vals (after 1) (0, 1) = vals s (0, 1) /\
  vals (after 2) (0, 2) = vals s (0, 2) ++ vals s (0, 2) /\
  (vals (after 0) (0, 0), vals (after 1) (0, 1), vals (after 2) (0, 2), inv (after 2) 1) =
    ([VInt 1%Z; VInt 2%Z; VInt 1%Z; VInt 2%Z], [VInt 1%Z; VInt 2%Z], [VObj 1; VObj 2; VObj 1; VObj 2], [(0, 2)]).
Proof. exact self_extend_witness. Qed.
Print Assumptions C04_self_extend_witness.
