(* Executable deciders for the premises of the id theorems (Proofs/IdFragProofs.v: op_ok, bound_edit, head_ok).
   The parts quantified over all objects are decided over the objects below a bound b; Proofs/IdFragPremisesProofs.v
   shows this is enough when no object >= b carries an id or is a member (supp), which every history whose
   operations only name objects < b keeps (op_in).  No proofs here. *)
From Coq Require Import ZArith List Bool.
From PyecoreV Require Import Model.IdFrag Model.IdFragIO.
Import ListNotations.
Local Open Scope Z_scope.

Definition opt_is (x : option Z) (z : Z) : bool := match x with Some y => Z.eqb y z | None => false end.
Definition owns_b (s : state) (x : obj) (z : Z) : bool := opt_is (internal s x) z || opt_is (idattr s x) z.

(* nobody below b owns z / only o does *)
Definition free_id (b : nat) (s : state) (z : Z) : bool := forallb (fun x => negb (owns_b s x z)) (seq 0 b).
Definition only_owner (b : nat) (s : state) (o : obj) (z : Z) : bool :=
  forallb (fun x => negb (owns_b s x z) || Nat.eqb x o) (seq 0 b).

Definition e_ob (e : entry) : obj := fst (fst e).
Definition o_list (x : option Z) : list Z := match x with Some z => [z] | None => [] end.
Definition e_ids (e : entry) : list Z := o_list (snd (fst e)) ++ o_list (snd e).
Definition memz (z : Z) (l : list Z) : bool := existsb (Z.eqb z) l.

Fixpoint nodupb (l : list obj) : bool :=
  match l with [] => true | x :: r => negb (mem x r) && nodupb r end.

Definition load_okb (b : nat) (s : state) (d : doc) : bool :=
  nodupb (map e_ob d) &&
  forallb (fun e1 => forallb (fun e2 =>
     forallb (fun z => negb (memz z (e_ids e2)) || Nat.eqb (e_ob e1) (e_ob e2)) (e_ids e1)) d) d &&
  forallb (fun e => negb (mem (e_ob e) (members s))) d &&
  forallb (fun e => forallb (fun z => Z.ltb z (next_fresh s) && free_id b s z) (e_ids e)) d.

Definition op_okb (b : nat) (s : state) (a : op) : bool :=
  match a with
  | Load d => load_okb b s d
  | SetIdAttr o (Some t) => Z.ltb t (next_fresh s) && only_owner b s o t
  | _ => true
  end.

Definition bound_editb (s : state) (a : op) : bool :=
  match a with
  | SetIdAttr o (Some t) => match lookup t (dict s) with Some x => Nat.eqb x o | None => false end
  | _ => true
  end.

(* every object the operation names is below b *)
Definition op_in (b : nat) (a : op) : bool :=
  match a with
  | Load d => forallb (fun e => Nat.ltb (e_ob e) b) d
  | Add o | Remove o | SetIdAttr o _ | Ref o => Nat.ltb o b
  | _ => true
  end.

Fixpoint head_okb (b : nat) (s : state) (h : list op) : bool :=
  match h with
  | [] => true
  | a :: r => op_in b a && op_okb b s a && bound_editb s a && head_okb b (step head s a) r
  end.

(* the bound: one more than the largest object number of the history *)
Definition op_max (a : op) : nat :=
  match a with
  | Load d => fold_right (fun e m => Nat.max (e_ob e) m) O d
  | Add o | Remove o | SetIdAttr o _ | Ref o => o
  | _ => O
  end.
Definition hist_bound (h : list op) : nat := S (fold_right (fun a m => Nat.max (op_max a) m) O h).

(* same input as run_idfrag (the variant token is read and ignored: the premises are those of `head`) *)
Definition run_idfrag_premises (t : list Z) : list Z :=
  match t with
  | _ :: n0 :: r => let h := dec_ops (length r) r in [if head_okb (hist_bound h) (init n0) h then 1 else 0]
  | _ => []
  end.
