(* Well-formedness of the kernel state (symmetry of opposites, shape of slots,
   ownership, resources) and the effect of the primitive procedures of
   Model/Kernel.v on the four components it speaks about: the value store,
   the container back-pointers, the root lists and the _eresource pointers. *)
From Coq Require Import ZArith List Bool Arith Lia.
From PyecoreV Require Import Lib.PyBase Lib.PyList Model.Kernel Proofs.PyListFacts Proofs.KernelFacts
     Proofs.C01Proofs Proofs.C02Proofs.
Import ListNotations.
Open Scope nat_scope.

(* ---------- well-formed metamodels (EMF's rules the properties assume) ---------- *)
Record wf_mm (m : mm) : Prop := {
  wf_opp_inv : forall f g, f_opp (fd m f) = Some g -> f_opp (fd m g) = Some f;
  wf_opp_ref : forall f g, f_opp (fd m f) = Some g -> f_isref (fd m f) = true;
  wf_cont_ref : forall f, f_cont (fd m f) = true -> f_isref (fd m f) = true;
  (* a multi-valued end of a bidirectional or containment reference is unique *)
  wf_many_unique : forall f, f_many (fd m f) = true ->
                   (f_opp (fd m f) <> None \/ f_cont (fd m f) = true) -> f_unique (fd m f) = true;
  (* the opposite of a containment is a single-valued, non-containment container end *)
  wf_container_end : forall f g, f_opp (fd m f) = Some g -> f_cont (fd m f) = true ->
                     f_many (fd m g) = false /\ f_cont (fd m g) = false
}.

Lemma wf_mm_wf_opp m : wf_mm m -> wf_opp m.
Proof.
  intros W f g H. split; [eapply wf_opp_inv; eauto|]. split; [eapply wf_opp_ref; eauto|].
  intros Hm. eapply wf_many_unique; eauto. left. congruence.
Qed.

(* a many-valued feature never has a containment opposite *)
Lemma many_opp_not_cont m f g :
  wf_mm m -> f_opp (fd m f) = Some g -> f_many (fd m f) = true -> f_cont (fd m g) = false.
Proof.
  intros W Hfg Hm. destruct (f_cont (fd m g)) eqn:E; [|reflexivity].
  pose proof (wf_opp_inv m W f g Hfg) as Hgf.
  destruct (wf_container_end m W g f Hgf E) as [H _]. congruence.
Qed.

(* ---------- the ownership invariant ---------- *)
(* an object's container back-pointer names exactly the containment slot that holds it *)
Definition own_ok (m : mm) (s : state) : Prop :=
  forall c p f, cont s c = Some (p, f) <-> (f_cont (fd m f) = true /\ In (VObj c) (vals s (p, f))).

(* a root of a resource has no container *)
Definition roots_free (s : state) : Prop :=
  forall c r, In c (rcont s r) -> cont s c = None.

(* containment slots hold an object at most once, single slots exactly one value *)
Definition shape2 (m : mm) (s : state) : Prop :=
  forall a f,
    (f_many (fd m f) = false -> exists v, vals s (a, f) = [v]) /\
    ((f_opp (fd m f) <> None \/ f_cont (fd m f) = true) -> nodup_objs (vals s (a, f))).

Record WF (m : mm) (s : state) : Prop := {
  wf_sym : sym m s;
  wf_shape : shape2 m s;
  wf_own : own_ok m s;
  wf_res : res_ok s;
  wf_roots : roots_free s
}.

Lemma shape2_shape m s : shape2 m s -> shape m s.
Proof. intros H a f. destruct (H a f) as [H1 H2]. split; [exact H1 | intros Ho; apply H2; left; exact Ho]. Qed.

(* ---------- fields of the primitive procedures ---------- *)
Section Fields.
Variable m : mm.

Definition cont_clear (cn : oid -> option cell) (p : option oid) : oid -> option cell :=
  match p with Some c => updn cn c None | None => cn end.

Lemma uc_clear_fields s f p :
  vals (uc_clear m s f p) = vals s /\ eres (uc_clear m s f p) = eres s /\ rcont (uc_clear m s f p) = rcont s /\
  cont (uc_clear m s f p) = if f_cont (fd m f) then cont_clear (cont s) p else cont s.
Proof. unfold uc_clear, cont_clear. destruct (f_cont (fd m f)); [destruct p|]; repeat split; reflexivity. Qed.

Lemma set_store_fields s k v :
  vals (set_store m s k v) = upd (vals s) k [v] /\ cont (set_store m s k v) = cont s /\
  eres (set_store m s k v) = eres s /\ rcont (set_store m s k v) = rcont s.
Proof. repeat split; reflexivity. Qed.

Lemma set_none_raw_fields s k :
  f_isref (fd m (snd k)) = true ->
  vals (set_none_raw m s k) = upd (vals s) k [VNone] /\
  cont (set_none_raw m s k) = (if f_cont (fd m (snd k)) then cont_clear (cont s) (obj_of (single s k)) else cont s) /\
  eres (set_none_raw m s k) = eres s /\ rcont (set_none_raw m s k) = rcont s.
Proof.
  intros Hr. unfold set_none_raw. rewrite Hr.
  destruct (uc_clear_fields (set_store m s k VNone) (snd k) (obj_of (single s k))) as [A [B [C D]]].
  rewrite A, B, C, D. repeat split; reflexivity.
Qed.

Lemma coll_remove_raw_fields s k x :
  vals (coll_remove_raw m s k x) =
    (if vmem (VObj x) (vals s k) then upd (vals s) k (raw_remove (VObj x) (vals s k)) else vals s) /\
  cont (coll_remove_raw m s k x) =
    (if vmem (VObj x) (vals s k) then (if f_cont (fd m (snd k)) then updn (cont s) x None else cont s) else cont s) /\
  eres (coll_remove_raw m s k x) = eres s /\ rcont (coll_remove_raw m s k x) = rcont s.
Proof.
  unfold coll_remove_raw. destruct (vmem (VObj x) (vals s k)); [|repeat split; reflexivity].
  destruct (uc_clear_fields s (snd k) (Some x)) as [A [B [C D]]].
  cbn [vals cont eres rcont notify push_log set_vals]. rewrite A, B, C, D. repeat split; reflexivity.
Qed.

End Fields.

(* ---------- erasing containment: the removal procedures compute the same value store ---------- *)
Definition erase_fd (d : fdecl) : fdecl :=
  {| f_owner := f_owner d; f_isref := f_isref d; f_many := f_many d; f_unique := f_unique d;
     f_cont := false; f_opp := f_opp d; f_type := f_type d; f_default := f_default d |}.

Definition erase (m : mm) : mm :=
  {| feats := map erase_fd (feats m); conf := conf m; ocls := ocls m; enames := enames m; nres := nres m |}.

Lemma fd_erase m f : fd (erase m) f = erase_fd (fd m f).
Proof.
  unfold fd, erase. cbn [feats]. change dummy_f with (erase_fd dummy_f) at 1. apply map_nth.
Qed.

Lemma erase_no_containment m : no_containment (erase m).
Proof. intros f. rewrite fd_erase. reflexivity. Qed.

Lemma erase_wf_opp m : wf_opp m -> wf_opp (erase m).
Proof.
  intros H f g. rewrite !fd_erase. cbn [erase_fd f_opp f_isref f_many f_unique]. apply H.
Qed.

Lemma erase_sym m s : sym (erase m) s <-> sym m s.
Proof.
  split; intros H f g Hfg a b.
  - apply (H f g). rewrite fd_erase. exact Hfg.
  - apply (H f g). rewrite fd_erase in Hfg. exact Hfg.
Qed.

Lemma erase_shape m s : shape (erase m) s <-> shape m s.
Proof.
  split; intros H a f; specialize (H a f); rewrite ?fd_erase in *; cbn [erase_fd f_many f_opp] in *; exact H.
Qed.

Section EraseVals.
Variable m : mm.
Let m0 := erase m.

Lemma vals_uc_clear (mm0 : mm) s f p : vals (uc_clear mm0 s f p) = vals s.
Proof. destruct (uc_clear_fields mm0 s f p) as [A _]. exact A. Qed.

Lemma vals_inv_add s o c : vals (inv_add s o c) = vals s.
Proof. unfold inv_add. destruct (cmem c (inv s o)); reflexivity. Qed.

Lemma ev_set_none_raw s s0 k : vals s = vals s0 -> vals (set_none_raw m s k) = vals (set_none_raw m0 s0 k).
Proof.
  intros E. unfold set_none_raw. unfold m0 at 1. rewrite fd_erase. cbn [erase_fd f_isref].
  destruct (f_isref (fd m (snd k))); rewrite ?vals_uc_clear;
    cbn [vals set_store notify push_log set_isset set_vals]; rewrite E; reflexivity.
Qed.

Lemma ev_coll_remove_raw s s0 k x : vals s = vals s0 -> vals (coll_remove_raw m s k x) = vals (coll_remove_raw m0 s0 k x).
Proof.
  intros E. destruct (coll_remove_raw_fields m s k x) as [A _]. destruct (coll_remove_raw_fields m0 s0 k x) as [B _].
  rewrite A, B, E. reflexivity.
Qed.

Lemma ev_update_opposite_remove s s0 x f y :
  vals s = vals s0 -> vals (update_opposite_remove m s x f y) = vals (update_opposite_remove m0 s0 x f y).
Proof.
  intros E. unfold update_opposite_remove. unfold m0 at 1 2. rewrite !fd_erase. cbn [erase_fd f_opp].
  destruct (f_opp (fd m f)) as [g|].
  - rewrite fd_erase. cbn [erase_fd f_many]. destruct (f_many (fd m g)).
    + destruct (cell_eqb (y, g) (x, f)); [exact E | apply ev_coll_remove_raw; exact E].
    + apply ev_set_none_raw; exact E.
  - assert (A : vals (if cmem (x, f) (inv s y) then inv_del s y (x, f) else inv_add s y (x, f)) = vals s).
    { destruct (cmem (x, f) (inv s y)); [reflexivity | apply vals_inv_add]. }
    assert (B : vals (if cmem (x, f) (inv s0 y) then inv_del s0 y (x, f) else inv_add s0 y (x, f)) = vals s0).
    { destruct (cmem (x, f) (inv s0 y)); [reflexivity | apply vals_inv_add]. }
    rewrite A, B. exact E.
Qed.

Lemma ev_coll_remove_full s k v : vals (coll_remove_full m s k v) = vals (coll_remove_full m0 s k v).
Proof.
  destruct k as [x f]. unfold coll_remove_full. unfold m0. rewrite !fd_erase. cbn [erase_fd f_isref].
  assert (E1 : vals (if f_isref (fd m f) then
                       match obj_of v with
                       | Some y => update_opposite_remove m (uc_clear m s f (Some y)) x f y
                       | None => s end else s) =
               vals (if f_isref (fd m f) then
                       match obj_of v with
                       | Some y => update_opposite_remove (erase m) (uc_clear (erase m) s f (Some y)) x f y
                       | None => s end else s)).
  { destruct (f_isref (fd m f)); [|reflexivity]. destruct (obj_of v) as [y|]; [|reflexivity].
    apply (ev_update_opposite_remove). rewrite !vals_uc_clear. reflexivity. }
  cbn [vals notify push_log set_vals]. rewrite E1. reflexivity.
Qed.

Lemma ev_set_none_full s k : vals (set_none_full m s k) = vals (set_none_full m0 s k).
Proof.
  destruct k as [x f]. unfold set_none_full. unfold m0. rewrite !fd_erase. cbn [erase_fd f_isref f_opp f_many].
  destruct (f_isref (fd m f)); cbn [negb]; [|reflexivity].
  destruct (f_opp (fd m f)) as [g|].
  - destruct (obj_of (single s (x, f))) as [q|]; [|rewrite !vals_uc_clear; reflexivity].
    rewrite ?fd_erase. cbn [erase_fd f_many]. destruct (f_many (fd m g)).
    + apply ev_coll_remove_raw. rewrite !vals_uc_clear. reflexivity.
    + destruct (cell_eqb (q, g) (x, f)); [rewrite !vals_uc_clear; reflexivity|].
      apply ev_set_none_raw. rewrite !vals_uc_clear. reflexivity.
  - destruct (obj_of (single s (x, f))); cbn [vals inv_del set_inv]; rewrite !vals_uc_clear; reflexivity.
Qed.

End EraseVals.

(* WF only looks at four components *)
Lemma WF_ext m s s' :
  (forall k, vals s' k = vals s k) -> (forall c, cont s' c = cont s c) ->
  (forall c, eres s' c = eres s c) -> (forall r, rcont s' r = rcont s r) ->
  WF m s -> WF m s'.
Proof.
  intros EV EC EE ER [H1 H2 H3 H4 H5]. constructor.
  - apply (sym_ext m s); assumption.
  - intros a f. rewrite EV. apply H2.
  - intros c p f. rewrite EC, EV. apply H3.
  - destruct H4 as [A B]. split; [intros r; rewrite ER; apply A | intros c r; rewrite ER, EE; apply B].
  - intros c r. rewrite ER, EC. apply H5.
Qed.
