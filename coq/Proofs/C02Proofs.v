(* C02: ownership — facts proved over Model/Kernel.v. *)
From Coq Require Import ZArith List Bool Arith Lia.
From PyecoreV Require Import Lib.PyBase Lib.PyList Model.Kernel Proofs.PyListFacts Proofs.KernelFacts Proofs.C03Proofs.
Import ListNotations.
Open Scope nat_scope.

(* An operation that fails leaves the whole state as it was (hence ownership).
   The one exception in the code is item assignment on a list-based (non
   unique) collection, whose IndexError comes after the inverse-reference
   bookkeeping of the new element; such collections are never containments
   in a well-formed metamodel. *)
Definition atomic_op (m : mm) (o : op) : Prop :=
  match o with OSetItem _ f _ _ => f_unique (fd m f) = true | _ => True end.

Theorem failed_op_changes_nothing m s o e s' r :
  atomic_op m o -> step m s o = ((Some e, s'), r) -> s' = s.
Proof.
  intros Ha. unfold step.
  destruct o as [x f v|x f|x f|x f vs|x f v|x f i v|x f v|x f i|x f|x f vs|x f i v|x f i|x rc|rr o|rr o|rr os|x f].
  - destruct (f_many (fd m f)); [intros H; inversion H; reflexivity|].
    unfold set_full. destruct (check_single m f v); cbn [negb]; [|intros H; inversion H; reflexivity].
    destruct (f_isref (fd m f)); cbn [negb]; [|intros H; inversion H].
    destruct (f_opp (fd m f)); [|intros H; inversion H].
    destruct (obj_of v); [|intros H; inversion H]. destruct (f_many (fd m f0)); intros H; inversion H.
  - destruct (f_many (fd m f)); [intros H; inversion H; reflexivity|].
    unfold set_full. cbn [check_single conforms negb].
    destruct (f_isref (fd m f)); cbn [negb]; [|intros H; inversion H].
    destruct (f_opp (fd m f)); intros H; inversion H.
  - unfold del_full. cbn [snd]. destruct (f_many (fd m f)); [intros H; inversion H|].
    unfold set_full. destruct (check_single m f (f_default (fd m f))); cbn [negb]; [|intros H; inversion H; reflexivity].
    destruct (f_isref (fd m f)); cbn [negb]; [|intros H; inversion H].
    destruct (f_opp (fd m f)); [|intros H; inversion H].
    destruct (obj_of (f_default (fd m f))); [|intros H; inversion H].
    destruct (f_many (fd m f0)); intros H; inversion H.
  - destruct (f_many (fd m f)); [|intros H; inversion H; reflexivity].
    unfold assign_full. cbn [snd]. destruct (forallb (check_elem m f) vs) eqn:Ec; cbn [negb];
      [|intros H; inversion H; reflexivity].
    unfold coll_extend_full. rewrite Ec. cbn [negb]. intros H; inversion H.
  - unfold coll_add_full. destruct (check_elem m f v); cbn [negb]; intros H; inversion H; reflexivity.
  - unfold coll_add_full. destruct (check_elem m f v); cbn [negb]; intros H; inversion H; reflexivity.
  - unfold coll_remove_top. destruct (vmem v (vals s (x, f))); intros H; inversion H; reflexivity.
  - unfold coll_pop_full. destruct (vals s (x, f)) as [|a l]; [intros H; inversion H; reflexivity|].
    destruct (py_pop i (a :: l)) as [[w l']|]; intros H; inversion H; reflexivity.
  - intros H; inversion H.
  - unfold coll_extend_full. destruct (forallb (check_elem m f) vs); cbn [negb]; intros H; inversion H; reflexivity.
  - cbn [atomic_op] in Ha. unfold coll_setitem_full. rewrite Ha.
    destruct (check_elem m f v) eqn:Ec; cbn [negb]; [|intros H; inversion H; reflexivity].
    destruct ((i <? 0)%Z && ((if (i <? 0)%Z then (zlen (vals s (x, f)) + i)%Z else i) <? 0)%Z);
      [intros H; inversion H; reflexivity|].
    unfold seq_outcome.
    set (j := if (i <? 0)%Z then (zlen (vals s (x, f)) + i)%Z else i).
    unfold coll_pop_full. destruct (vals s (x, f)) as [|a l]; cbn [fst]; [intros H; inversion H; reflexivity|].
    destruct (py_pop j (a :: l)) as [[w l']|]; cbn [fst]; [|intros H; inversion H; reflexivity].
    unfold coll_add_full. rewrite Ec. cbn [negb]. intros H; inversion H.
  - unfold coll_delitem_full. cbn [snd]. destruct (f_unique (fd m f)).
    + unfold coll_pop_full. destruct (vals s (x, f)) as [|a l]; cbn [fst]; [intros H; inversion H; reflexivity|].
      destruct (py_pop i (a :: l)) as [[w l']|]; cbn [fst]; intros H; inversion H; reflexivity.
    + destruct (py_pop i (vals s (x, f))) as [[w l']|]; intros H; inversion H; reflexivity.
  - intros H; inversion H.
  - intros H; inversion H.
  - unfold res_remove. destruct (nmem o (rcont s rr)); intros H; inversion H; reflexivity.
  - intros H; inversion H.
  - intros H; inversion H.
Qed.
