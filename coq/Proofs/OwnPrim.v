(* Ownership part of the well-formedness, primitives: component-level lemmas
   (a child enters a containment slot), invariance of WF under changes that
   keep the objects of every cell, and the container back-pointers / root
   lists after remove_or_unset and update_container. *)
From Coq Require Import ZArith List Bool Arith Lia.
From PyecoreV Require Import Lib.PyBase Lib.PyList Model.Kernel Proofs.PyListFacts Proofs.KernelFacts Proofs.C01Proofs Proofs.C01Full Proofs.C02Proofs Proofs.WFBase Proofs.WFRemove Proofs.SymLink.
Import ListNotations.
Open Scope nat_scope.

(* child z enters the containment slot (P, F); it had no owner (or sat there already) *)
Lemma own_okc_attach m V C V' C' (P : oid) (F : fid) (z : oid) :
  own_okc m V C -> f_cont (fd m F) = true -> (C z = None \/ C z = Some (P, F)) ->
  (forall b, In (VObj b) (V' (P, F)) <-> In (VObj b) (V (P, F)) \/ b = z) ->
  (forall (p : oid) (h : fid) b, f_cont (fd m h) = true -> (p, h) <> (P, F) ->
     (In (VObj b) (V' (p, h)) <-> In (VObj b) (V (p, h)))) ->
  (forall c, C' c = if z =? c then Some (P, F) else C c) ->
  own_okc m V' C'.
Proof.
  intros H HF Hz HPF Hoth HC c p h. rewrite HC.
  destruct (Nat.eqb_spec z c) as [E|N].
  - subst c. split.
    + intros E. inversion E; subst p h. split; [exact HF|]. apply HPF. right; reflexivity.
    + intros [Hh Hin]. destruct (cell_eqb_spec (p, h) (P, F)) as [E|Np]; [rewrite E; reflexivity|].
      exfalso. apply (Hoth p h z Hh Np) in Hin.
      assert (Hz' : C z = Some (p, h)) by (apply H; split; assumption).
      destruct Hz as [Hz|Hz]; rewrite Hz in Hz'; [discriminate | inversion Hz'; subst; apply Np; reflexivity].
  - rewrite (H c p h). split; intros [Hh Hin]; (split; [exact Hh|]).
    + destruct (cell_eqb_spec (p, h) (P, F)) as [E|Np].
      * inversion E; subst p h. apply HPF. left; exact Hin.
      * apply (Hoth p h c Hh Np). exact Hin.
    + destruct (cell_eqb_spec (p, h) (P, F)) as [E|Np].
      * inversion E; subst p h. apply HPF in Hin. destruct Hin as [Hin|Hin]; [exact Hin | congruence].
      * apply (Hoth p h c Hh Np). exact Hin.
Qed.

(* WF only depends on the objects held by each cell (and on single cells holding one value) *)
Lemma In_objs_ext (l l' : list value) b : objs_of l' = objs_of l -> (In (VObj b) l' <-> In (VObj b) l).
Proof. intros E. rewrite <- !objs_of_In. rewrite E. tauto. Qed.

Lemma WF_objs_ext m s s' :
  (forall k, objs_of (vals s' k) = objs_of (vals s k)) ->
  (forall a f, f_many (fd m f) = false -> exists v, vals s' (a, f) = [v]) ->
  (forall c, cont s' c = cont s c) -> (forall c, eres s' c = eres s c) -> (forall r, rcont s' r = rcont s r) ->
  WF m s -> WF m s'.
Proof.
  intros EV E1 EC EE ER [H1 H2 H3 H4 H5]. constructor.
  - apply (sym_objs_ext m s); assumption.
  - intros a f. split; [apply E1|]. intros Ho. unfold nodup_objs. rewrite EV. exact (proj2 (H2 a f) Ho).
  - intros c p f. rewrite EC. rewrite (In_objs_ext _ _ c (EV (p, f))). apply H3.
  - destruct H4 as [A B]. split; [intros r; rewrite ER; apply A | intros c r; rewrite ER, EE; apply B].
  - intros c r. rewrite ER, EC. apply H5.
Qed.

Section Prim.
Variable m : mm.
Hypothesis W : wf_mm m.

(* the back-pointers after the re-parenting unlink of child y from the containment slot (p, pf) *)
Lemma cont_remove_or_unset t (p : oid) (pf : fid) (y : oid) :
  f_cont (fd m pf) = true -> In (VObj y) (vals t (p, pf)) ->
  (f_many (fd m pf) = false -> vals t (p, pf) = [VObj y]) ->
  forall c, cont (remove_or_unset m t (p, pf) y) c = if y =? c then None else cont t c.
Proof.
  intros Hc Hin Hone c. pose proof (wf_cont_ref m W pf Hc) as Hr.
  unfold remove_or_unset. cbn [snd]. destruct (f_many (fd m pf)) eqn:Hm.
  - apply vmem_obj in Hin. rewrite Hin. rewrite (cont_coll_remove_full m W t p pf y Hm Hr). rewrite Hc. reflexivity.
  - specialize (Hone eq_refl). rewrite (cont_set_none_full m W t p pf Hm Hr). cbv zeta.
    unfold single. rewrite Hone. cbn [obj_of cont_clear]. rewrite Hc.
    destruct (f_opp (fd m pf)) as [h|] eqn:Eh; [|reflexivity].
    destruct (wf_container_end m W pf h Eh Hc) as [Hhs Hhc]. rewrite Hhs, Hhc.
    destruct (cell_eqb (y, h) (p, pf)); reflexivity.
Qed.

(* the facts update_container relies on about the present slot of the new child *)
Definition slot_ok (s : state) (x : oid) (f : fid) (y : oid) : Prop :=
  forall p pf, cont s y = Some (p, pf) -> (p, pf) <> (x, f) ->
    f_cont (fd m pf) = true /\ In (VObj y) (vals s (p, pf)) /\
    (f_many (fd m pf) = false -> vals s (p, pf) = [VObj y]).

Lemma WF_slot_ok s x f y : WF m s -> slot_ok s x f y.
Proof. intros H p pf Ec _. exact (WF_child_slot m s y p pf H Ec). Qed.

(* the state after the root removal of the new child *)
Definition sa_of (s : state) (y : oid) : state :=
  match eresource_of m s y with
  | Some r => if nmem y (rcont s r) then res_remove_raw s r y else s
  | None => s
  end.

Lemma sa_of_fields s y : vals (sa_of s y) = vals s /\ cont (sa_of s y) = cont s.
Proof.
  unfold sa_of. destruct (eresource_of m s y) as [r|]; [|split; reflexivity].
  destruct (nmem y (rcont s r)); split; reflexivity.
Qed.

Lemma cont_update_container s x f y prev :
  f_cont (fd m f) = true -> slot_ok s x f y ->
  forall c, cont (update_container m s x f (Some y) prev) c =
            if y =? c then Some (x, f)
            else match prev with Some q => if q =? c then None else cont s c | None => cont s c end.
Proof.
  intros Hc Hown c. unfold update_container. rewrite Hc. cbn [negb]. fold (sa_of s y).
  destruct (sa_of_fields s y) as [EaV EaC]. rewrite EaC.
  set (sb := match cont s y with
             | Some (p, pf) => if negb ((p =? x) && (pf =? f)) then remove_or_unset m (sa_of s y) (p, pf) y else sa_of s y
             | None => sa_of s y end).
  assert (Eb : forall c0, c0 <> y -> cont sb c0 = cont s c0).
  { intros c0 N0. unfold sb. destruct (cont s y) as [[p pf]|] eqn:Ec; [|rewrite EaC; reflexivity].
    destruct (negb ((p =? x) && (pf =? f))) eqn:Eg; [|rewrite EaC; reflexivity].
    assert (N : (p, pf) <> (x, f)) by (intros E; inversion E; subst; rewrite !Nat.eqb_refl in Eg; discriminate).
    destruct (Hown p pf Ec N) as [H1 [H2 H3]].
    rewrite (cont_remove_or_unset (sa_of s y) p pf y H1); rewrite ?EaV; [|exact H2|exact H3].
    destruct (Nat.eqb_spec y c0); [congruence | rewrite EaC; reflexivity]. }
  destruct prev as [q|].
  - destruct (Nat.eqb_spec y q) as [Eq|Nq]; cbn [cont set_cont]; unfold updn.
    + subst q. destruct (Nat.eqb_spec y c) as [E|N]; [reflexivity|]. apply Eb. congruence.
    + destruct (Nat.eqb_spec q c) as [E1|N1].
      * subst c. destruct (Nat.eqb_spec y q); [congruence | reflexivity].
      * destruct (Nat.eqb_spec y c) as [E|N]; [reflexivity|]. apply Eb. congruence.
  - cbn [cont set_cont]. unfold updn. destruct (Nat.eqb_spec y c) as [E|N]; [reflexivity|]. apply Eb. congruence.
Qed.

Lemma res_update_container s x f y prev :
  f_cont (fd m f) = true ->
  rcont (update_container m s x f (Some y) prev) = rcont (sa_of s y) /\
  eres (update_container m s x f (Some y) prev) = eres (sa_of s y).
Proof.
  intros Hc. unfold update_container. rewrite Hc. cbn [negb]. fold (sa_of s y).
  set (sb := match cont (sa_of s y) y with
             | Some (p, pf) => if negb ((p =? x) && (pf =? f)) then remove_or_unset m (sa_of s y) (p, pf) y else sa_of s y
             | None => sa_of s y end).
  assert (Eb : rframe (sa_of s y) sb).
  { unfold sb. destruct (cont (sa_of s y) y) as [[p pf]|]; [|apply rframe_refl].
    destruct (negb ((p =? x) && (pf =? f))); [apply rframe_remove_or_unset | apply rframe_refl]. }
  destruct Eb as [A B].
  destruct prev as [q|]; [destruct (y =? q)|]; cbn [rcont eres set_cont]; split; assumption.
Qed.

Lemma sa_roots_sub s y c r : res_ok s -> In c (rcont (sa_of s y) r) -> In c (rcont s r).
Proof.
  intros [ND _]. unfold sa_of. destruct (eresource_of m s y) as [r0|]; [|tauto].
  destruct (nmem y (rcont s r0)); [|tauto]. cbn [rcont res_remove_raw set_eres set_rcont]. unfold updn.
  destruct (Nat.eqb_spec r0 r) as [E|N]; [|tauto]. subst r0. rewrite (remove_nat_In y c _ (ND r)). tauto.
Qed.

Lemma eresource_of_root s y : cont s y = None -> eresource_of m s y = eres s y.
Proof. intros H. unfold eresource_of. cbn [root_of]. rewrite H. reflexivity. Qed.

Lemma sa_not_root s y r : res_ok s -> roots_free s -> ~ In y (rcont (sa_of s y) r).
Proof.
  intros Hres Hroots Hin. pose proof Hres as [ND B].
  destruct (cont s y) as [k|] eqn:Ec.
  - apply (sa_roots_sub s y y r Hres) in Hin. rewrite (Hroots y r Hin) in Ec. discriminate.
  - revert Hin. unfold sa_of. rewrite (eresource_of_root s y Ec).
    destruct (eres s y) as [r0|] eqn:Er.
    + pose proof (proj2 (B y r0) Er) as Hy. apply nmem_In in Hy. rewrite Hy.
      cbn [rcont res_remove_raw set_eres set_rcont]. unfold updn.
      destruct (Nat.eqb_spec r0 r) as [E|N].
      * subst r0. rewrite (remove_nat_In y y _ (ND r)). tauto.
      * intros Hin. apply B in Hin. congruence.
    + intros Hin. apply B in Hin. congruence.
Qed.

End Prim.

(* ---------- procedures on a NON-containment cell leave back-pointers and roots alone ---------- *)
Section NonCont.
Variable m : mm.

Lemma nc_coll_append_raw s k x :
  f_cont (fd m (snd k)) = false -> cont (coll_append_raw m s k x) = cont s /\ rframe s (coll_append_raw m s k x).
Proof.
  intros Hc. unfold coll_append_raw. rewrite (uc_noncont m s (fst k) (snd k) (Some x) None Hc).
  split; [reflexivity | split; reflexivity].
Qed.

Lemma nc_set_obj_raw s k x :
  f_cont (fd m (snd k)) = false -> cont (set_obj_raw m s k x) = cont s /\ rframe s (set_obj_raw m s k x).
Proof.
  intros Hc. unfold set_obj_raw. destruct (f_isref (fd m (snd k))).
  - rewrite (uc_noncont m _ (fst k) (snd k) (Some x) _ Hc). split; [reflexivity | split; reflexivity].
  - split; [reflexivity | split; reflexivity].
Qed.

Lemma nc_coll_remove_raw s k x :
  f_cont (fd m (snd k)) = false -> cont (coll_remove_raw m s k x) = cont s.
Proof.
  intros Hc. destruct (coll_remove_raw_fields m s k x) as [_ [B _]]. rewrite B, Hc.
  destruct (vmem (VObj x) (vals s k)); reflexivity.
Qed.

Lemma nc_set_none_raw s k :
  f_cont (fd m (snd k)) = false -> cont (set_none_raw m s k) = cont s.
Proof.
  intros Hc. unfold set_none_raw. destruct (f_isref (fd m (snd k))); [|reflexivity].
  destruct (uc_clear_fields m (set_store m s k VNone) (snd k) (obj_of (single s k))) as [_ [_ [_ D]]].
  rewrite D, Hc. reflexivity.
Qed.

Lemma cont_inv_add_any s o c : cont (inv_add s o c) = cont s.
Proof. unfold inv_add. destruct (cmem c (inv s o)); reflexivity. Qed.

End NonCont.

(* ---------- the pre-unlinked state: back-pointers and roots ---------- *)
Section PreFacts.
Variable m : mm.
Hypothesis W : wf_mm m.

Lemma pre_unlink_cont_other s x f y c :
  slot_ok m s x f y -> c <> y -> cont (pre_unlink m s x f y) c = cont s c.
Proof.
  intros Hown N. unfold pre_unlink. destruct (cont s y) as [[p pf]|] eqn:Ec; [|reflexivity].
  destruct (negb ((p =? x) && (pf =? f))) eqn:Eg; [|reflexivity].
  assert (Np : (p, pf) <> (x, f)) by (intros E; inversion E; subst; rewrite !Nat.eqb_refl in Eg; discriminate).
  destruct (Hown p pf Ec Np) as [H1 [H2 H3]].
  rewrite (cont_remove_or_unset m W s p pf y H1 H2 H3). destruct (Nat.eqb_spec y c); [congruence | reflexivity].
Qed.

Lemma pre_unlink_cont_self s x f y :
  slot_ok m s x f y ->
  cont (pre_unlink m s x f y) y = None \/
  (cont (pre_unlink m s x f y) y = Some (x, f) /\ pre_unlink m s x f y = s).
Proof.
  intros Hown. unfold pre_unlink. destruct (cont s y) as [[p pf]|] eqn:Ec; [|left; exact Ec].
  destruct (negb ((p =? x) && (pf =? f))) eqn:Eg.
  - left. assert (Np : (p, pf) <> (x, f)) by (intros E; inversion E; subst; rewrite !Nat.eqb_refl in Eg; discriminate).
    destruct (Hown p pf Ec Np) as [H1 [H2 H3]].
    rewrite (cont_remove_or_unset m W s p pf y H1 H2 H3). rewrite Nat.eqb_refl. reflexivity.
  - right. apply negb_false_iff in Eg. apply andb_true_iff in Eg. destruct Eg as [E1 E2].
    apply Nat.eqb_eq in E1. apply Nat.eqb_eq in E2. subst p pf. split; [exact Ec | reflexivity].
Qed.

Lemma pre_unlink_rframe s x f y : rframe s (pre_unlink m s x f y).
Proof.
  unfold pre_unlink. destruct (cont s y) as [[p pf]|]; [|apply rframe_refl].
  destruct (negb ((p =? x) && (pf =? f))); [apply rframe_remove_or_unset | apply rframe_refl].
Qed.

End PreFacts.

(* a write to one many-valued cell that keeps its objects (or whose feature has neither
   opposite nor containment) preserves WF *)
Lemma WF_cell_write m (W : wf_mm m) s s' (x : oid) (f : fid) :
  WF m s -> f_many (fd m f) = true ->
  (forall k, k <> (x, f) -> vals s' k = vals s k) ->
  (forall c, cont s' c = cont s c) -> (forall c, eres s' c = eres s c) -> (forall r, rcont s' r = rcont s r) ->
  ((f_opp (fd m f) <> None \/ f_cont (fd m f) = true) -> objs_of (vals s' (x, f)) = objs_of (vals s (x, f))) ->
  WF m s'.
Proof.
  intros H Hm HV HC HE HR Hobj.
  assert (Hsing : forall a h, f_many (fd m h) = false -> exists v, vals s' (a, h) = [v]).
  { intros a h Hh. rewrite HV by (intros E; inversion E; congruence). exact (proj1 (wf_shape m s H a h) Hh). }
  destruct (f_opp (fd m f)) as [g|] eqn:Eg.
  { apply (WF_objs_ext m s s'); try assumption. intros k.
    destruct (cell_eqb_spec k (x, f)) as [E|N]; [subst k; apply Hobj; left; discriminate | rewrite (HV k N); reflexivity]. }
  destruct (f_cont (fd m f)) eqn:Ec.
  { apply (WF_objs_ext m s s'); try assumption. intros k.
    destruct (cell_eqb_spec k (x, f)) as [E|N]; [subst k; apply Hobj; right; reflexivity | rewrite (HV k N); reflexivity]. }
  destruct H as [H1 H2 H3 H4 H5]. constructor.
  - apply (sym_frame_noopp m W s s' f H1 Eg). intros a h Nh. apply HV. intros E; inversion E; congruence.
  - intros a h. destruct (cell_eqb_spec (a, h) (x, f)) as [E|N].
    + inversion E; subst a h. split; [intros C; congruence|]. intros [C|C]; congruence.
    + rewrite (HV _ N). exact (H2 a h).
  - apply own_ok_c. apply (own_okc_frame m (vals s) (cont s)); [exact H3 | | exact HC].
    intros p h Hh. apply HV. intros E; inversion E; congruence.
  - destruct H4 as [A B]. split; [intros r; rewrite HR; apply A | intros c r; rewrite HR, HE; apply B].
  - intros c r. rewrite HR, HC. apply H5.
Qed.
