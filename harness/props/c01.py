"""C01 — kernel property: see DESIGN.md section 5 and harness/kprop.py."""
from harness import kgen, kprop

PID = 'C01'


def run(ctx, out):
    kprop.run(ctx, out, PID, ['C01'], {'outcome','refs-as-sets','values'}, 2000, 40000, pool=kgen.REF_TEMPLATES, weights=None, p_wrong=0.05)
    # bidirectional references whose ends are typed asymmetrically (far end typed by a subclass): the ends must
    # agree after every call, accepted or refused (oracle on the implementation only; shared with C03)
    from harness.props import c03
    c03.asym_scenarios(ctx, out, pid=PID)


def replay(ctx, rep):
    from harness import krun, common
    case = rep['case']
    if case.get('scenario') == 'asym':
        from harness.props import c03
        return common.scenario_replay(ctx, rep, {'asym': lambda c, o: c03.asym_scenarios(c, o, pid=PID)})
    r = krun.Run(case, ['C01']).run()
    for s in r.steps:
        print(s['op'], '->', s['outcome'])
    if r.failure:
        print('REPRODUCED', r.failure['property'], r.failure['clause'], r.failure['detail'])
        return 1
    print('not reproduced')
    return 0


# ---------------------------------------------------------------------------
# "... or load": a loaded model has symmetric opposites too — also when the document carries only ONE end of a
# pair (the other end declared transient, which save skips)  (oracle on the implementation only)

def load_scenarios(ctx, out):
    import os
    import tempfile
    from harness import common
    common.use_repo()
    from pyecore.ecore import EClass, EAttribute, EReference, EString, EPackage
    from pyecore.resources import ResourceSet, URI
    from pyecore.resources.json import JsonResource
    rng = common.rng_for(ctx.seed, 'C01:load')
    n = 30 if ctx.tier != 'thorough' else 600
    cnt = pairs_checked = 0
    for it in range(n):
        fmt = 'xmi' if it % 2 == 0 else 'json'
        pkg = EPackage('p', nsURI=f'http://verif/c01/load/{it}', nsPrefix='p')
        A, B = EClass('A'), EClass('B')
        for c in (A, B):
            c.eStructuralFeatures.append(EAttribute('name', EString))
        A.eStructuralFeatures.append(EReference('kids', A, upper=-1, containment=True))
        A.eStructuralFeatures.append(EReference('bs', B, upper=-1, containment=True))
        pairs = []
        for k, (m1, m2) in enumerate([(False, False), (False, True), (True, False), (True, True)]):
            if rng.random() < 0.7:
                f = EReference(f'f{k}', B, upper=-1 if m1 else 1)
                g = EReference(f'g{k}', A, upper=-1 if m2 else 1, eOpposite=f)
                tr = rng.choice([None, None, 'f', 'g'])          # one end transient: only the other is written
                if tr == 'f':
                    f.transient = True
                if tr == 'g':
                    g.transient = True
                A.eStructuralFeatures.append(f)
                B.eStructuralFeatures.append(g)
                pairs.append((f'f{k}', m1, f'g{k}', m2, tr))
        if not pairs:
            continue
        pkg.eClassifiers.extend([A, B])
        root = A(name='r')
        as_ = [root] + [A(name=f'a{i}') for i in range(rng.randrange(1, 4))]
        bs = [B(name=f'b{i}') for i in range(rng.randrange(2, 5))]
        for a in as_[1:]:
            root.kids.append(a)
        for b in bs:
            rng.choice(as_).bs.append(b)
        links = []
        for (f, m1, g, m2, tr) in pairs:
            for _ in range(rng.randrange(1, 5)):
                a, b = rng.choice(as_), rng.choice(bs)
                try:
                    if m1:
                        getattr(a, f).append(b)
                    else:
                        setattr(a, f, b)
                    links.append([a.name, f, b.name])
                except Exception:  # noqa
                    pass
        hist = {'format': fmt, 'pairs': [list(p) for p in pairs], 'links': links, 'as': len(as_), 'bs': len(bs)}
        case = {'scenario': 'load', 'seed': ctx.seed, 'tier': ctx.tier, 'history': hist}
        with tempfile.TemporaryDirectory() as tmp:
            try:
                rs = ResourceSet()
                rs.resource_factory['json'] = lambda uri: JsonResource(uri)
                rs.metamodel_registry[pkg.nsURI] = pkg
                res = rs.create_resource(URI(os.path.join(tmp, f'm.{fmt}')))
                res.append(root)
                res.save()
                rs2 = ResourceSet()
                rs2.resource_factory['json'] = lambda uri: JsonResource(uri)
                rs2.metamodel_registry[pkg.nsURI] = pkg
                lroot = rs2.get_resource(URI(os.path.join(tmp, f'm.{fmt}'))).contents[0]
            except Exception as e:  # noqa  (save/load failures are C08/C09's subject)
                out.notes.append(f'C01 load scenario skipped: {type(e).__name__}: {e}'[:200])
                continue
            cnt += 1
            objs = [lroot] + list(lroot.eAllContents())
            la = [o for o in objs if o.eClass.name == 'A']
            lb = [o for o in objs if o.eClass.name == 'B']
            bad = None
            for (f, m1, g, m2, tr) in pairs:
                for a in la:
                    fa = list(getattr(a, f)) if m1 else ([getattr(a, f)] if getattr(a, f) is not None else [])
                    for b in lb:
                        gb = list(getattr(b, g)) if m2 else ([getattr(b, g)] if getattr(b, g) is not None else [])
                        pairs_checked += 1
                        if (b in fa) != (a in gb):
                            bad = (f, g, a.name, b.name, b in fa, a in gb, tr)
            if bad:
                f, g, an, bn, x, y, tr = bad
                out.fail({'property': 'C01', 'clause': 'asymmetric-after-load', 'format': fmt, 'transient_end': tr is not None},
                         f'after loading the {fmt} document: {bn} in {an}.{f} is {x} but {an} in {bn}.{g} is {y} '
                         f'(transient end: {tr})', case)
    out.coverage['load_scenarios'] = cnt
    out.coverage['load_pairs_checked'] = pairs_checked


_run_k = run


def run(ctx, out):   # noqa: F811
    _run_k(ctx, out)
    load_scenarios(ctx, out)


_replay_k = replay


def replay(ctx, rep):   # noqa: F811
    if rep.get('case', {}).get('scenario') == 'load':
        from harness import common
        return common.scenario_replay(ctx, rep, {'load': load_scenarios})
    return _replay_k(ctx, rep)
