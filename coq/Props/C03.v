(* C03 — no feature ever holds a value of the wrong type.  Statements only;
   proofs in Proofs/C03Proofs.v over Model/Kernel.v.
   `typed m s`: every value stored in every slot passes the type check of its
   feature (EcoreUtils.isinstance clause by clause; None only in
   single-valued slots and in attribute collections).  It is an invariant of
   EVERY operation of the kernel model — assignment, unset, del, whole
   collection assignment, append/add, insert, remove, pop, clear,
   extend/update/+=, item assignment and deletion, delete(), resource
   append/remove/extend — including the values the opposite and container
   updates write into OTHER objects' slots.  The only premises are about the
   call, not the state: collection operations address multi-valued features,
   and the owner of a linking call conforms to the type of the opposite end
   (true for every applicable feature of a well-formed metamodel). *)
From Coq Require Import ZArith List Bool Arith.
From PyecoreV Require Import Lib.PyBase Lib.PyList Model.Kernel Proofs.C03Proofs Model.EnumEdit Proofs.EnumEditProofs.
Import ListNotations.

Theorem C03_typed_invariant_step :
  forall m s o, typed m s -> op_ok m o -> typed m (next m s o).
Proof. exact typed_step. Qed.
Print Assumptions C03_typed_invariant_step.

Theorem C03_typed_every_history :
  forall m ops s, typed m s -> Forall (op_ok m) ops -> typed m (fold_left (next m) ops s).
Proof. exact typed_history. Qed.
Print Assumptions C03_typed_every_history.

Theorem C03_initial_state_typed :
  forall m,
    (forall f, f_many (fd m f) = false -> check_single m f (f_default (fd m f)) = true) ->
    typed m (init_state m).
Proof. exact typed_init. Qed.
Print Assumptions C03_initial_state_typed.

(* a rejected single-value operation raises BadValueError and changes nothing at all *)
Theorem C03_reject_set :
  forall m s x f v, f_many (fd m f) = false -> check_single m f v = false ->
    step m s (OSet x f v) = ((Some BadValue, s), None).
Proof. exact reject_set. Qed.
Print Assumptions C03_reject_set.

Theorem C03_reject_append_insert :
  forall m s x f pos v, check_elem m f v = false ->
    coll_add_full m s (x, f) pos v = (Some BadValue, s).
Proof. exact reject_add. Qed.
Print Assumptions C03_reject_append_insert.

Theorem C03_reject_item_assignment :
  forall m s x f i v, check_elem m f v = false ->
    coll_setitem_full m s (x, f) i v = (Some BadValue, s).
Proof. exact reject_setitem. Qed.
Print Assumptions C03_reject_item_assignment.

Theorem C03_reject_extend :
  forall m s x f vs, forallb (check_elem m f) vs = false ->
    coll_extend_full m s (x, f) vs = (Some BadValue, s).
Proof. exact reject_extend. Qed.
Print Assumptions C03_reject_extend.

Theorem C03_reject_whole_assignment :
  forall m s x f vs, forallb (check_elem m f) vs = false ->
    assign_full m s (x, f) vs = (Some BadValue, s).
Proof. exact reject_assign. Qed.
Print Assumptions C03_reject_whole_assignment.

(* every conforming value is accepted *)
Theorem C03_accept_set :
  forall m s x f v, f_many (fd m f) = false -> check_single m f v = true ->
    fst (fst (step m s (OSet x f v))) = None.
Proof. exact accept_set. Qed.
Print Assumptions C03_accept_set.

Theorem C03_accept_append_insert :
  forall m s x f pos v, check_elem m f v = true -> fst (coll_add_full m s (x, f) pos v) = None.
Proof. exact accept_add. Qed.
Print Assumptions C03_accept_append_insert.

Theorem C03_accept_item_assignment :
  forall m s x f i v, check_elem m f v = true ->
    fst (coll_setitem_full m s (x, f) i v) <> Some BadValue.
Proof. exact accept_setitem. Qed.
Print Assumptions C03_accept_item_assignment.

(* non-vacuity: an EInt attribute, a subclass-typed reference; a bool is an int, a string is not *)
Definition ex_mm : mm :=
  {| feats := [ {| f_owner := 0; f_isref := false; f_many := true; f_unique := true; f_cont := false;
                   f_opp := None; f_type := TInt; f_default := VNone |};
                {| f_owner := 0; f_isref := true; f_many := false; f_unique := true; f_cont := false;
                   f_opp := None; f_type := TClass 1; f_default := VNone |} ];
     conf := [(0, 0); (1, 1); (2, 2); (2, 1)]; ocls := [0; 1; 2]; enames := []; nres := 0 |}.

Example C03_witness :
  fst (fst (step ex_mm (init_state ex_mm) (OAppend 0 0 (VBool true)))) = None /\
  fst (fst (step ex_mm (init_state ex_mm) (OAppend 0 0 (VStr 1)))) = Some BadValue /\
  fst (fst (step ex_mm (init_state ex_mm) (OSet 0 1 (VObj 2)))) = None /\
  fst (fst (step ex_mm (init_state ex_mm) (OSet 0 1 (VObj 0)))) = Some BadValue.
Proof. vm_compute. repeat split; reflexivity. Qed.


(* ---------------- enumerations edited at run time (Model/EnumEdit.v: EEnum.__contains__, eLiterals edits,
   literals renamed in place) ----------------
   In the kernel model the literal names of an enumeration are fixed per case; here they change.  Whatever the
   history of renames / appends / removals / clears: a NAME passes the type check of an EEnum-typed feature iff
   some literal object the enumeration currently holds currently carries it, a LITERAL OBJECT passes iff the
   enumeration currently holds it; and the effect of each edit on both is stated exactly. *)
Theorem C03_enum_conformance_follows_the_current_literals :
  forall names ops,
  let e := fold_left enext ops (init_enum names) in
  distinct e /\
  (forall n, conf_name e n = true <-> exists l, In (l, n) (lits e)) /\
  (forall l, conf_lit e l = true <-> In l (ids e)).
Proof. exact conformance_after_any_history. Qed.
Print Assumptions C03_enum_conformance_follows_the_current_literals.

Theorem C03_enum_literal_membership_step :
  forall e o l',
  conf_lit (enext e o) l' =
  match o with
  | ERename _ _ => conf_lit e l'
  | EAppend l _ => conf_lit e l' || Nat.eqb l l'
  | ERemove l => conf_lit e l' && negb (Nat.eqb l l')
  | EClear => false
  end.
Proof. exact has_lit_step. Qed.
Print Assumptions C03_enum_literal_membership_step.

Theorem C03_enum_rename_in_place :
  forall e l n n',
  conf_name (enext e (ERename l n)) n' = true <->
  (exists k, In (k, n') (lits e) /\ k <> l) \/ (n' = n /\ conf_lit e l = true).
Proof. exact conf_name_rename. Qed.
Print Assumptions C03_enum_rename_in_place.

Theorem C03_enum_remove :
  forall e l n', conf_name (enext e (ERemove l)) n' = true <-> exists k, In (k, n') (lits e) /\ k <> l.
Proof. exact conf_name_remove. Qed.
Print Assumptions C03_enum_remove.

Theorem C03_enum_append :
  forall e l n n', conf_lit e l = false ->
  (conf_name (enext e (EAppend l n)) n' = true <-> conf_name e n' = true \/ n' = n).
Proof. exact conf_name_append. Qed.
Print Assumptions C03_enum_append.

Theorem C03_enum_clear_and_failed_remove :
  forall e, ((forall n, conf_name (enext e EClear) n = false) /\ (forall l, conf_lit (enext e EClear) l = false)) /\
            (forall l, conf_lit e l = false -> estep e (ERemove l) = (e, false)).
Proof. intros e. split; [exact (conf_after_clear e) | exact (failed_remove_changes_nothing e)]. Qed.
Print Assumptions C03_enum_clear_and_failed_remove.

(* deciding from the by-name index kept in the enumeration's __dict__ would be wrong (stale after a rename) *)
Theorem C03_enum_index_conformance_refuted :
  exists names ops n,
    let e := fold_left enext ops (init_enum names) in
    conf_name_by_index e n = true /\ conf_name e n = false.
Proof. exact index_conformance_refuted. Qed.
Print Assumptions C03_enum_index_conformance_refuted.

(* slice assignment (Model/Slice.v): conforming values written into a conforming list-based collection leave only
   conforming values, for every pair of bounds; what a slice reads conforms as well *)
From PyecoreV Require Import Model.Slice Proofs.SliceProofs.
Theorem C03_slice_assignment_keeps_conformance :
  forall (P : Z -> Prop) (a b : option Z) (ys l : list Z),
    Forall P l -> Forall P ys -> Forall P (py_setslice a b ys l) /\ Forall P (py_getslice a b l).
Proof. intros P a b ys l. exact (setslice_typed P a b ys l). Qed.
Print Assumptions C03_slice_assignment_keeps_conformance.
