(* Facts about Model/StaticDecl.v: the static rendering, promoted, and the
   dynamic construction both give back exactly the description. *)
From Coq Require Import String Ascii ZArith Bool List Lia Arith.
From PyecoreV Require Import Lib.PyBase Lib.PyList Model.Operations Model.StaticDecl Proofs.OperationsProofs.
Import ListNotations.
Open Scope Z_scope.

(* ---------- lists ---------- *)

Lemma nth_error_upd_nth {A} (f : A -> A) : forall (l : list A) n m,
  nth_error (upd_nth n f l) m = if Nat.eqb n m then option_map f (nth_error l m) else nth_error l m.
Proof.
  induction l as [|x r IH]; intros n m; simpl.
  - destruct m; simpl; destruct (Nat.eqb n _); reflexivity.
  - destruct n as [|n]; destruct m as [|m]; simpl; try reflexivity. apply IH.
Qed.

Lemma upd_nth_app {A} (f : A -> A) (a : list A) x b :
  upd_nth (length a) f (a ++ x :: b) = a ++ f x :: b.
Proof. induction a as [|y a IH]; simpl; [reflexivity|]. rewrite IH. reflexivity. Qed.

Lemma nth_error_number_from {A} : forall (l : list A) i j,
  nth_error (number_from i l) j = option_map (fun x => ((i + j)%nat, x)) (nth_error l j).
Proof.
  induction l as [|x r IH]; intros i j; simpl.
  - destruct j; reflexivity.
  - destruct j as [|j]; simpl.
    + rewrite Nat.add_0_r. reflexivity.
    + rewrite IH. replace (S i + j)%nat with (i + S j)%nat by lia. reflexivity.
Qed.

Lemma In_number_from {A} (l : list A) i k x :
  In (k, x) (number_from i l) <-> exists j, k = (i + j)%nat /\ nth_error l j = Some x.
Proof.
  split.
  - intros H. apply In_nth_error in H. destruct H as [j H]. rewrite nth_error_number_from in H.
    destruct (nth_error l j) eqn:E; simpl in H; [|discriminate]. inversion H; subst. exists j. split; [reflexivity|assumption].
  - intros (j & -> & H). apply nth_error_In with (n := j). rewrite nth_error_number_from, H. reflexivity.
Qed.

Lemma number_from_app {A} (a b : list A) i :
  number_from i (a ++ b) = number_from i a ++ number_from (i + length a) b.
Proof.
  revert i. induction a as [|x a IH]; intros i; simpl.
  - rewrite Nat.add_0_r. reflexivity.
  - rewrite IH. replace (S i + length a)%nat with (i + S (length a))%nat by lia. reflexivity.
Qed.

Lemma length_number_from {A} (l : list A) i : length (number_from i l) = length l.
Proof. revert i. induction l as [|x r IH]; intros i; simpl; [reflexivity|]. rewrite IH. reflexivity. Qed.

Lemma list_ext_nth {A} : forall (l1 l2 : list A),
  (forall i, nth_error l1 i = nth_error l2 i) -> l1 = l2.
Proof.
  induction l1 as [|x r IH]; intros [|y s] H.
  - reflexivity.
  - specialize (H O). discriminate.
  - specialize (H O). discriminate.
  - pose proof (H O) as H0. simpl in H0. inversion H0; subst. f_equal. apply IH.
    intros i. apply (H (S i)).
Qed.

Lemma map_number_from {A B} (G : nat -> B) (g : A -> B) : forall (l : list A) j0,
  (forall j x, nth_error l j = Some x -> G (j0 + j)%nat = g x) ->
  map (fun jx => G (fst jx)) (number_from j0 l) = map g l.
Proof.
  induction l as [|x r IH]; intros j0 H; simpl; [reflexivity|]. f_equal.
  - rewrite <- (H O x eq_refl). rewrite Nat.add_0_r. reflexivity.
  - apply IH. intros j y E. rewrite <- (H (S j) y E). f_equal. lia.
Qed.

Lemma all_some_map {A B} (f : A -> option B) (g : A -> B) (l : list A) :
  (forall x, In x l -> f x = Some (g x)) -> all_some (map f l) = Some (map g l).
Proof.
  induction l as [|x r IH]; intros H; simpl; [reflexivity|].
  rewrite (H x (or_introl eq_refl)). rewrite IH; [reflexivity|]. intros y Hy. apply H. right. assumption.
Qed.

Lemma find_some_nth {A} (p : A -> bool) : forall l x,
  find p l = Some x -> exists n, nth_error l n = Some x /\ p x = true.
Proof.
  induction l as [|y r IH]; intros x H; simpl in H; [discriminate|].
  destruct (p y) eqn:E.
  - inversion H; subst. exists O. split; [reflexivity|assumption].
  - destruct (IH x H) as (n & Hn & Hp). exists (S n). split; assumption.
Qed.

(* ---------- names ---------- *)

Lemma has_dup_NoDup (l : list name) : has_dup l = false <-> NoDup l.
Proof.
  induction l as [|x r IH]; simpl.
  - split; [intros _; constructor|reflexivity].
  - rewrite orb_false_iff. split.
    + intros [H1 H2]. constructor; [|apply IH; assumption].
      intros Hin. apply nmem_In in Hin. congruence.
    + intros H. inversion H as [|? ? Hn Hr]; subst. split; [|apply IH; assumption].
      destruct (nmem x r) eqn:E; [|reflexivity]. apply nmem_In in E. contradiction.
Qed.

Lemma nmem_false n l : nmem n l = false <-> ~ In n l.
Proof.
  pose proof (nmem_In n l) as H. destruct (nmem n l).
  - split; [discriminate|]. intros N. exfalso. apply N. apply H. reflexivity.
  - split; [|reflexivity]. intros _ Hin. apply H in Hin. discriminate.
Qed.

Lemma qname_eqb_eq a b : qname_eqb a b = true <-> a = b.
Proof.
  destruct a as [a1 a2], b as [b1 b2]. unfold qname_eqb. simpl. rewrite andb_true_iff, !name_eqb_eq.
  split; [intros [-> ->]; reflexivity|]. intros H. inversion H. split; reflexivity.
Qed.

Lemma NoDup_nth_inj {A} (l : list A) i j x :
  NoDup l -> nth_error l i = Some x -> nth_error l j = Some x -> i = j.
Proof.
  intros ND Hi Hj. apply (proj1 (NoDup_nth_error l) ND); [|congruence].
  apply nth_error_Some. congruence.
Qed.

Lemma NoDup_app_inv {A} : forall (a b : list A),
  NoDup (a ++ b) -> NoDup a /\ NoDup b /\ (forall x, In x a -> ~ In x b).
Proof.
  induction a as [|x a IH]; intros b H; simpl in *.
  - split; [constructor|]. split; [assumption|]. intros x [].
  - inversion H as [|? ? Hn Hr]; subst. destruct (IH b Hr) as (Ha & Hb & Hd). split; [|split].
    + constructor; [|assumption]. intros Hin. apply Hn. apply in_or_app. left. assumption.
    + assumption.
    + intros y [->|Hy]; [|apply Hd; assumption]. intros Hin. apply Hn. apply in_or_app. right. assumption.
Qed.

(* ---------- bindings read afterwards ---------- *)

Section AssocLast.
  Context {K V : Type} (eqb : K -> K -> bool).
  Hypothesis eqb_eq : forall a b, eqb a b = true <-> a = b.

  Lemma assoc_last_some_in k : forall (l : list (K * V)) v, assoc_last eqb k l = Some v -> In (k, v) l.
  Proof.
    induction l as [|[k' v'] r IH]; intros v H; simpl in H; [discriminate|].
    destruct (assoc_last eqb k r) as [w|] eqn:E.
    - inversion H; subst. right. apply IH. reflexivity.
    - destruct (eqb k k') eqn:Ek; [|discriminate]. apply eqb_eq in Ek. inversion H; subst. left. reflexivity.
  Qed.

  (* all bindings of k agree: that value is read *)
  Lemma assoc_last_functional k v : forall (l : list (K * V)),
    In (k, v) l -> (forall v', In (k, v') l -> v' = v) -> assoc_last eqb k l = Some v.
  Proof.
    induction l as [|[k' v'] r IH]; intros Hin F; simpl; [destruct Hin|].
    destruct (assoc_last eqb k r) as [w|] eqn:E.
    - apply assoc_last_some_in in E. f_equal. apply F. right. assumption.
    - destruct (eqb k k') eqn:Ek.
      + apply eqb_eq in Ek. subst k'. f_equal. apply F. left. reflexivity.
      + destruct Hin as [Hh|Ht].
        * inversion Hh; subst. assert (eqb k k = true) as X by (apply eqb_eq; reflexivity). congruence.
        * assert (X : @None V = Some v); [|discriminate X]. apply IH; [assumption|]. intros w Hw. apply F. right. assumption.
  Qed.

  Lemma assoc_last_none k : forall (l : list (K * V)),
    (forall v, ~ In (k, v) l) -> assoc_last eqb k l = None.
  Proof.
    intros l H. destruct (assoc_last eqb k l) as [v|] eqn:E; [|reflexivity].
    apply assoc_last_some_in in E. exfalso. apply (H v). assumption.
  Qed.
End AssocLast.

(* ---------- dicts ---------- *)

Lemma dict_set_fresh {V} (k : name) (v : V) : forall d,
  ~ In k (map fst d) -> dict_set d k v = d ++ [(k, v)].
Proof.
  induction d as [|[k' v'] r IH]; intros H; simpl; [reflexivity|].
  destruct (name_eqb k k') eqn:E.
  - apply name_eqb_eq in E. subst. exfalso. apply H. left. reflexivity.
  - rewrite IH; [reflexivity|]. intros Hin. apply H. right. assumption.
Qed.

Lemma dict_get_in {V} (k : name) (v : V) : forall d,
  NoDup (map fst d) -> In (k, v) d -> dict_get d k = Some v.
Proof.
  induction d as [|[k' v'] r IH]; intros ND Hin; simpl; [destruct Hin|].
  inversion ND as [|? ? Hn Hr]; subst. destruct Hin as [Hh|Ht].
  - inversion Hh; subst. rewrite name_eqb_refl. reflexivity.
  - destruct (name_eqb k k') eqn:E.
    + apply name_eqb_eq in E. subst. exfalso. apply Hn. apply in_map_iff. exists (k', v). split; [reflexivity|assumption].
    + apply IH; assumption.
Qed.

(* ---------- the heap: writes at locations ---------- *)

Definition loc_eq_dec (a b : loc) : {a = b} + {a <> b}.
Proof. decide equality; apply Nat.eq_dec. Qed.

Lemma get_upd_loc p l f h :
  get_loc p (upd_loc l f h) = if loc_eq_dec p l then option_map f (get_loc p h) else get_loc p h.
Proof.
  destruct p as [pi pj], l as [li lj]. unfold get_loc, upd_loc. simpl.
  rewrite nth_error_upd_nth. destruct (Nat.eqb li pi) eqn:Ei.
  - apply Nat.eqb_eq in Ei. subst li. destruct (nth_error h pi) as [row|]; simpl.
    + rewrite nth_error_upd_nth. destruct (Nat.eqb lj pj) eqn:Ej.
      * apply Nat.eqb_eq in Ej. subst lj. destruct (loc_eq_dec (pi, pj) (pi, pj)); [reflexivity|congruence].
      * apply Nat.eqb_neq in Ej. destruct (loc_eq_dec (pi, pj) (pi, lj)) as [E|]; [inversion E; congruence|reflexivity].
    + destruct (loc_eq_dec (pi, pj) (pi, lj)); reflexivity.
  - apply Nat.eqb_neq in Ei. destruct (loc_eq_dec (pi, pj) (li, lj)) as [E|]; [inversion E; congruence|reflexivity].
Qed.

(* a sequence of in-place writes *)
Definition write := (loc * (fobj -> fobj))%type.

Definition apply_writes (ws : list write) (h : heap) : heap :=
  fold_left (fun h w => upd_loc (fst w) (snd w) h) ws h.

Definition effect_at (x : loc) (o : fobj) (w : write) : fobj :=
  if loc_eq_dec x (fst w) then snd w o else o.

Lemma get_apply_writes x : forall ws h,
  get_loc x (apply_writes ws h) = option_map (fun o => fold_left (effect_at x) ws o) (get_loc x h).
Proof.
  induction ws as [|w r IH]; intros h; simpl.
  - destruct (get_loc x h); reflexivity.
  - unfold apply_writes in *. simpl. rewrite IH. rewrite get_upd_loc.
    destruct (get_loc x h) as [o|]; destruct (loc_eq_dec x (fst w)) eqn:D; simpl; try reflexivity;
      f_equal; f_equal; unfold effect_at; rewrite D; reflexivity.
Qed.

Lemma apply_writes_app a b h : apply_writes (a ++ b) h = apply_writes b (apply_writes a h).
Proof. unfold apply_writes. apply fold_left_app. Qed.

Definition touches (x : loc) (w : write) : bool := if loc_eq_dec x (fst w) then true else false.

(* every write that touches x is the same idempotent update G *)
Lemma fold_effect_const x (G : fobj -> fobj) : forall ws,
  (forall w, In w ws -> fst w = x -> forall o, snd w o = G o) ->
  (forall o, G (G o) = G o) ->
  forall o, fold_left (effect_at x) ws o = if existsb (touches x) ws then G o else o.
Proof.
  assert (Stable : forall ws, (forall w, In w ws -> fst w = x -> forall o, snd w o = G o) ->
                   (forall o, G (G o) = G o) -> forall o, fold_left (effect_at x) ws (G o) = G o).
  { induction ws as [|w r IH]; intros H I o; simpl; [reflexivity|].
    unfold effect_at at 2. destruct (loc_eq_dec x (fst w)) as [E|N].
    - rewrite (H w (or_introl eq_refl) (eq_sym E)), I. apply IH; [|assumption].
      intros w' Hw'. apply H. right. assumption.
    - apply IH; [|assumption]. intros w' Hw'. apply H. right. assumption. }
  induction ws as [|w r IH]; intros H I o; simpl; [reflexivity|].
  unfold effect_at at 2, touches at 1. destruct (loc_eq_dec x (fst w)) as [E|N]; simpl.
  - rewrite (H w (or_introl eq_refl) (eq_sym E)). apply Stable; [|assumption].
    intros w' Hw'. apply H. right. assumption.
  - apply IH; [|assumption]. intros w' Hw'. apply H. right. assumption.
Qed.

(* ---------- what wf_descr says ---------- *)

Definition at_loc (cs : list cdecl) (p : loc) (c : cdecl) (f : fdecl) : Prop :=
  nth_error cs (fst p) = Some c /\ nth_error (cd_feats c) (snd p) = Some f.

Record WF (D : descr) : Prop := mkWF {
  wf_names : NoDup (map cd_name (d_classes D));
  wf_keys : forall i c, nth_error (d_classes D) i = Some c ->
            NoDup (map fd_name (cd_feats c) ++ map fst (cd_ops c));
  wf_feats : forall i c f, nth_error (d_classes D) i = Some c -> In f (cd_feats c) -> wf_feat D c f = true;
  wf_ops : forall i c o, nth_error (d_classes D) i = Some c -> In o (cd_ops c) -> wf_op o = true;
  wf_sup_nodup : forall i c, nth_error (d_classes D) i = Some c -> NoDup (cd_supers c);
  wf_sup_before : forall i c s, nth_error (d_classes D) i = Some c -> In s (cd_supers c) ->
                  In s (map cd_name (firstn i (d_classes D)))
}.

Lemma wf_classes_nth D : forall cs prev i c,
  wf_classes D prev cs = true -> nth_error cs i = Some c ->
  wf_class D (prev ++ map cd_name (firstn i cs)) c = true.
Proof.
  induction cs as [|a r IH]; intros prev i c H Hn; [destruct i; discriminate|].
  simpl in H. apply andb_true_iff in H. destruct H as [H1 H2]. destruct i as [|i]; simpl in *.
  - inversion Hn; subst. rewrite app_nil_r. assumption.
  - specialize (IH _ _ _ H2 Hn). rewrite <- app_assoc in IH. exact IH.
Qed.

Lemma wf_descr_WF D : wf_descr D = true -> WF D.
Proof.
  unfold wf_descr. rewrite !andb_true_iff. intros [[[H1 _] _] H4].
  apply negb_true_iff in H1. apply has_dup_NoDup in H1.
  assert (C : forall i c, nth_error (d_classes D) i = Some c ->
              wf_class D (map cd_name (firstn i (d_classes D))) c = true).
  { intros i c Hn. apply (wf_classes_nth D _ [] i c H4 Hn). }
  constructor; try assumption.
  - intros i c Hn. specialize (C i c Hn). unfold wf_class in C. rewrite !andb_true_iff in C.
    destruct C as [[[[C1 _] _] _] _]. apply negb_true_iff in C1. apply has_dup_NoDup. assumption.
  - intros i c f Hn Hf. specialize (C i c Hn). unfold wf_class in C. rewrite !andb_true_iff in C.
    destruct C as [[[[_ C2] _] _] _]. rewrite forallb_forall in C2. apply C2. assumption.
  - intros i c o Hn Ho. specialize (C i c Hn). unfold wf_class in C. rewrite !andb_true_iff in C.
    destruct C as [[[_ C3] _] _]. rewrite forallb_forall in C3. apply C3. assumption.
  - intros i c Hn. specialize (C i c Hn). unfold wf_class in C. rewrite !andb_true_iff in C.
    destruct C as [[_ C4] _]. apply negb_true_iff in C4. apply has_dup_NoDup. assumption.
  - intros i c s Hn Hs. specialize (C i c Hn). unfold wf_class in C. rewrite !andb_true_iff in C.
    destruct C as [_ C5]. rewrite forallb_forall in C5. apply nmem_In. apply C5. assumption.
Qed.

(* ---------- names resolve to positions ---------- *)

Section Resolution.
  Variable D : descr.
  Hypothesis W : WF D.
  Let cs := d_classes D.

  Lemma class_name_inj i j c c' :
    nth_error cs i = Some c -> nth_error cs j = Some c' -> cd_name c = cd_name c' -> i = j.
  Proof.
    intros Hi Hj E. apply (NoDup_nth_inj (map cd_name cs) i j (cd_name c) (wf_names D W)).
    - apply map_nth_error. assumption.
    - rewrite E. apply map_nth_error. assumption.
  Qed.

  Lemma feat_name_inj i c j j' f f' :
    nth_error cs i = Some c -> nth_error (cd_feats c) j = Some f -> nth_error (cd_feats c) j' = Some f' ->
    fd_name f = fd_name f' -> j = j'.
  Proof.
    intros Hc Hj Hj' E. pose proof (wf_keys D W i c Hc) as ND. apply NoDup_app_inv in ND. destruct ND as [ND _].
    apply (NoDup_nth_inj (map fd_name (cd_feats c)) j j' (fd_name f) ND).
    - apply map_nth_error. assumption.
    - rewrite E. apply map_nth_error. assumption.
  Qed.

  Lemma In_class_index n i :
    In (n, i) (class_index cs) <-> exists c, nth_error cs i = Some c /\ cd_name c = n.
  Proof.
    unfold class_index. rewrite in_map_iff. split.
    - intros ([k c] & E & Hin). simpl in E. inversion E; subst. apply In_number_from in Hin.
      destruct Hin as (j & -> & Hj). exists c. split; [assumption|reflexivity].
    - intros (c & Hn & <-). exists (i, c). split; [reflexivity|]. apply In_number_from. exists i.
      split; [reflexivity|assumption].
  Qed.

  Lemma lookup_cls_at i c : nth_error cs i = Some c -> lookup_cls cs (cd_name c) = Some i.
  Proof.
    intros Hn. unfold lookup_cls. apply (assoc_last_functional name_eqb name_eqb_eq).
    - apply In_class_index. exists c. split; [assumption|reflexivity].
    - intros i' Hin. apply In_class_index in Hin. destruct Hin as (c' & Hn' & E).
      apply (class_name_inj i' i c' c Hn' Hn E).
  Qed.

  Lemma lookup_cls_some n j : lookup_cls cs n = Some j -> exists c, nth_error cs j = Some c /\ cd_name c = n.
  Proof.
    intros H. apply (assoc_last_some_in name_eqb name_eqb_eq) in H. apply In_class_index. assumption.
  Qed.

  Lemma In_byname q p :
    In (q, p) (byname cs) <-> exists c f, at_loc cs p c f /\ q = (cd_name c, fd_name f).
  Proof.
    unfold byname. rewrite in_flat_map. split.
    - intros ([i c] & Hic & Hin). simpl in Hin. apply in_map_iff in Hin.
      destruct Hin as ([j f] & E & Hjf). simpl in E. inversion E; subst.
      apply In_number_from in Hic. destruct Hic as (i' & -> & Hi).
      apply In_number_from in Hjf. destruct Hjf as (j' & -> & Hj).
      exists c, f. split; [split; assumption|reflexivity].
    - intros (c & f & [Hc Hf] & ->). destruct p as [i j]. simpl in *. exists (i, c). split.
      + apply In_number_from. exists i. split; [reflexivity|assumption].
      + simpl. apply in_map_iff. exists (j, f). split; [reflexivity|].
        apply In_number_from. exists j. split; [reflexivity|assumption].
  Qed.

  Lemma resolve_d_at p c f : at_loc cs p c f -> resolve_d cs (cd_name c, fd_name f) = Some p.
  Proof.
    intros A. unfold resolve_d. apply (assoc_last_functional qname_eqb qname_eqb_eq).
    - apply In_byname. exists c, f. split; [assumption|reflexivity].
    - intros p' Hin. apply In_byname in Hin. destruct Hin as (c' & f' & [Hc' Hf'] & E).
      inversion E as [[E1 E2]]. destruct A as [Hc Hf]. destruct p as [i j], p' as [i' j']. simpl in *.
      assert (i = i') by (apply (class_name_inj i i' c c' Hc Hc' E1)). subst i'.
      assert (c' = c) by congruence. subst c'.
      assert (j = j') by (apply (feat_name_inj i c j j' f f' Hc Hf Hf' E2)). subst j'. reflexivity.
  Qed.

  (* a declared opposite exists, is a reference, and declares this feature back *)
  Lemma opp_ok p c f q :
    at_loc cs p c f -> fd_opp f = Some q ->
    exists p2 c2 f2, at_loc cs p2 c2 f2 /\ q = (cd_name c2, fd_name f2) /\
                     fd_opp f2 = Some (cd_name c, fd_name f).
  Proof.
    intros [Hc Hf] Ho. pose proof (wf_feats D W (fst p) c f Hc (nth_error_In _ _ Hf)) as Wf.
    unfold wf_feat in Wf. apply andb_true_iff in Wf. destruct Wf as [_ Wf]. rewrite Ho in Wf.
    destruct (fd_ref f).
    - rewrite !andb_true_iff in Wf. destruct Wf as [_ Wf]. fold cs in Wf.
      unfold find_fdecl in Wf. destruct (find (fun c0 => name_eqb (fst q) (cd_name c0)) cs) as [c2|] eqn:F1; [|discriminate].
      destruct (find (fun f0 => name_eqb (snd q) (fd_name f0)) (cd_feats c2)) as [f2|] eqn:F2; [|discriminate].
      apply andb_true_iff in Wf. destruct Wf as [_ Wf].
      destruct (fd_opp f2) as [q'|] eqn:O2; [|discriminate]. apply qname_eqb_eq in Wf. subst q'.
      apply find_some_nth in F1. destruct F1 as (i2 & Hi2 & E1). apply name_eqb_eq in E1.
      apply find_some_nth in F2. destruct F2 as (j2 & Hj2 & E2). apply name_eqb_eq in E2.
      exists (i2, j2), c2, f2. split; [split; assumption|]. split; [|assumption].
      destruct q as [q1 q2]. simpl in *. congruence.
    - rewrite !andb_true_iff in Wf. destruct Wf as [_ Wf]. discriminate.
  Qed.
End Resolution.

(* ---------- the eOpposite assignments, for any resolver that finds the declared features ---------- *)

Definition opp_loc (cs : list cdecl) (f : fdecl) : option loc :=
  match fd_opp f with Some q => resolve_d cs q | None => None end.

Definition opp_writes (R : qname -> option loc) (l : list (qname * qname)) : list write :=
  flat_map (fun ab => match R (fst ab), R (snd ab) with
                      | Some p, Some q => [(p, set_oppf q); (q, set_oppf p)]
                      | _, _ => []
                      end) l.

Lemma exec_opps_writes R : forall l h,
  (forall ab, In ab l -> R (fst ab) <> None /\ R (snd ab) <> None) ->
  exec_opps R l h = Some (apply_writes (opp_writes R l) h).
Proof.
  induction l as [|[a b] r IH]; intros h H; simpl; [reflexivity|].
  destruct (H (a, b) (or_introl eq_refl)) as [Ha Hb]. simpl in Ha, Hb.
  destruct (R a) as [p|]; [|congruence]. destruct (R b) as [q|]; [|congruence].
  rewrite IH; [|intros ab Hab; apply H; right; assumption].
  unfold opp_writes. simpl. destruct (R a); reflexivity.
Qed.

Lemma at_loc_fun cs p c f c' f' : at_loc cs p c f -> at_loc cs p c' f' -> c = c' /\ f = f'.
Proof. intros [A1 A2] [B1 B2]. assert (c = c') by congruence. subst. split; congruence. Qed.

Lemma In_all_opps cs a b :
  In (a, b) (all_opps cs) <-> exists p c f, at_loc cs p c f /\ a = (cd_name c, fd_name f) /\ fd_opp f = Some b.
Proof.
  unfold all_opps. rewrite in_flat_map. split.
  - intros (c & Hc & Hin). apply in_flat_map in Hin. destruct Hin as (f & Hf & Hin).
    destruct (fd_opp f) as [q|] eqn:E; [|destruct Hin]. destruct Hin as [Hin|[]]. inversion Hin; subst.
    apply In_nth_error in Hc. destruct Hc as [i Hi]. apply In_nth_error in Hf. destruct Hf as [j Hj].
    exists (i, j), c, f. split; [split; assumption|]. split; [reflexivity|assumption].
  - intros ([i j] & c & f & [Hc Hf] & -> & E). simpl in *. exists c. split; [eapply nth_error_In; eassumption|].
    apply in_flat_map. exists f. split; [eapply nth_error_In; eassumption|]. rewrite E. left. reflexivity.
Qed.

Lemma set_oppf_idem y o : set_oppf y (set_oppf y o) = set_oppf y o.
Proof. reflexivity. Qed.

Section OppPhase.
  Variable D : descr.
  Hypothesis W : WF D.
  Let cs := d_classes D.
  Variable R : qname -> option loc.
  Hypothesis R_at : forall p c f, at_loc cs p c f -> R (cd_name c, fd_name f) = Some p.
  Variable L : list (qname * qname).
  Hypothesis L_sub : forall ab, In ab L -> In ab (all_opps cs).
  Hypothesis L_cover : forall a b, In (a, b) (all_opps cs) -> In (a, b) L \/ In (b, a) L.

  (* every write comes from a declared pair: (location of a feature, location of its declared opposite) *)
  Lemma opp_write_inv w :
    In w (opp_writes R L) ->
    exists p c f p2 c2 f2, at_loc cs p c f /\ at_loc cs p2 c2 f2 /\
      fd_opp f = Some (cd_name c2, fd_name f2) /\ fd_opp f2 = Some (cd_name c, fd_name f) /\
      (w = (p, set_oppf p2) \/ w = (p2, set_oppf p)).
  Proof.
    unfold opp_writes. rewrite in_flat_map. intros ([a b] & Hab & Hw). simpl in Hw.
    apply L_sub in Hab. apply In_all_opps in Hab. destruct Hab as (p & c & f & A & -> & Ho).
    destruct (opp_ok D W p c f b A Ho) as (p2 & c2 & f2 & A2 & -> & Ho2).
    fold cs in A2. rewrite (R_at p c f A), (R_at p2 c2 f2 A2) in Hw.
    exists p, c, f, p2, c2, f2. repeat split; try assumption; try (apply A); try (apply A2).
    destruct Hw as [<-|[<-|[]]]; [left|right]; reflexivity.
  Qed.

  Lemma opp_phase h :
    exists h', exec_opps R L h = Some h' /\
      forall p c f o, at_loc cs p c f -> get_loc p h = Some o ->
        get_loc p h' = Some (match opp_loc cs f with Some y => set_oppf y o | None => o end).
  Proof.
    eexists. split.
    - apply exec_opps_writes. intros [a b] Hab. simpl. apply L_sub in Hab. apply In_all_opps in Hab.
      destruct Hab as (p & c & f & A & -> & Ho).
      destruct (opp_ok D W p c f b A Ho) as (p2 & c2 & f2 & A2 & -> & _). fold cs in A2.
      rewrite (R_at p c f A), (R_at p2 c2 f2 A2). split; discriminate.
    - intros p c f o A Hg. rewrite get_apply_writes, Hg. simpl. f_equal. unfold opp_loc.
      destruct (fd_opp f) as [q|] eqn:Ho.
      + destruct (opp_ok D W p c f q A Ho) as (p2 & c2 & f2 & A2 & -> & Ho2). fold cs in A2.
        pose proof (resolve_d_at D W p2 c2 f2 A2) as RD. fold cs in RD. rewrite RD.
        rewrite (fold_effect_const p (set_oppf p2)); [| |intros; apply set_oppf_idem].
        * assert (T : existsb (touches p) (opp_writes R L) = true); [|rewrite T; reflexivity].
          apply existsb_exists. exists (p, set_oppf p2). split.
          -- assert (I : In ((cd_name c, fd_name f), (cd_name c2, fd_name f2)) (all_opps cs)).
             { apply In_all_opps. exists p, c, f. split; [assumption|]. split; [reflexivity|assumption]. }
             unfold opp_writes. apply in_flat_map. destruct (L_cover _ _ I) as [I1|I2].
             ++ eexists. split; [exact I1|]. simpl. rewrite (R_at p c f A), (R_at p2 c2 f2 A2). left. reflexivity.
             ++ eexists. split; [exact I2|]. simpl. rewrite (R_at p c f A), (R_at p2 c2 f2 A2). right. left. reflexivity.
          -- unfold touches. simpl. destruct (loc_eq_dec p p); [reflexivity|congruence].
        * intros w Hw Hfst o0. apply opp_write_inv in Hw.
          destruct Hw as (p' & c' & f' & p3 & c3 & f3 & A' & A3 & O' & O3 & [-> | ->]); simpl in Hfst; subst.
          -- destruct (at_loc_fun cs p c f c' f' A A') as [-> ->]. rewrite Ho in O'. inversion O' as [[E1 E2]].
             assert (X : R (cd_name c2, fd_name f2) = Some p2) by (apply R_at; assumption).
             rewrite E1, E2 in X. rewrite (R_at p3 c3 f3 A3) in X. inversion X; subst. reflexivity.
          -- destruct (at_loc_fun cs p c f c3 f3 A A3) as [-> ->]. rewrite Ho in O3. inversion O3 as [[E1 E2]].
             assert (X : R (cd_name c2, fd_name f2) = Some p2) by (apply R_at; assumption).
             rewrite E1, E2 in X. rewrite (R_at p' c' f' A') in X. inversion X; subst. reflexivity.
      + rewrite (fold_effect_const p (fun o => o)); [destruct (existsb _ _); reflexivity| |reflexivity].
        intros w Hw Hfst o0. exfalso. apply opp_write_inv in Hw.
        destruct Hw as (p' & c' & f' & p3 & c3 & f3 & A' & A3 & O' & O3 & [-> | ->]); simpl in Hfst; subst.
        * destruct (at_loc_fun cs p c f c' f' A A') as [-> ->]. congruence.
        * destruct (at_loc_fun cs p c f c3 f3 A A3) as [-> ->]. congruence.
  Qed.
End OppPhase.

(* ---------- the objects both constructions must end with ---------- *)

Definition cls_idx (cs : list cdecl) (n : name) : nat :=
  match lookup_cls cs n with Some j => j | None => O end.

Definition attr_default (T : list tdecl) (f : fdecl) : option Z :=
  match fd_default f with
  | Some d => Some d
  | None => match lookup_type T (fd_type f) with Some td => td_default td | None => None end
  end.

Definition base_obj (T : list tdecl) (i : nat) (f : fdecl) (ty : option tyref) : fobj :=
  mkO (Some (fd_name f)) (fd_ref f) ty (fd_lower f) (fd_upper f) (fd_ordered f) (fd_unique f)
      (fd_ref f && fd_cont f) None (if fd_ref f then None else attr_default T f) (Some i).

Definition fin_type (cs : list cdecl) (f : fdecl) : tyref :=
  if fd_ref f then TyClass (cls_idx cs (fd_type f)) else TyData (fd_type f).

Definition with_opp (y : option loc) (o : fobj) : fobj :=
  match y with Some l => set_oppf l o | None => o end.

Definition fin_obj (T : list tdecl) (cs : list cdecl) (i : nat) (f : fdecl) : fobj :=
  with_opp (opp_loc cs f) (base_obj T i f (Some (fin_type cs f))).

Definition realises (D : descr) (w : world) : Prop :=
  length (w_ecl w) = length (d_classes D) /\
  forall i c, nth_error (d_classes D) i = Some c ->
    exists e, nth_error (w_ecl w) i = Some e /\ e_name e = cd_name c /\ e_abstract e = cd_abstract c /\
      e_supers e = map (cls_idx (d_classes D)) (cd_supers c) /\
      e_feats e = map (fun jf => (i, fst jf)) (number_from O (cd_feats c)) /\
      map describe_op (e_ops e) = cd_ops c /\
      forall j f, nth_error (cd_feats c) j = Some f ->
        get_loc (i, j) (w_heap w) = Some (fin_obj (d_types D) (d_classes D) i f).

Lemma In_firstn {A} (x : A) : forall n l, In x (firstn n l) -> In x l.
Proof.
  induction n as [|n IH]; intros [|y l] H; simpl in *; try contradiction.
  destruct H as [->|H]; [left; reflexivity|right; apply IH; assumption].
Qed.

Section Describe.
  Variable D : descr.
  Hypothesis W : WF D.
  Let cs := d_classes D.
  Let T := d_types D.
  Variable w : world.
  Hypothesis RW : realises D w.

  Lemma cls_name_at i c : nth_error cs i = Some c -> cls_name w i = cd_name c.
  Proof.
    intros Hc. destruct RW as [_ R]. destruct (R i c Hc) as (e & He & En & _).
    unfold cls_name. rewrite He. assumption.
  Qed.

  Lemma cls_name_idx s : In s (map cd_name cs) -> cls_name w (cls_idx cs s) = s.
  Proof.
    intros Hin. apply in_map_iff in Hin. destruct Hin as (c & <- & Hc). apply In_nth_error in Hc.
    destruct Hc as [i Hi]. unfold cls_idx. pose proof (lookup_cls_at D W i c Hi) as L. fold cs in L.
    rewrite L. apply cls_name_at. assumption.
  Qed.

  Lemma describe_feat_at i c j f :
    nth_error cs i = Some c -> nth_error (cd_feats c) j = Some f ->
    describe_feat w (i, j) = canon_feat T f.
  Proof.
    intros Hc Hf. destruct RW as [_ R]. destruct (R i c Hc) as (e & _ & _ & _ & _ & _ & _ & Hg).
    unfold describe_feat. rewrite (Hg j f Hf). fold cs. fold T.
    pose proof (wf_feats D W i c f Hc (nth_error_In _ _ Hf)) as Wf. unfold wf_feat in Wf.
    apply andb_true_iff in Wf. destruct Wf as [_ Wf]. fold cs in Wf. fold T in Wf.
    unfold canon_feat, fin_obj, fin_type, base_obj, opp_loc. destruct (fd_ref f) eqn:Rf.
    - rewrite !andb_true_iff in Wf. destruct Wf as [[W1 W2] W3].
      destruct (lookup_cls cs (fd_type f)) as [jt|] eqn:Lt; [|discriminate].
      assert (Tn : cls_name w (cls_idx cs (fd_type f)) = fd_type f).
      { apply cls_name_idx. pose proof (lookup_cls_some D _ _ Lt) as (ct & Hct & <-).
        apply in_map. eapply nth_error_In. exact Hct. }
      destruct (fd_default f) as [d|] eqn:Df; [discriminate|].
      destruct (fd_opp f) as [q|] eqn:Of.
      + destruct (opp_ok D W (i, j) c f q (conj Hc Hf) Of) as ([i2 j2] & c2 & f2 & [A1 A2] & -> & _).
        simpl in A1, A2. pose proof (resolve_d_at D W (i2, j2) c2 f2 (conj A1 A2)) as RD. fold cs in RD. rewrite RD.
        simpl. destruct (R i2 c2 A1) as (e2 & _ & _ & _ & _ & _ & _ & Hg2). rewrite (Hg2 j2 f2 A2).
        assert (ON : oname (fin_obj (d_types D) (d_classes D) i2 f2) = fd_name f2
                     /\ o_owner (fin_obj (d_types D) (d_classes D) i2 f2) = Some i2).
        { unfold fin_obj. destruct (opp_loc (d_classes D) f2); split; reflexivity. }
        destruct ON as [-> ->]. rewrite Tn. rewrite (cls_name_at i2 c2 A1).
        destruct f; simpl in *; subst. reflexivity.
      + simpl. rewrite Tn. destruct f; simpl in *; subst. reflexivity.
    - rewrite !andb_true_iff in Wf. destruct Wf as [[W1 W2] W3].
      destruct (fd_opp f) as [q|] eqn:Of; [discriminate|]. apply negb_true_iff in W2.
      simpl. unfold attr_default. destruct f; simpl in *; subst. reflexivity.
  Qed.

  Theorem realises_describe : describe w = canonical D.
  Proof.
    apply list_ext_nth. intros i. unfold describe, canonical. rewrite !nth_error_map. fold cs.
    destruct (nth_error cs i) as [c|] eqn:Hc.
    - destruct RW as [_ R]. destruct (R i c Hc) as (e & He & En & Ea & Es & Ef & Eo & _).
      rewrite He. simpl. f_equal. rewrite En, Ea, Es, Ef, Eo. f_equal.
      + rewrite map_map. rewrite <- (map_id (cd_supers c)) at 2. apply map_ext_in. intros s Hs.
        apply cls_name_idx. pose proof (wf_sup_before D W i c s Hc Hs) as B. fold cs in B.
        apply in_map_iff in B. destruct B as (c' & <- & Hc'). apply in_map. eapply In_firstn. exact Hc'.
      + rewrite map_map. simpl. apply (map_number_from (fun j => describe_feat w (i, j)) (canon_feat T)).
        intros j f Hf. simpl. apply (describe_feat_at i c j f Hc Hf).
    - destruct RW as [Len _]. assert (N : nth_error (w_ecl w) i = None).
      { apply nth_error_None. rewrite Len. apply nth_error_None. assumption. }
      rewrite N. reflexivity.
  Qed.
End Describe.

(* ---------- small facts shared by both constructions ---------- *)

Lemma NoDup_map_inj_in {A B} (f : A -> B) : forall l,
  NoDup l -> (forall x y, In x l -> In y l -> f x = f y -> x = y) -> NoDup (map f l).
Proof.
  induction l as [|x r IH]; intros ND Inj; simpl; [constructor|].
  inversion ND as [|? ? Hn Hr]; subst. constructor.
  - intros Hin. apply in_map_iff in Hin. destruct Hin as (y & E & Hy).
    assert (y = x) by (apply Inj; [right; assumption|left; reflexivity|assumption]). subst. contradiction.
  - apply IH; [assumption|]. intros a b Ha Hb. apply Inj; right; assumption.
Qed.

Lemma fold_oset_add_nodup : forall js acc,
  NoDup (acc ++ js) -> fold_left (fun acc j => oset_add j acc) js acc = acc ++ js.
Proof.
  induction js as [|j r IH]; intros acc ND; simpl; [rewrite app_nil_r; reflexivity|].
  assert (E : oset_add j acc = acc ++ [j]).
  { unfold oset_add. destruct (existsb (Nat.eqb j) acc) eqn:X; [|reflexivity].
    apply existsb_exists in X. destruct X as (y & Hy & Ey). apply Nat.eqb_eq in Ey. subst y.
    exfalso. apply NoDup_remove_2 in ND. apply ND. apply in_or_app. left. assumption. }
  rewrite E. rewrite IH; rewrite <- app_assoc; simpl; [reflexivity|assumption].
Qed.

Lemma nth_error_combine {A B} : forall (a : list A) (b : list B) i x y,
  nth_error a i = Some x -> nth_error b i = Some y -> nth_error (combine a b) i = Some (x, y).
Proof.
  induction a as [|x0 a IH]; intros [|y0 b] [|i] x y Ha Hb; simpl in *; try discriminate.
  - inversion Ha; inversion Hb; reflexivity.
  - apply IH; assumption.
Qed.

Lemma describe_dyn_op o : wf_op o = true -> describe_op (dyn_op o) = o.
Proof.
  destruct o as [n ps]. unfold wf_op. rewrite !andb_true_iff. intros [[[_ _] NS] _]. simpl in NS.
  apply negb_true_iff in NS. apply nmem_false in NS.
  unfold describe_op, dyn_op. simpl. f_equal.
  assert (S : strip_self (map (fun p : name * bool => mkParam (fst p) (snd p) (DLit NONE_DEFAULT)) ps)
              = map (fun p : name * bool => mkParam (fst p) (snd p) (DLit NONE_DEFAULT)) ps).
  { destruct ps as [|p r]; [reflexivity|]. simpl. destruct (name_eqb (fst p) SELF) eqn:E; [|reflexivity].
    apply name_eqb_eq in E. exfalso. apply NS. left. assumption. }
  rewrite S, map_map. simpl. rewrite <- (map_id ps) at 2. apply map_ext. intros [a b]. reflexivity.
Qed.

Lemma nth_error_firstn_some {A} : forall n (l : list A) j x,
  nth_error (firstn n l) j = Some x -> nth_error l j = Some x /\ (j < n)%nat.
Proof.
  induction n as [|n IH]; intros l j x H; simpl in H; [destruct j; discriminate|].
  destruct l as [|y l]; [destruct j; discriminate|]. destruct j as [|j]; simpl in *.
  - split; [assumption|lia].
  - destruct (IH l j x H) as [H1 H2]. split; [assumption|lia].
Qed.

Section Common.
  Variable D : descr.
  Hypothesis W : WF D.
  Let cs := d_classes D.
  Let T := d_types D.

  Lemma super_is_class i c s : nth_error cs i = Some c -> In s (cd_supers c) ->
    exists j c', nth_error cs j = Some c' /\ cd_name c' = s /\ (j < i)%nat.
  Proof.
    intros Hc Hs. pose proof (wf_sup_before D W i c s Hc Hs) as B. fold cs in B.
    apply in_map_iff in B. destruct B as (c' & E & Hc'). apply In_nth_error in Hc'. destruct Hc' as [j Hj].
    apply nth_error_firstn_some in Hj. destruct Hj as [Hj J].
    exists j, c'. split; [assumption|]. split; assumption.
  Qed.

  Lemma cls_idx_at i c : nth_error cs i = Some c -> cls_idx cs (cd_name c) = i.
  Proof. intros Hc. unfold cls_idx. pose proof (lookup_cls_at D W i c Hc) as L. fold cs in L. rewrite L. reflexivity. Qed.

  Lemma supers_idx_nodup i c : nth_error cs i = Some c -> NoDup (map (cls_idx cs) (cd_supers c)).
  Proof.
    intros Hc. apply NoDup_map_inj_in; [apply (wf_sup_nodup D W i c Hc)|].
    intros s1 s2 H1 H2 E.
    destruct (super_is_class i c s1 Hc H1) as (j1 & c1 & Hj1 & <- & _).
    destruct (super_is_class i c s2 Hc H2) as (j2 & c2 & Hj2 & <- & _).
    rewrite (cls_idx_at j1 c1 Hj1), (cls_idx_at j2 c2 Hj2) in E. subst j2. congruence.
  Qed.

  (* the object a feature declaration yields before any opposite is set *)
  Definition pre_opp (i : nat) (f : fdecl) : fobj := base_obj T i f (Some (fin_type cs f)).

  Lemma dyn_obj_ok i c f : nth_error cs i = Some c -> In f (cd_feats c) ->
    dyn_obj T cs i f = Some (pre_opp i f).
  Proof.
    intros Hc Hf. pose proof (wf_feats D W i c f Hc Hf) as Wf. unfold wf_feat in Wf.
    apply andb_true_iff in Wf. destruct Wf as [_ Wf]. fold cs in Wf. fold T in Wf.
    unfold dyn_obj, pre_opp, base_obj, fin_type, cls_idx, attr_default. destruct (fd_ref f).
    - rewrite !andb_true_iff in Wf. destruct Wf as [[W1 W2] _].
      destruct (lookup_cls cs (fd_type f)); [|discriminate]. destruct (fd_default f); [discriminate|]. reflexivity.
    - rewrite !andb_true_iff in Wf. destruct Wf as [[W1 _] _].
      destruct (lookup_type T (fd_type f)); [|discriminate]. reflexivity.
  Qed.
End Common.

(* ---------- the dynamic construction realises the description ---------- *)

Section Dynamic.
  Variable D : descr.
  Hypothesis W : WF D.
  Let cs := d_classes D.
  Let T := d_types D.

  Definition dyn_heap0 : heap :=
    map (fun ic => map (pre_opp D (fst ic)) (cd_feats (snd ic))) (number_from O cs).

  Lemma dyn_heap_ok : dyn_heap T cs = Some dyn_heap0.
  Proof.
    unfold dyn_heap, dyn_heap0. apply all_some_map. intros [i c] Hic. simpl.
    apply In_number_from in Hic. destruct Hic as (j & -> & Hj). simpl.
    apply all_some_map. intros f Hf. apply (dyn_obj_ok D W j c f Hj Hf).
  Qed.

  Lemma get_dyn_heap0 i c j f : nth_error cs i = Some c -> nth_error (cd_feats c) j = Some f ->
    get_loc (i, j) dyn_heap0 = Some (pre_opp D i f).
  Proof.
    intros Hc Hf. unfold get_loc, dyn_heap0. simpl. rewrite nth_error_map, nth_error_number_from, Hc. simpl.
    rewrite nth_error_map, Hf. reflexivity.
  Qed.

  Lemma dyn_supers_ok i c : nth_error cs i = Some c ->
    dyn_supers cs c = Some (map (cls_idx cs) (cd_supers c)).
  Proof.
    intros Hc. unfold dyn_supers.
    rewrite (all_some_map (lookup_cls cs) (cls_idx cs)).
    - f_equal. rewrite fold_oset_add_nodup; [reflexivity|]. simpl. apply (supers_idx_nodup D W i c Hc).
    - intros s Hs. destruct (super_is_class D W i c s Hc Hs) as (j & c' & Hj & <- & _).
      pose proof (lookup_cls_at D W j c' Hj) as L. fold cs in L. unfold cls_idx. rewrite L. reflexivity.
  Qed.

  Theorem dynamic_realises : exists w, build_dynamic D = Some w /\ realises D w.
  Proof.
    unfold build_dynamic. fold cs. fold T.
    rewrite (all_some_map (dyn_supers cs) (fun c => map (cls_idx cs) (cd_supers c))).
    2:{ intros c Hc. apply In_nth_error in Hc. destruct Hc as [i Hi]. apply (dyn_supers_ok i c Hi). }
    rewrite dyn_heap_ok.
    destruct (opp_phase D W (resolve_d cs) (resolve_d_at D W) (all_opps cs)
                        (fun ab H => H) (fun a b H => or_introl H) dyn_heap0) as (h' & E & P).
    fold cs in E. rewrite E. eexists. split; [reflexivity|].
    split.
    - simpl. unfold dyn_ecl. rewrite map_length, combine_length, length_number_from, map_length.
      apply Nat.min_id.
    - intros i c Hc. fold cs in Hc. simpl. unfold dyn_ecl. rewrite nth_error_map.
      rewrite (nth_error_combine _ _ i (i, c) (map (cls_idx cs) (cd_supers c))).
      + simpl. eexists. split; [reflexivity|]. simpl. repeat split.
        * rewrite map_map. rewrite <- (map_id (cd_ops c)) at 2. apply map_ext_in. intros o Ho.
          apply describe_dyn_op. apply (wf_ops D W i c o Hc Ho).
        * intros j f Hf. fold cs in P. rewrite (P (i, j) c f (pre_opp D i f) (conj Hc Hf) (get_dyn_heap0 i c j f Hc Hf)).
          reflexivity.
      + rewrite nth_error_number_from, Hc. reflexivity.
      + rewrite nth_error_map, Hc. reflexivity.
  Qed.
End Dynamic.

(* ---------- reflection of the rendered methods ---------- *)

Lemma promote_ns_app a b : promote_ns (a ++ b) = promote_ns a ++ promote_ns b.
Proof.
  induction a as [|[[k f] m] r IH]; simpl; [reflexivity|].
  destruct m as [s| |]; try assumption.
  destruct (starts_dunder k || starts_dunder f); [assumption|].
  destruct (a_args s) as [|a0 rest]; [assumption|].
  destruct (name_eqb a0 SELF); [simpl; f_equal; assumption|assumption].
Qed.

Definition op_spec (o : odecl) : argspec :=
  mkSpec (map pc_name (op_sig (snd o))) (defaults_of (op_sig (snd o))).

Lemma describe_promoted_op o : wf_op o = true -> describe_op (fst o, promote_spec (op_spec o)) = o.
Proof.
  destruct o as [n ps]. unfold wf_op. rewrite !andb_true_iff. intros [_ RO]. cbn [snd] in RO.
  apply negb_true_iff in RO. unfold describe_op, op_spec. cbn [fst snd]. f_equal.
  unfold promote_spec. rewrite nreq_spec. cbn [a_args].
  pose proof (reflect_spec (op_sig ps) O RO) as SV. rewrite Nat.add_0_l in SV.
  unfold op_sig in *. cbn [map pc_name self_code] in *. cbn [reflect_params] in *.
  cbn [strip_self p_name]. rewrite name_eqb_refl.
  cbn [map] in SV. injection SV as SV'.
  etransitivity; [exact SV'|]. rewrite map_map. rewrite <- (map_id ps) at 2. apply map_ext. intros [a b]. simpl.
  destruct b; reflexivity.
Qed.

Lemma promote_ns_ops ops :
  (forall o, In o ops -> wf_op o = true) ->
  promote_ns (map (fun o : odecl => (fst o, fst o, MFunc (op_spec o))) ops)
  = map (fun o => (fst o, promote_spec (op_spec o))) ops.
Proof.
  induction ops as [|o r IH]; intros H; simpl; [reflexivity|].
  assert (K : starts_dunder (fst o) = false).
  { pose proof (H o (or_introl eq_refl)) as Wo. unfold wf_op, key_ok in Wo. rewrite !andb_true_iff in Wo.
    destruct Wo as [[[[K _] _] _] _]. apply negb_true_iff in K. assumption. }
  rewrite K. simpl.
  f_equal. apply IH. intros o' Ho'. apply H. right. assumption.
Qed.

(* ---------- one class statement of the rendering ---------- *)

Lemma NoDup_snoc {A} (l : list A) x : NoDup l -> ~ In x l -> NoDup (l ++ [x]).
Proof.
  induction l as [|y r IH]; intros ND N; simpl; [constructor; [intros []|constructor]|].
  inversion ND as [|? ? Hn Hr]; subst. constructor.
  - intros Hin. apply in_app_or in Hin. destruct Hin as [Hin|[->|[]]]; [contradiction|]. apply N. left. reflexivity.
  - apply IH; [assumption|]. intros Hin. apply N. right. assumption.
Qed.

Definition fe_of (f : fdecl) : fentry :=
  mkFE None (fd_ref f) (if fd_ref f then None else Some (fd_type f)) (fd_lower f) (fd_upper f)
       (fd_ordered f) (fd_unique f) (fd_ref f && fd_cont f) (fd_default f).

Definition feat_ns (i j0 : nat) (fs : list fdecl) : ns :=
  map (fun jf => (fd_name (snd jf), VFeat (i, fst jf))) (number_from j0 fs).

Definition mem_ns (ms : list (name * member)) : ns := map (fun km => (fst km, VMem (fst km) (snd km))) ms.

Definition res_ns : ns := map (fun k => (k, VMem k MOther)) reserved.

Definition INIT : name := of_string "__init__".

Lemma overwrite_fresh d :
  (forall k, In k reserved -> ~ In k (map fst d)) -> overwrite_reserved d = d ++ res_ns.
Proof.
  intros H. unfold overwrite_reserved, res_ns, reserved. cbn [map fold_left].
  rewrite (dict_set_fresh (of_string "dyn_inst") _ d); [|apply H; cbn; tauto].
  rewrite (dict_set_fresh (of_string "eClass") _ (d ++ _)).
  2:{ rewrite map_app. intros Hin. apply in_app_or in Hin. destruct Hin as [Hin|[E|[]]].
      - revert Hin. apply H. cbn. tauto.
      - vm_compute in E. discriminate E. }
  rewrite (dict_set_fresh (of_string "_staticEClass") _ ((d ++ _) ++ _)).
  2:{ rewrite !map_app. intros Hin. apply in_app_or in Hin. destruct Hin as [Hin|[E|[]]].
      - apply in_app_or in Hin. destruct Hin as [Hin|[E|[]]].
        + revert Hin. apply H. cbn. tauto.
        + vm_compute in E. discriminate E.
      - vm_compute in E. discriminate E. }
  rewrite <- !app_assoc. reflexivity.
Qed.

Lemma promote_feats_app i : forall d1 d2 h acc,
  promote_feats i (d1 ++ d2) h acc =
  let '(h1, acc1) := promote_feats i d1 h acc in promote_feats i d2 h1 acc1.
Proof.
  induction d1 as [|[k v] r IH]; intros d2 h acc; simpl; [reflexivity|].
  destruct v; apply IH.
Qed.

Lemma promote_feats_mems i : forall (d : ns) h acc,
  (forall k v, In (k, v) d -> exists f m, v = VMem f m) -> promote_feats i d h acc = (h, acc).
Proof.
  induction d as [|[k v] r IH]; intros h acc H; simpl; [reflexivity|].
  destruct (H k v (or_introl eq_refl)) as (f & m & ->). apply IH. intros k' v' Hin. apply (H k' v'). right. assumption.
Qed.

Section Static.
  Variable D : descr.
  Hypothesis W : WF D.
  Variable deco : bool.
  Let cs := d_classes D.
  Let T := d_types D.

  (* after EAttribute(..)/EReference(..): no name, no owner; references get their type later *)
  Definition st_pre_obj (f : fdecl) : fobj :=
    mkO None (fd_ref f) (if fd_ref f then None else Some (TyData (fd_type f))) (fd_lower f) (fd_upper f)
        (fd_ordered f) (fd_unique f) (fd_ref f && fd_cont f) None
        (if fd_ref f then None else attr_default T f) None.

  (* after _promote *)
  Definition st_obj (i : nat) (f : fdecl) : fobj :=
    base_obj T i f (if fd_ref f then None else Some (TyData (fd_type f))).

  Lemma promote_st_obj i f : promote_feat i (fd_name f) (st_pre_obj f) = st_obj i f.
  Proof. reflexivity. Qed.

  Lemma new_feature_ok i c f : nth_error cs i = Some c -> In f (cd_feats c) ->
    new_feature T (fe_of f) = Some (st_pre_obj f).
  Proof.
    intros Hc Hf. pose proof (wf_feats D W i c f Hc Hf) as Wf. unfold wf_feat in Wf.
    apply andb_true_iff in Wf. destruct Wf as [_ Wf]. fold T in Wf.
    unfold new_feature, fe_of, st_pre_obj, attr_default. cbn [fe_ref fe_type fe_default fe_name fe_lower fe_upper fe_ordered fe_unique fe_cont].
    destruct (fd_ref f).
    - rewrite !andb_true_iff in Wf. destruct Wf as [[_ W2] _]. destruct (fd_default f); [discriminate|]. reflexivity.
    - rewrite !andb_true_iff in Wf. destruct Wf as [[W1 _] _].
      destruct (lookup_type T (fd_type f)); [|discriminate]. reflexivity.
  Qed.

  Lemma feat_key_ok i c f : nth_error cs i = Some c -> In f (cd_feats c) ->
    starts_dunder (fd_name f) = false /\ ~ In (fd_name f) reserved.
  Proof.
    intros Hc Hf. pose proof (wf_feats D W i c f Hc Hf) as Wf. unfold wf_feat, key_ok in Wf.
    rewrite !andb_true_iff in Wf. destruct Wf as [[K1 K2] _].
    apply negb_true_iff in K1, K2. split; [assumption|apply nmem_false; assumption].
  Qed.

  Lemma op_key_ok i c o : nth_error cs i = Some c -> In o (cd_ops c) ->
    starts_dunder (fst o) = false /\ ~ In (fst o) reserved.
  Proof.
    intros Hc Ho. pose proof (wf_ops D W i c o Hc Ho) as Wo. unfold wf_op, key_ok in Wo.
    rewrite !andb_true_iff in Wo. destruct Wo as [[[[K1 K2] _] _] _].
    apply negb_true_iff in K1, K2. split; [assumption|apply nmem_false; assumption].
  Qed.

  Lemma eval_body_feats cn i : forall fs rest d row,
    (forall f, In f fs -> new_feature T (fe_of f) = Some (st_pre_obj f)) ->
    (forall f, In f fs -> starts_dunder (fd_name f) = false) ->
    NoDup (map fst d ++ map fd_name fs) ->
    eval_body T cn i (map feat_entry fs ++ rest) d row =
    eval_body T cn i rest (d ++ feat_ns i (length row) fs) (row ++ map st_pre_obj fs).
  Proof.
    induction fs as [|f r IH]; intros rest d row NF DU ND.
    - unfold feat_ns. simpl. rewrite !app_nil_r. reflexivity.
    - cbn [map app]. change (feat_entry f) with (EFeat (fd_name f) (fe_of f)). cbn [eval_body].
      rewrite (NF f (or_introl eq_refl)). rewrite (mangle_not_dunder _ _ (DU f (or_introl eq_refl))).
      rewrite dict_set_fresh.
      2:{ apply NoDup_remove_2 in ND. intros Hin. apply ND. apply in_or_app. left. assumption. }
      rewrite IH.
      + unfold feat_ns. cbn [number_from map fst snd]. rewrite app_length. cbn [length].
        rewrite Nat.add_1_r. rewrite <- !app_assoc. reflexivity.
      + intros f' Hf'. apply NF. right. assumption.
      + intros f' Hf'. apply DU. right. assumption.
      + rewrite map_app. cbn [map fst]. rewrite <- app_assoc. exact ND.
  Qed.

  Lemma eval_body_mems cn i : forall (ms : list (name * member)) d row,
    (forall km, In km ms -> mangle cn (fst km) = fst km) ->
    NoDup (map fst d ++ map fst ms) ->
    eval_body T cn i (map (fun km => EMem (fst km) (snd km)) ms) d row = Some (d ++ mem_ns ms, row).
  Proof.
    induction ms as [|km r IH]; intros d row MG ND.
    - simpl. rewrite app_nil_r. reflexivity.
    - cbn [map eval_body]. rewrite (MG km (or_introl eq_refl)). rewrite dict_set_fresh.
      2:{ apply NoDup_remove_2 in ND. intros Hin. apply ND. apply in_or_app. left. assumption. }
      rewrite IH.
      + unfold mem_ns. cbn [map]. rewrite <- app_assoc. reflexivity.
      + intros km' H'. apply MG. right. assumption.
      + rewrite map_app. cbn [map fst]. rewrite <- app_assoc. exact ND.
  Qed.

  Lemma promote_feats_row i : forall fs (H : heap) pre acc,
    length H = i ->
    promote_feats i (feat_ns i (length pre) fs) (H ++ [pre ++ map st_pre_obj fs]) acc =
    (H ++ [pre ++ map (st_obj i) fs],
     acc ++ map (fun jf => (i, fst jf)) (number_from (length pre) fs)).
  Proof.
    induction fs as [|f r IH]; intros H pre acc L.
    - unfold feat_ns. simpl. rewrite !app_nil_r. reflexivity.
    - unfold feat_ns. cbn [number_from map fst snd promote_feats].
      assert (U : upd_loc (i, length pre) (promote_feat i (fd_name f)) (H ++ [pre ++ st_pre_obj f :: map st_pre_obj r])
                  = H ++ [(pre ++ [st_obj i f]) ++ map st_pre_obj r]).
      { unfold upd_loc. cbn [fst snd]. rewrite <- L. rewrite upd_nth_app. rewrite upd_nth_app.
        rewrite promote_st_obj. rewrite <- app_assoc. reflexivity. }
      rewrite U. pose proof (IH H (pre ++ [st_obj i f]) (acc ++ [(i, length pre)]) L) as IH'.
      rewrite app_length in IH'. cbn [length] in IH'. rewrite Nat.add_1_r in IH'.
      unfold feat_ns in IH'. etransitivity; [exact IH'|]. rewrite <- !app_assoc. reflexivity.
  Qed.
End Static.

Lemma dup_bases_names l : dup_bases (map BName l) = has_dup l.
Proof.
  induction l as [|x r IH]; simpl; [reflexivity|]. rewrite IH. f_equal.
  unfold nmem. clear IH. induction r as [|y r IH]; simpl; [reflexivity|]. rewrite IH. reflexivity.
Qed.

Lemma no_bobject_names l : existsb is_bobject (map BName l) = false.
Proof. induction l as [|x r IH]; simpl; [reflexivity|assumption]. Qed.

Lemma nth_error_middle {A} (a : list A) x b : nth_error (a ++ x :: b) (length a) = Some x.
Proof. induction a as [|y a IH]; simpl; [reflexivity|assumption]. Qed.

Section Static2.
  Variable D : descr.
  Hypothesis W : WF D.
  Variable deco : bool.
  Let cs := d_classes D.
  Let T := d_types D.

  Definition mems_of (c : cdecl) : list (name * member) :=
    map (fun o : odecl => (fst o, MFunc (op_spec o))) (cd_ops c)
    ++ (if deco then [] else [(INIT, MFunc (mkSpec [SELF] []))]).

  Definition st_ns (i : nat) (c : cdecl) : ns :=
    (feat_ns i O (cd_feats c) ++ mem_ns (mems_of c)) ++ res_ns.

  Definition st_ecl (i : nat) (c : cdecl) : eclass :=
    mkE (cd_name c) (cd_abstract c) (map (cls_idx cs) (cd_supers c))
        (map (fun jf => (i, fst jf)) (number_from O (cd_feats c)))
        (promote_ns (ns_members (st_ns i c))).

  Definition st_scope (D1 : list cdecl) : pyscope :=
    map (fun ic => (cd_name (snd ic), (fst ic, st_ns (fst ic) (snd ic)))) (number_from O D1).

  Definition st_state (D1 : list cdecl) : sstate :=
    mkS (mkW (map (fun ic => map (st_obj D (fst ic)) (cd_feats (snd ic))) (number_from O D1))
             (map (fun ic => st_ecl (fst ic) (snd ic)) (number_from O D1)))
        (st_scope D1).

  Lemma body_render c :
    py_body (render_class deco c) =
    map feat_entry (cd_feats c) ++ map (fun km => EMem (fst km) (snd km)) (mems_of c).
  Proof.
    unfold render_class, mems_of. cbn [py_body]. f_equal. rewrite map_app, map_map. f_equal.
    destruct deco; reflexivity.
  Qed.

  Lemma In_scope D1 n v :
    In (n, v) (st_scope D1) <-> exists j c, nth_error D1 j = Some c /\ n = cd_name c /\ v = (j, st_ns j c).
  Proof.
    unfold st_scope. rewrite in_map_iff. split.
    - intros ([j c] & E & Hin). simpl in E. inversion E; subst. apply In_number_from in Hin.
      destruct Hin as (j' & -> & Hj). exists j', c. repeat split. assumption.
    - intros (j & c & Hj & -> & ->). exists (j, c). split; [reflexivity|]. apply In_number_from.
      exists j. split; [reflexivity|assumption].
  Qed.

  Lemma lookup_py_at D1 D2 j c : cs = D1 ++ D2 -> nth_error D1 j = Some c ->
    lookup_py (st_scope D1) (cd_name c) = Some (j, st_ns j c).
  Proof.
    intros Ecs Hj. unfold lookup_py. apply (assoc_last_functional name_eqb name_eqb_eq).
    - apply In_scope. exists j, c. repeat split. assumption.
    - intros v Hin. apply In_scope in Hin. destruct Hin as (j' & c' & Hj' & En & ->).
      assert (A : nth_error cs j = Some c).
      { rewrite Ecs, nth_error_app1; [assumption|]. apply nth_error_Some. congruence. }
      assert (A' : nth_error cs j' = Some c').
      { rewrite Ecs, nth_error_app1; [assumption|]. apply nth_error_Some. congruence. }
      assert (j = j') by (apply (class_name_inj D W j j' c c' A A' En)). subst j'.
      assert (c' = c) by congruence. subst c'. reflexivity.
  Qed.

  Lemma promote_supers_names py : forall ss acc,
    (forall s, In s ss -> exists v, lookup_py py s = Some (cls_idx cs s, v)) ->
    promote_supers py (map BName ss) acc = fold_left (fun acc j => oset_add j acc) (map (cls_idx cs) ss) acc.
  Proof.
    induction ss as [|s r IH]; intros acc H; simpl; [reflexivity|].
    destruct (H s (or_introl eq_refl)) as (v & ->). apply IH. intros s' Hs'. apply H. right. assumption.
  Qed.

  (* a supertype of the class at the end of prefix D1 is bound in the scope of D1 *)
  Lemma super_bound D1 c D2 s : cs = D1 ++ c :: D2 -> In s (cd_supers c) ->
    exists v, lookup_py (st_scope D1) s = Some (cls_idx cs s, v).
  Proof.
    intros Ecs Hs. assert (Hc : nth_error cs (length D1) = Some c) by (rewrite Ecs; apply nth_error_middle).
    destruct (super_is_class D W (length D1) c s Hc Hs) as (j & c' & Hj & <- & Lt).
    assert (Hj1 : nth_error D1 j = Some c').
    { fold cs in Hj. rewrite Ecs, nth_error_app1 in Hj; assumption. }
    pose proof (cls_idx_at D W j c' Hj) as CI. fold cs in CI. rewrite CI. eexists. apply (lookup_py_at D1 (c :: D2) j c' Ecs Hj1).
  Qed.

  Lemma header_ok_render D1 c D2 : cs = D1 ++ c :: D2 -> header_ok (st_scope D1) (render_class deco c) = true.
  Proof.
    intros Ecs. assert (Hc : nth_error cs (length D1) = Some c) by (rewrite Ecs; apply nth_error_middle).
    unfold header_ok, render_class. cbn [py_bases py_style]. destruct (cd_supers c) as [|s ss] eqn:Es.
    - destruct deco; reflexivity.
    - rewrite dup_bases_names. pose proof (wf_sup_nodup D W _ c Hc) as ND. rewrite Es in ND.
      apply has_dup_NoDup in ND. rewrite ND. rewrite no_bobject_names. cbn [negb andb].
      apply andb_true_iff. split; [|reflexivity].
      apply forallb_forall. intros b Hb. apply in_map_iff in Hb. destruct Hb as (s' & <- & Hs').
      rewrite <- Es in Hs'. destruct (super_bound D1 c D2 s' Ecs Hs') as (v & ->). reflexivity.
  Qed.
  Lemma keys_nodup i c : nth_error cs i = Some c ->
    NoDup (map fd_name (cd_feats c) ++ map fst (mems_of c)).
  Proof.
    intros Hc. pose proof (wf_keys D W i c Hc) as ND. unfold mems_of. rewrite map_app, map_map. cbn [fst].
    destruct deco; cbn [map]; [rewrite app_nil_r; exact ND|]. rewrite app_assoc. apply NoDup_snoc; [exact ND|].
    intros Hin. apply in_app_or in Hin. destruct Hin as [Hin|Hin]; apply in_map_iff in Hin.
    - destruct Hin as (f & E & Hf). destruct (feat_key_ok D W i c f Hc Hf) as [K _]. rewrite E in K. discriminate K.
    - destruct Hin as (o & E & Ho). destruct (op_key_ok D W i c o Hc Ho) as [K _]. rewrite E in K. discriminate K.
  Qed.

  Lemma keys_not_reserved i c k : nth_error cs i = Some c -> In k reserved ->
    ~ In k (map fst (feat_ns i O (cd_feats c) ++ mem_ns (mems_of c))).
  Proof.
    intros Hc Hk Hin. rewrite map_app in Hin. apply in_app_or in Hin. destruct Hin as [Hin|Hin].
    - unfold feat_ns in Hin. rewrite map_map in Hin. apply in_map_iff in Hin. destruct Hin as ([j f] & E & Hjf).
      simpl in E. apply In_number_from in Hjf. destruct Hjf as (j' & _ & Hj').
      destruct (feat_key_ok D W i c f Hc (nth_error_In _ _ Hj')) as [_ K]. apply K. rewrite E. assumption.
    - unfold mem_ns, mems_of in Hin. rewrite map_map, map_app, map_map in Hin. cbn [fst] in Hin.
      apply in_app_or in Hin. destruct Hin as [Hin|Hin].
      + apply in_map_iff in Hin. destruct Hin as (o & E & Ho).
        destruct (op_key_ok D W i c o Hc Ho) as [_ K]. apply K. rewrite E. assumption.
      + destruct deco; [destruct Hin|]. destruct Hin as [E|[]]. subst k. vm_compute in Hk.
        destruct Hk as [E|[E|[E|[]]]]; discriminate E.
  Qed.

  Lemma members_are_members c k v : In (k, v) (mem_ns (mems_of c) ++ res_ns) -> exists f m, v = VMem f m.
  Proof.
    intros Hin. apply in_app_or in Hin. destruct Hin as [Hin|Hin]; apply in_map_iff in Hin.
    - destruct Hin as (km & E & _). inversion E; subst. eexists _, _. reflexivity.
    - destruct Hin as (r & E & _). inversion E; subst. eexists _, _. reflexivity.
  Qed.

  Lemma exec_class_step D1 c D2 : cs = D1 ++ c :: D2 ->
    exec_class T (render_class deco c) (st_state D1) = Some (st_state (D1 ++ [c])).
  Proof.
    intros Ecs. set (i := length D1).
    assert (Hc : nth_error cs i = Some c) by (rewrite Ecs; apply nth_error_middle).
    assert (Li : length (st_scope D1) = i) by (unfold st_scope; rewrite map_length, length_number_from; reflexivity).
    unfold exec_class. cbn [s_py st_state s_world w_heap w_ecl]. rewrite Li.
    rewrite (header_ok_render D1 c D2 Ecs). cbn [negb].
    rewrite body_render.
    rewrite (eval_body_feats D (cd_name c) i (cd_feats c) _ [] []).
    2:{ intros f Hf. apply (new_feature_ok D W i c f Hc Hf). }
    2:{ intros f Hf. apply (feat_key_ok D W i c f Hc Hf). }
    2:{ cbn [map app]. pose proof (keys_nodup i c Hc) as ND. apply NoDup_app_inv in ND. apply ND. }
    cbn [app length].
    rewrite eval_body_mems.
    2:{ intros km Hin. unfold mems_of in Hin. apply in_app_or in Hin. destruct Hin as [Hin|Hin].
        - apply in_map_iff in Hin. destruct Hin as (o & <- & Ho). cbn [fst].
          apply mangle_not_dunder. apply (op_key_ok D W i c o Hc Ho).
        - destruct deco; [destruct Hin|]. destruct Hin as [<-|[]]. reflexivity. }
    2:{ unfold feat_ns. rewrite map_map. cbn [fst].
        replace (map (fun x : nat * fdecl => fd_name (snd x)) (number_from 0 (cd_feats c)))
          with (map fd_name (cd_feats c)); [apply (keys_nodup i c Hc)|].
        generalize O. induction (cd_feats c) as [|f r IH]; intros n; simpl; [reflexivity|]. f_equal. apply IH. }
    rewrite (overwrite_fresh _ (fun k Hk => keys_not_reserved i c k Hc Hk)).
    change ((feat_ns i 0 (cd_feats c) ++ mem_ns (mems_of c)) ++ res_ns) with (st_ns i c).
    assert (PF : promote_feats i (st_ns i c)
                   (map (fun ic => map (st_obj D (fst ic)) (cd_feats (snd ic))) (number_from 0 D1)
                    ++ [map (st_pre_obj D) (cd_feats c)]) []
                 = (map (fun ic => map (st_obj D (fst ic)) (cd_feats (snd ic))) (number_from 0 D1)
                    ++ [map (st_obj D i) (cd_feats c)],
                    map (fun jf => (i, fst jf)) (number_from 0 (cd_feats c)))).
    { unfold st_ns. rewrite <- app_assoc. rewrite promote_feats_app.
      pose proof (promote_feats_row D i (cd_feats c)
                    (map (fun ic => map (st_obj D (fst ic)) (cd_feats (snd ic))) (number_from 0 D1)) [] []) as PR.
      cbn [length app] in PR. rewrite PR; [|rewrite map_length, length_number_from; reflexivity].
      apply promote_feats_mems. intros k v Hin. apply (members_are_members c k v Hin). }
    rewrite PF.
    assert (PS : promote_supers (st_scope D1) (effective_bases (render_class deco c)) []
                 = map (cls_idx cs) (cd_supers c)).
    { unfold effective_bases, render_class. cbn [py_style py_bases].
      destruct (cd_supers c) as [|s ss] eqn:Es.
      - destruct deco; reflexivity.
      - rewrite promote_supers_names.
        + rewrite fold_oset_add_nodup; [reflexivity|]. cbn [app]. rewrite <- Es. apply (supers_idx_nodup D W i c Hc).
        + intros s' Hs'. rewrite <- Es in Hs'. apply (super_bound D1 c D2 s' Ecs Hs'). }
    rewrite PS.
    unfold st_state, st_scope. rewrite !number_from_app, !map_app. cbn [number_from map fst snd Nat.add].
    fold i. reflexivity.
  Qed.

  Lemma exec_classes_all : forall D2 D1, cs = D1 ++ D2 ->
    exec_classes T (map (render_class deco) D2) (st_state D1) = Some (st_state (D1 ++ D2)).
  Proof.
    induction D2 as [|c r IH]; intros D1 Ecs; simpl.
    - rewrite app_nil_r. reflexivity.
    - rewrite (exec_class_step D1 c r Ecs). rewrite (IH (D1 ++ [c])).
      + rewrite <- app_assoc. reflexivity.
      + rewrite <- app_assoc. exact Ecs.
  Qed.
End Static2.

(* ---------- the module-level statements ---------- *)

Lemma exec_post_app py T : forall a b h,
  exec_post py T (a ++ b) h = match exec_post py T a h with Some h' => exec_post py T b h' | None => None end.
Proof.
  induction a as [|s r IH]; intros b h; simpl; [reflexivity|].
  destruct (exec_stmt py T s h); [apply IH|reflexivity].
Qed.

Lemma exec_post_opps py T : forall L h,
  exec_post py T (map (fun p => SSetOpp (fst p) (snd p)) L) h = exec_opps (resolve_s py) L h.
Proof.
  induction L as [|[a b] r IH]; intros h; simpl; [reflexivity|].
  destruct (resolve_s py a); [|reflexivity]. destruct (resolve_s py b); [|reflexivity]. apply IH.
Qed.

Lemma same_pair_inv p q : same_pair p q = true -> q = p \/ q = (snd p, fst p).
Proof.
  destruct p as [a b], q as [c d]. unfold same_pair. simpl. rewrite orb_true_iff, !andb_true_iff, !qname_eqb_eq.
  intros [[-> ->]|[-> ->]]; [left|right]; reflexivity.
Qed.

Lemma dedup_sub : forall l seen x, In x (dedup_pairs seen l) -> In x l.
Proof.
  induction l as [|p r IH]; intros seen x H; simpl in *; [assumption|].
  destruct (existsb (same_pair p) seen).
  - right. apply (IH _ _ H).
  - destruct H as [->|H]; [left; reflexivity|right; apply (IH _ _ H)].
Qed.

Lemma dedup_cover : forall l seen x, In x l ->
  (exists y, In y seen /\ same_pair x y = true) \/ (exists y, In y (dedup_pairs seen l) /\ same_pair x y = true).
Proof.
  induction l as [|p r IH]; intros seen x H; [destruct H|]. simpl.
  destruct (existsb (same_pair p) seen) eqn:E.
  - destruct H as [->|H]; [|apply IH; assumption]. left. apply existsb_exists in E. exact E.
  - destruct H as [->|H].
    + right. exists x. split; [left; reflexivity|]. destruct x as [a b]. unfold same_pair. simpl.
      assert (Ra : qname_eqb a a = true) by (apply qname_eqb_eq; reflexivity).
      assert (Rb : qname_eqb b b = true) by (apply qname_eqb_eq; reflexivity). rewrite Ra, Rb. reflexivity.
    + destruct (IH (p :: seen) x H) as [(y & [->|Hy] & S)|(y & Hy & S)].
      * right. exists y. split; [left; reflexivity|assumption].
      * left. exists y. split; assumption.
      * right. exists y. split; [right; assumption|assumption].
Qed.

Lemma dict_get_app_l {V} (k : name) (v : V) : forall a b, dict_get a k = Some v -> dict_get (a ++ b) k = Some v.
Proof.
  induction a as [|[k' v'] r IH]; intros b H; simpl in *; [discriminate|].
  destruct (name_eqb k k'); [assumption|apply IH; assumption].
Qed.

Lemma feat_ns_keys i : forall fs j0, map fst (feat_ns i j0 fs) = map fd_name fs.
Proof.
  unfold feat_ns. induction fs as [|f r IH]; intros j0; simpl; [reflexivity|]. f_equal. apply IH.
Qed.

Lemma set_type_base T i f t : set_type t (base_obj T i f None) = base_obj T i f (Some t).
Proof. reflexivity. Qed.

Section Static3.
  Variable D : descr.
  Hypothesis W : WF D.
  Variable deco : bool.
  Let cs := d_classes D.
  Let T := d_types D.
  Let scope := st_scope deco cs.
  Let H0 := w_heap (s_world (st_state D deco cs)).

  Lemma get_st_heap i c j f : nth_error cs i = Some c -> nth_error (cd_feats c) j = Some f ->
    get_loc (i, j) H0 = Some (st_obj D i f).
  Proof.
    intros Hc Hf. unfold H0, st_state, get_loc. cbn [s_world w_heap fst snd].
    rewrite nth_error_map, nth_error_number_from, Hc. simpl. rewrite nth_error_map, Hf. reflexivity.
  Qed.

  Lemma lookup_scope_at i c : nth_error cs i = Some c -> lookup_py scope (cd_name c) = Some (i, st_ns deco i c).
  Proof.
    intros Hc. apply (lookup_py_at D W deco cs [] i c); [|assumption]. rewrite app_nil_r. reflexivity.
  Qed.

  Lemma resolve_s_at p c f : at_loc cs p c f -> resolve_s scope (cd_name c, fd_name f) = Some p.
  Proof.
    intros [Hc Hf]. destruct p as [i j]. simpl in Hc, Hf. unfold resolve_s. cbn [fst snd].
    rewrite (lookup_scope_at i c Hc). unfold st_ns. rewrite <- app_assoc.
    rewrite (dict_get_app_l (fd_name f) (VFeat (i, j))); [reflexivity|].
    apply dict_get_in.
    - rewrite feat_ns_keys. pose proof (wf_keys D W i c Hc) as ND. apply NoDup_app_inv in ND. apply ND.
    - unfold feat_ns. apply in_map_iff. exists (j, f). split; [reflexivity|]. apply In_number_from.
      exists j. split; [reflexivity|assumption].
  Qed.

  Lemma type_is_class i c f : nth_error cs i = Some c -> In f (cd_feats c) -> fd_ref f = true ->
    exists v, lookup_py scope (fd_type f) = Some (cls_idx cs (fd_type f), v).
  Proof.
    intros Hc Hf Rf. pose proof (wf_feats D W i c f Hc Hf) as Wf. unfold wf_feat in Wf. rewrite Rf in Wf.
    rewrite !andb_true_iff in Wf. destruct Wf as [_ [[W1 _] _]]. fold cs in W1.
    destruct (lookup_cls cs (fd_type f)) as [jt|] eqn:L; [|discriminate].
    destruct (lookup_cls_some D _ _ L) as (ct & Hct & E). fold cs in Hct.
    unfold cls_idx. rewrite L. rewrite <- E. eexists. apply (lookup_scope_at jt ct Hct).
  Qed.

  Definition type_writes (l : list stmt) : list write :=
    flat_map (fun s => match s with
                       | SSetType c k t =>
                         match resolve_s scope (c, k), lookup_py scope t with
                         | Some p, Some (j, _) => [(p, set_type (TyClass j))]
                         | _, _ => []
                         end
                       | _ => []
                       end) l.

  Lemma In_type_stmts s :
    In s (type_stmts cs) <-> exists p c f, at_loc cs p c f /\ fd_ref f = true /\
                                            s = SSetType (cd_name c) (fd_name f) (fd_type f).
  Proof.
    unfold type_stmts. rewrite in_flat_map. split.
    - intros (c & Hc & Hin). apply in_flat_map in Hin. destruct Hin as (f & Hf & Hin).
      destruct (fd_ref f) eqn:Rf; [|destruct Hin]. destruct Hin as [<-|[]].
      apply In_nth_error in Hc. destruct Hc as [i Hi]. apply In_nth_error in Hf. destruct Hf as [j Hj].
      exists (i, j), c, f. split; [split; assumption|]. split; [assumption|reflexivity].
    - intros ([i j] & c & f & [Hc Hf] & Rf & ->). simpl in *. exists c. split; [eapply nth_error_In; eassumption|].
      apply in_flat_map. exists f. split; [eapply nth_error_In; eassumption|]. rewrite Rf. left. reflexivity.
  Qed.

  Lemma exec_types : forall l h, (forall s, In s l -> In s (type_stmts cs)) ->
    exec_post scope T l h = Some (apply_writes (type_writes l) h).
  Proof.
    induction l as [|s r IH]; intros h Sub; [reflexivity|].
    destruct (proj1 (In_type_stmts s) (Sub s (or_introl eq_refl))) as (p & c & f & A & Rf & ->).
    destruct A as [Hc Hf].
    destruct (type_is_class (fst p) c f Hc (nth_error_In _ _ Hf) Rf) as (v & Lk).
    cbn [exec_post exec_stmt type_writes flat_map].
    rewrite (resolve_s_at p c f (conj Hc Hf)), Lk.
    rewrite IH; [|intros s' Hs'; apply Sub; right; assumption].
    unfold apply_writes. rewrite fold_left_app. reflexivity.
  Qed.

  (* after the eType assignments every feature is as the dynamic constructor makes it *)
  Lemma types_phase :
    exists h1, exec_post scope T (type_stmts cs) H0 = Some h1 /\
      forall p c f, at_loc cs p c f -> get_loc p h1 = Some (pre_opp D (fst p) f).
  Proof.
    eexists. split; [apply exec_types; intros s Hs; exact Hs|].
    intros [i j] c f [Hc Hf]. simpl in Hc, Hf. rewrite get_apply_writes, (get_st_heap i c j f Hc Hf). simpl. f_equal.
    assert (Inv : forall w, In w (type_writes (type_stmts cs)) -> fst w = (i, j) ->
                  fd_ref f = true /\ snd w = set_type (TyClass (cls_idx cs (fd_type f)))).
    { intros w Hw Hfst. unfold type_writes in Hw. apply in_flat_map in Hw. destruct Hw as (s & Hs & Hw).
      apply In_type_stmts in Hs. destruct Hs as (p' & c' & f' & A' & Rf' & ->).
      rewrite (resolve_s_at p' c' f' A') in Hw.
      destruct (type_is_class (fst p') c' f' (proj1 A') (nth_error_In _ _ (proj2 A')) Rf') as (v & Lk).
      rewrite Lk in Hw. destruct Hw as [<-|[]]. simpl in Hfst. subst p'.
      destruct (at_loc_fun cs (i, j) c f c' f' (conj Hc Hf) A') as [-> ->]. split; [assumption|reflexivity]. }
    unfold pre_opp, st_obj, fin_type. destruct (fd_ref f) eqn:Rf.
    - rewrite (fold_effect_const (i, j) (set_type (TyClass (cls_idx cs (fd_type f))))); [| |reflexivity].
      + assert (Tt : existsb (touches (i, j)) (type_writes (type_stmts cs)) = true).
        { apply existsb_exists. exists ((i, j), set_type (TyClass (cls_idx cs (fd_type f)))). split.
          - unfold type_writes. apply in_flat_map. exists (SSetType (cd_name c) (fd_name f) (fd_type f)). split.
            + apply In_type_stmts. exists (i, j), c, f. split; [split; assumption|]. split; [assumption|reflexivity].
            + rewrite (resolve_s_at (i, j) c f (conj Hc Hf)).
              destruct (type_is_class i c f Hc (nth_error_In _ _ Hf) Rf) as (v & ->). left. reflexivity.
          - unfold touches. simpl. destruct (loc_eq_dec (i, j) (i, j)); [reflexivity|congruence]. }
        rewrite Tt. apply set_type_base.
      + intros w Hw Hfst o. destruct (Inv w Hw Hfst) as [_ ->]. reflexivity.
    - rewrite (fold_effect_const (i, j) (fun o => o)); [destruct (existsb _ _); reflexivity| |reflexivity].
      intros w Hw Hfst o. destruct (Inv w Hw Hfst) as [X _]. discriminate X.
  Qed.

  Theorem static_realises : exists w, promote (render_static deco D) = Some w /\ realises D w.
  Proof.
    unfold promote, render_static. cbn [m_types m_classes m_post]. fold cs. fold T.
    pose proof (exec_classes_all D W deco cs [] eq_refl) as EC. fold T in EC. cbn [app] in EC.
    change (mkS (mkW [] []) []) with (st_state D deco []). rewrite EC.
    cbn [s_py st_state]. fold scope. fold H0.
    rewrite exec_post_app. destruct types_phase as (h1 & E1 & P1). rewrite E1.
    rewrite exec_post_opps.
    destruct (opp_phase D W (resolve_s scope) resolve_s_at (dedup_pairs [] (all_opps cs))) with (h := h1)
      as (h2 & E2 & P2).
    - intros ab Hab. apply (dedup_sub _ _ _ Hab).
    - intros a b Hab. destruct (dedup_cover (all_opps cs) [] (a, b) Hab) as [(y & [] & _)|(y & Hy & S)].
      apply same_pair_inv in S. destruct S as [->| ->]; [left|right]; assumption.
    - fold cs in E2. rewrite E2. eexists. split; [reflexivity|]. split.
      + unfold st_state. cbn [w_ecl s_world]. rewrite map_length, length_number_from. reflexivity.
      + intros i c Hc. fold cs in Hc. unfold st_state. cbn [w_ecl s_world w_heap]. rewrite nth_error_map, nth_error_number_from, Hc.
        cbn [option_map Nat.add fst snd]. eexists. split; [reflexivity|]. unfold st_ecl. cbn [e_name e_abstract e_supers e_feats e_ops].
        repeat split.
        * unfold st_ns. rewrite <- app_assoc. unfold ns_members. rewrite !flat_map_app.
          fold (ns_members (feat_ns i 0 (cd_feats c))).
          assert (F0 : forall fs j0, flat_map (fun kv : name * value =>
                         match snd kv with VMem f m => [(fst kv, f, m)] | VFeat _ => [] end) (feat_ns i j0 fs) = []).
          { unfold feat_ns. induction fs as [|f r IH]; intros j0; simpl; [reflexivity|apply IH]. }
          rewrite F0. cbn [app]. rewrite promote_ns_app.
          assert (R0 : promote_ns (flat_map (fun kv : name * value =>
                         match snd kv with VMem f m => [(fst kv, f, m)] | VFeat _ => [] end) res_ns) = []) by reflexivity.
          rewrite R0, app_nil_r. unfold mems_of, mem_ns. rewrite map_app, flat_map_app, promote_ns_app.
          assert (I0 : promote_ns (flat_map (fun kv : name * value =>
                         match snd kv with VMem f m => [(fst kv, f, m)] | VFeat _ => [] end)
                         (map (fun km : name * member => (fst km, VMem (fst km) (snd km)))
                              (if deco then [] else [(INIT, MFunc (mkSpec [SELF] []))]))) = [])
            by (destruct deco; reflexivity).
          rewrite I0, app_nil_r.
          assert (O0 : flat_map (fun kv : name * value =>
                         match snd kv with VMem f m => [(fst kv, f, m)] | VFeat _ => [] end)
                         (map (fun km : name * member => (fst km, VMem (fst km) (snd km)))
                              (map (fun o : odecl => (fst o, MFunc (op_spec o))) (cd_ops c)))
                       = map (fun o : odecl => (fst o, fst o, MFunc (op_spec o))) (cd_ops c)).
          { induction (cd_ops c) as [|o r IH]; simpl; [reflexivity|]. f_equal. apply IH. }
          rewrite O0. rewrite promote_ns_ops; [|intros o Ho; apply (wf_ops D W i c o Hc Ho)].
          rewrite map_map. rewrite <- (map_id (cd_ops c)) at 2. apply map_ext_in. intros o Ho.
          apply describe_promoted_op. apply (wf_ops D W i c o Hc Ho).
        * intros j f Hf. rewrite (P2 (i, j) c f (pre_opp D i f) (conj Hc Hf) (P1 (i, j) c f (conj Hc Hf))). reflexivity.
  Qed.
End Static3.

(* ---------- the theorems ---------- *)

Theorem static_dynamic_canonical D deco :
  wf_descr D = true ->
  exists ws wd, promote (render_static deco D) = Some ws /\ build_dynamic D = Some wd /\
                describe ws = canonical D /\ describe wd = canonical D.
Proof.
  intros H. apply wf_descr_WF in H.
  destruct (static_realises D H deco) as (ws & Es & Rs).
  destruct (dynamic_realises D H) as (wd & Ed & Rd).
  exists ws, wd. repeat split; try assumption.
  - apply (realises_describe D H ws Rs).
  - apply (realises_describe D H wd Rd).
Qed.

Corollary static_dynamic_coincide D deco :
  wf_descr D = true ->
  option_map describe (promote (render_static deco D)) = option_map describe (build_dynamic D)
  /\ option_map describe (build_dynamic D) = Some (canonical D).
Proof.
  intros H. destruct (static_dynamic_canonical D deco H) as (ws & wd & -> & -> & E1 & E2).
  simpl. rewrite E1, E2. split; reflexivity.
Qed.

(* ---------- what _promote takes from ANY class body, and what it never takes ---------- *)

Definition feat_locs (d : ns) : list loc :=
  flat_map (fun kv => match snd kv with VFeat l => [l] | VMem _ _ => [] end) d.

Lemma promote_feats_locs i : forall d h acc, snd (promote_feats i d h acc) = acc ++ feat_locs d.
Proof.
  induction d as [|[k v] r IH]; intros h acc; simpl; [rewrite app_nil_r; reflexivity|].
  destruct v as [l|f m]; simpl.
  - rewrite IH. rewrite <- app_assoc. reflexivity.
  - apply IH.
Qed.

(* the features of the class are the feature-valued entries of its namespace (after the names
   _promote itself assigns), in namespace order; its operations are Operations.promote_ns of the rest *)
Theorem class_takes_exactly T c s s' :
  exec_class T c s = Some s' ->
  exists d row e, eval_body T (py_name c) (length (s_py s)) (py_body c) [] [] = Some (d, row) /\
    w_ecl (s_world s') = w_ecl (s_world s) ++ [e] /\
    e_feats e = feat_locs (overwrite_reserved d) /\
    e_ops e = promote_ns (ns_members (overwrite_reserved d)).
Proof.
  unfold exec_class. destruct (negb (header_ok (s_py s) c)); [discriminate|].
  destruct (eval_body T (py_name c) (length (s_py s)) (py_body c) [] []) as [[d row]|]; [|discriminate].
  destruct (promote_feats (length (s_py s)) (overwrite_reserved d) (w_heap (s_world s) ++ [row]) []) as [h2 feats] eqn:PF.
  intros E. inversion E; subst. exists d, row. eexists. split; [reflexivity|]. cbn [w_ecl s_world]. split; [reflexivity|].
  cbn [e_feats e_ops]. split; [|reflexivity].
  pose proof (promote_feats_locs (length (s_py s)) (overwrite_reserved d) (w_heap (s_world s) ++ [row]) []) as L.
  rewrite PF in L. exact L.
Qed.

Lemma In_keys_dict_set {V} (k : name) (v : V) x : forall d,
  In x (map fst (dict_set d k v)) -> x = k \/ In x (map fst d).
Proof.
  induction d as [|[k' v'] r IH]; simpl; [intros [<-|[]]; left; reflexivity|].
  destruct (name_eqb k k'); simpl; [intros H; right; exact H|].
  intros [<-|H]; [right; left; reflexivity|]. destruct (IH H); [left|right; right]; assumption.
Qed.

Lemma dict_set_keys_nodup {V} (k : name) (v : V) : forall d, NoDup (map fst d) -> NoDup (map fst (dict_set d k v)).
Proof.
  induction d as [|[k' v'] r IH]; intros ND; simpl; [constructor; [intros []|constructor]|].
  inversion ND as [|? ? Hn Hr]; subst. destruct (name_eqb k k') eqn:E; simpl; [constructor; assumption|].
  constructor; [|apply IH; assumption]. intros Hin. apply In_keys_dict_set in Hin. destruct Hin as [->|Hin].
  - rewrite name_eqb_refl in E. discriminate.
  - contradiction.
Qed.

Lemma dict_set_value {V} (k : name) (v v' : V) : forall d,
  NoDup (map fst d) -> In (k, v') (dict_set d k v) -> v' = v.
Proof.
  induction d as [|[k' v0] r IH]; intros ND Hin; simpl in Hin.
  - destruct Hin as [E|[]]. inversion E. reflexivity.
  - inversion ND as [|? ? Hn Hr]; subst. destruct (name_eqb k k') eqn:E.
    + apply name_eqb_eq in E. subst k'. destruct Hin as [E'|Hin]; [inversion E'; reflexivity|].
      exfalso. apply Hn. apply in_map_iff. exists (k, v'). split; [reflexivity|assumption].
    + destruct Hin as [E'|Hin]; [inversion E'; subst; rewrite name_eqb_refl in E; discriminate|].
      apply IH; assumption.
Qed.

Lemma dict_set_other {V} (k : name) (v : V) x v' : forall d,
  In (x, v') (dict_set d k v) -> x <> k -> In (x, v') d.
Proof.
  induction d as [|[k' v0] r IH]; intros Hin N; simpl in Hin.
  - destruct Hin as [E|[]]. inversion E. congruence.
  - destruct (name_eqb k k') eqn:E.
    + apply name_eqb_eq in E. subst k'. destruct Hin as [E'|Hin]; [inversion E'; congruence|right; assumption].
    + destruct Hin as [E'|Hin]; [left; assumption|right; apply IH; assumption].
Qed.

Lemma overwritten_not_feature k l : forall rs (d : ns),
  NoDup (map fst d) -> In (k, VFeat l) (fold_left (fun d k => dict_set d k (VMem k MOther)) rs d) -> ~ In k rs.
Proof.
  assert (Back : forall rs (d : ns) x v', In (x, v') (fold_left (fun d k => dict_set d k (VMem k MOther)) rs d) ->
                 ~ In x rs -> In (x, v') d).
  { induction rs as [|r rs IH]; intros d x v' H N; simpl in H; [assumption|].
    apply (dict_set_other r (VMem r MOther)); [apply IH; [assumption|]|]; intros E; apply N; [right; assumption|left; congruence]. }
  induction rs as [|r rs IH]; intros d ND H; simpl in *; [intros []|].
  pose proof (IH _ (dict_set_keys_nodup r (VMem r MOther) d ND) H) as N. intros [->|Hin]; [|contradiction].
  pose proof (Back _ _ _ _ H N) as B. apply (dict_set_value _ _ _ _ ND) in B. discriminate B.
Qed.

Lemma eval_body_keys_nodup T cn i : forall b d row d' row',
  NoDup (map fst d) -> eval_body T cn i b d row = Some (d', row') -> NoDup (map fst d').
Proof.
  induction b as [|e r IH]; intros d row d' row' ND H; simpl in H.
  - inversion H; subst. assumption.
  - destruct e as [k fe|k m].
    + destruct (new_feature T fe); [|discriminate]. apply (IH _ _ _ _ (dict_set_keys_nodup _ _ _ ND) H).
    + apply (IH _ _ _ _ (dict_set_keys_nodup _ _ _ ND) H).
Qed.

(* an attribute of the class body called eClass, dyn_inst or _staticEClass is never promoted *)
Theorem reserved_key_never_promoted T cn i b d row k l :
  eval_body T cn i b [] [] = Some (d, row) -> In (k, VFeat l) (overwrite_reserved d) -> ~ In k reserved.
Proof.
  intros E Hin. apply (overwritten_not_feature k l reserved d); [|exact Hin].
  apply (eval_body_keys_nodup T cn i b [] [] d row); [constructor|exact E].
Qed.
