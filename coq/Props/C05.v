(* C05 — observers can mirror the model from notifications alone.
   Statements only; proofs in Proofs/C05Proofs.v (attribute slots, exact shape)
   and Proofs/C05Refs.v (the whole kernel) over Model/Kernel.v
   (valuecontainer.py + ENotifer.notify, statement by statement).

   THE MIRROR THEOREM (C05_mirror_history_partial and what it rests on).
   The observer [mirror] applies every notification to its own copy of the
   value store, at the cell (notifier, feature) it names: SET/UNSET replace the
   slot by the new payload, ADD/ADD_MANY insert the payload item(s) (a set
   insertion for unique features), REMOVE/REMOVE_MANY delete one occurrence of
   each payload item; entries are applied oldest first.  Contents are compared
   by [same_content]: equal counts of every value modulo the model's Python
   equality [veqb] (True == 1 == 1.0), which is an equivalence relation on the
   whole value domain (C05_python_equality_equivalence) — for unique features
   this gives in particular the same members (C05_same_content_members).
   [reported s s'] = "the log of s' extends the log of s, and the observer fed
   the new entries turns the store of s into the store of s'" is reflexive and
   transitive and holds between s and P(s) for EVERY kernel procedure P
   (C05_every_procedure_reported: 27 procedures, the implicit opposite-end and
   container updates included), hence for every operation
   (C05_operation_reported) and every history from the initial state
   (C05_mirror_history_partial): the observer that starts from the initial
   values and applies each reported change ends with exactly the contents
   every feature of every object really has.
   Premises, all about the CALL or the metamodel (op_ok), none about the state:
   - pop / clear / extend / item operations address a many-valued feature;
   - c[i] = v and del c[i] address a UNIQUE collection: on list-based
     collections they are the recorded known finding F-C05-elist-item-write,
     which the model reproduces (C05_elist_item_write_refuted).  This is why
     the history theorem is named _partial;
   - extend / update / x.f = [...] on a UNIQUE collection need [wf_cont]: the
     opposite of a containment reference is a single-valued non-containment
     reference (EMF's rule for container references; every metamodel of the
     generators satisfies it).  Without it the mirror really fails, in the
     model and in pyecore alike (C05_bulk_add_many_valued_container_refuted):
     these procedures write the own slot element by element and send ONE
     ADD_MANY at the end, and with a many-valued opposite of a containment a
     nested re-parenting removes (and reports) an element of the own slot in
     between, which the observer then re-adds.
   The state invariant the frame facts use (every recorded container feature is
   a containment reference) is proved along the way (C05_container_invariant).
   "Exactly once, right notifier": a slot that no new notification names has
   kept its content (C05_unreported_unchanged); the notifications the code
   sends without a change are idempotent for the observer and are exactly:
   ADD for an element a unique collection already holds (own end and opposite
   end), SET/UNSET re-writing the value already held (incl. UNSET None->None
   sent by delete() / Resource.append on an empty slot), and ADD_MANY with an
   empty payload (extend([]), x.f = []).  Positions are not reported, so
   nothing is claimed about order.

   THE ATTRIBUTE HALF, exact shape (the older _partial theorems below): each
   accepted operation on a non-reference feature changes exactly the addressed
   slot and appends exactly one notification whose notifier, feature, kind and
   old/new payload describe that change; an empty clear reports nothing. *)
From Coq Require Import ZArith List Bool Arith.
From PyecoreV Require Import Lib.PyBase Lib.PyList Model.Kernel Model.KernelIO Proofs.KernelFacts Proofs.C05Proofs Proofs.C05Refs
  Gen.KernelTables Proofs.KernelTablesProofs.
Open Scope nat_scope.
Import ListNotations.

Theorem C05_attribute_set_reported_partial :
  forall m f, f_isref (fd m f) = false ->
  forall s x v, check_single m f v = true ->
    let s' := snd (set_full m s (x, f) v) in
    vals s' = upd (vals s) (x, f) [v] /\
    log s' = mk m (set_vals s (x, f) [v]) x f (match v with VNone => KUnset | _ => KSet end)
                (POne (single s (x, f))) (POne v) :: log s /\
    cont s' = cont s /\ rcont s' = rcont s /\ eres s' = eres s.
Proof. exact attr_set. Qed.
Print Assumptions C05_attribute_set_reported_partial.

Theorem C05_attribute_add_reported_partial :
  forall m f, f_isref (fd m f) = false ->
  forall s x pos v, check_elem m f v = true ->
    let s' := snd (coll_add_full m s (x, f) pos v) in
    let l' := match pos with
              | Some i => raw_insert (f_unique (fd m f)) i v (vals s (x, f))
              | None => raw_append (f_unique (fd m f)) v (vals s (x, f)) end in
    vals s' = upd (vals s) (x, f) l' /\
    log s' = mk m (set_vals s (x, f) l') x f KAdd (POne VNone) (POne v) :: log s.
Proof. exact attr_add. Qed.
Print Assumptions C05_attribute_add_reported_partial.

Theorem C05_attribute_remove_reported_partial :
  forall m f, f_isref (fd m f) = false ->
  forall s x v, vmem v (vals s (x, f)) = true ->
    let s' := snd (coll_remove_top m s (x, f) v) in
    let l' := raw_remove v (vals s (x, f)) in
    vals s' = upd (vals s) (x, f) l' /\
    log s' = mk m (set_vals s (x, f) l') x f KRemove (POne v) (POne VNone) :: log s.
Proof. exact attr_remove. Qed.
Print Assumptions C05_attribute_remove_reported_partial.

Theorem C05_attribute_pop_reported_partial :
  forall m f, f_isref (fd m f) = false ->
  forall s x i v l', py_pop i (vals s (x, f)) = Some (v, l') ->
    let r := coll_pop_full m s (x, f) i in
    vals (snd (fst r)) = upd (vals s) (x, f) l' /\
    log (snd (fst r)) = mk m (set_vals s (x, f) l') x f KRemove (POne v) (POne VNone) :: log s /\
    snd r = Some v /\ fst (fst r) = None.
Proof. exact attr_pop. Qed.
Print Assumptions C05_attribute_pop_reported_partial.

Theorem C05_attribute_clear_reported_partial :
  forall m f, f_isref (fd m f) = false ->
  forall s x,
    let s' := coll_clear_full m s (x, f) in
    match vals s (x, f) with
    | [] => s' = s
    | l => vals s' = upd (vals s) (x, f) [] /\
           log s' = mk m (set_vals s (x, f) []) x f KRemoveMany (PMany l) (PMany []) :: log s
    end.
Proof. exact attr_clear. Qed.
Print Assumptions C05_attribute_clear_reported_partial.

Theorem C05_attribute_extend_reported_partial :
  forall m f, f_isref (fd m f) = false ->
  forall s x vs, forallb (check_elem m f) vs = true ->
    let s' := snd (coll_extend_full m s (x, f) vs) in
    let l' := if f_unique (fd m f)
              then fold_left (fun acc v => raw_append true v acc) vs (vals s (x, f))
              else vals s (x, f) ++ vs in
    vals s' (x, f) = l' /\
    (forall k, k <> (x, f) -> vals s' k = vals s k) /\
    exists s0, log s' = mk m s0 x f KAddMany (POne VNone) (PMany vs) :: log s.
Proof. exact attr_extend. Qed.
Print Assumptions C05_attribute_extend_reported_partial.

Definition ex_mm : mm :=
  {| feats := [ {| f_owner := 0; f_isref := false; f_many := true; f_unique := false; f_cont := false;
                   f_opp := None; f_type := TInt; f_default := VNone |} ];
     conf := [(0, 0)]; ocls := [0]; enames := []; nres := 0 |}.

Example C05_witness :
  let s := fold_left (next ex_mm) [OAppend 0 0 (VInt 7); OAppend 0 0 (VInt 7); OPop 0 0 (-1)] (init_state ex_mm) in
  vals s (0, 0) = [VInt 7] /\ map n_kind (log s) = [KRemove; KAdd; KAdd].
Proof. vm_compute. split; reflexivity. Qed.

(* ---------------- the whole kernel: Proofs/C05Refs.v ---------------- *)

Theorem C05_python_equality_equivalence :
  (forall a, veqb a a = true) /\
  (forall a b, veqb a b = veqb b a) /\
  (forall a b c, veqb a b = true -> veqb b c = true -> veqb a c = true).
Proof. exact (conj veqb_refl (conj veqb_sym veqb_trans)). Qed.
Print Assumptions C05_python_equality_equivalence.

Theorem C05_same_content_members :
  forall l1 l2 v, same_content l1 l2 -> vmem v l1 = vmem v l2.
Proof. exact same_content_members. Qed.
Print Assumptions C05_same_content_members.

Theorem C05_same_content_length :
  forall l1 l2, same_content l1 l2 -> length l1 = length l2.
Proof. exact same_content_length. Qed.
Print Assumptions C05_same_content_length.

Theorem C05_reported_refl : forall m s, reported m s s.
Proof. exact reported_refl. Qed.
Print Assumptions C05_reported_refl.

Theorem C05_reported_trans :
  forall m s1 s2 s3, reported m s1 s2 -> reported m s2 s3 -> reported m s1 s3.
Proof. exact reported_trans. Qed.
Print Assumptions C05_reported_trans.

Theorem C05_mirror_congruence :
  forall m news V1 V2, (forall k, same_content (V1 k) (V2 k)) ->
  forall k, same_content (mirror m news V1 k) (mirror m news V2 k).
Proof. exact mirror_congruence. Qed.
Print Assumptions C05_mirror_congruence.

Theorem C05_mirror_composes :
  forall m n2 n1 V k, mirror m (n2 ++ n1) V k = mirror m n2 (mirror m n1 V) k.
Proof. exact mirror_app. Qed.
Print Assumptions C05_mirror_composes.

Theorem C05_every_procedure_reported :
  forall m s,
  (forall k v, reported m s (set_store m s k v)) /\
  (forall k, reported m s (set_none_raw m s k)) /\
  (forall k x, reported m s (coll_remove_raw m s k x)) /\
  (forall x f y, reported m s (update_opposite_remove m s x f y)) /\
  (forall k v, reported m s (coll_remove_full m s k v)) /\
  (forall k, reported m s (set_none_full m s k)) /\
  (forall k y, reported m s (remove_or_unset m s k y)) /\
  (forall x f v p, reported m s (update_container m s x f v p)) /\
  (forall k x, reported m s (set_obj_raw m s k x)) /\
  (forall k x, reported m s (coll_append_raw m s k x)) /\
  (forall x f y, reported m s (update_opposite_add m s x f y)) /\
  (forall x f v, reported m s (link_elem m s x f v)) /\
  (forall x f v, reported m s (unlink_elem m s x f v)) /\
  (forall k v, reported m s (snd (set_full m s k v))) /\
  (forall k pos v, reported m s (snd (coll_add_full m s k pos v))) /\
  (forall k v, reported m s (snd (coll_remove_top m s k v))) /\
  (forall x f i, f_many (fd m f) = true -> reported m s (snd (fst (coll_pop_full m s (x, f) i)))) /\
  (forall x f, f_many (fd m f) = true -> reported m s (coll_clear_full m s (x, f))) /\
  (forall x f vs, f_many (fd m f) = true -> (f_unique (fd m f) = true -> wf_cont m) -> cont_wf m s ->
     reported m s (snd (coll_extend_full m s (x, f) vs))) /\
  (forall x f i v, f_many (fd m f) = true -> f_unique (fd m f) = true ->
     reported m s (snd (coll_setitem_full m s (x, f) i v))) /\
  (forall x f i, f_many (fd m f) = true -> f_unique (fd m f) = true ->
     reported m s (snd (coll_delitem_full m s (x, f) i))) /\
  (forall x f vs, f_many (fd m f) = true -> (f_unique (fd m f) = true -> wf_cont m) -> cont_wf m s ->
     reported m s (snd (assign_full m s (x, f) vs))) /\
  (forall x f, reported m s (snd (del_full m s (x, f)))) /\
  (forall x k, reported m s (delete_step m x s k)) /\
  (forall fuel x r, reported m s (delete_obj fuel m s x r)) /\
  (forall r o, reported m s (res_append m s r o)) /\
  (forall r o, reported m s (snd (res_remove s r o))).
Proof. exact reported_procedures. Qed.
Print Assumptions C05_every_procedure_reported.

Theorem C05_operation_reported :
  forall m s o, cont_wf m s -> op_ok m o -> reported m s (next m s o).
Proof. exact reported_op. Qed.
Print Assumptions C05_operation_reported.

Theorem C05_container_invariant :
  forall m ops, Forall (op_ok m) ops -> cont_wf m (fold_left (next m) ops (init_state m)).
Proof. exact cont_wf_history. Qed.
Print Assumptions C05_container_invariant.

(* _partial: op_ok excludes item assignment/deletion on list-based collections (known finding) *)
Theorem C05_mirror_history_partial :
  forall m ops, Forall (op_ok m) ops ->
  let s := fold_left (next m) ops (init_state m) in
  forall k, same_content (vals s k) (mirror m (log s) (vals (init_state m)) k).
Proof. exact mirror_history. Qed.
Print Assumptions C05_mirror_history_partial.

Theorem C05_unreported_unchanged :
  forall m s s' k news,
  reported m s s' -> log s' = news ++ log s -> Forall (fun n => ncell n <> k) news ->
  same_content (vals s' k) (vals s k).
Proof. exact unreported_unchanged. Qed.
Print Assumptions C05_unreported_unchanged.

(* known finding F-C05-elist-item-write, reproduced by the model *)
Example C05_elist_item_write_refuted :
  let del := [OAppend 0 0 (VInt 7); ODelItem 0 0 0%Z] in
  let set := [OAppend 0 0 (VInt 7); OSetItem 0 0 0%Z (VInt 8)] in
  vals (run mm_list del) (0, 0) = [] /\ observed mm_list del (0, 0) = [VInt 7] /\
  vals (run mm_list set) (0, 0) = [VInt 8] /\ observed mm_list set (0, 0) = [VInt 7; VInt 8].
Proof. exact item_write_refuted. Qed.

(* the metamodel premise of bulk additions is needed *)
Example C05_bulk_add_many_valued_container_refuted :
  let ops := [OAppend 1 1 (VObj 0); OExtend 0 0 [VObj 1; VObj 2]] in
  vals (run mm_badcont ops) (0, 0) = [VObj 2] /\
  observed mm_badcont ops (0, 0) = [VObj 1; VObj 2] /\
  ~ wf_cont mm_badcont.
Proof. exact extend_needs_wf_cont_refuted. Qed.

(* non-vacuity: references with opposites and containment, seven accepted operations *)
Example C05_mirror_witness :
  let ops := [OAppend 0 2 (VObj 1); OExtend 2 2 [VObj 1; VObj 3]; OExtend 0 0 [VObj 1; VObj 2];
              OSet 3 3 (VObj 0); OPop 0 0 0%Z; OSetItem 2 2 0%Z (VObj 0); ODelete 1 true] in
  wf_cont mm_ok /\ Forall (op_ok mm_ok) ops /\
  map n_kind (log (run mm_ok ops)) <> [] /\
  forallb (fun k => match vals (run mm_ok ops) k, observed mm_ok ops k with
                    | l1, l2 => forallb (fun v => vmem v l2) l1 && forallb (fun v => vmem v l1) l2 end)
          (list_prod [0; 1; 2; 3] [0; 1; 2; 3]) = true.
Proof. exact mirror_witness. Qed.

(* the kind numbers compared between the model's log and the implementation's notifications are the values of
   notification.Kind, TRANSLATED from the source on every run (Gen/KernelTables.v), member by member *)
Theorem C05_kind_codes_are_the_enumeration :
  map (fun k => (kind_name k, kind_code k)) all_kinds = kind_values.
Proof. exact kind_codes_are_the_enum. Qed.
Print Assumptions C05_kind_codes_are_the_enumeration.

(* slice assignment on a list-based collection (Model/Slice.v): an observer that is told "the elements the slice
   held were removed, the new ones were added" (REMOVE / REMOVE_MANY with the old slice, ADD / ADD_MANY with the new
   values - what EList.__setitem__ reports for a non-empty right-hand side) holds the real content as a multiset,
   for every pair of bounds: new content + old slice  is a permutation of  old content + new values *)
From Coq Require Import Permutation.
From PyecoreV Require Import Model.Slice Proofs.SliceProofs.
Theorem C05_slice_assignment_mirrors_as_a_multiset :
  forall (a b : option Z) (ys l : list Z),
    Permutation (py_setslice a b ys l ++ py_getslice a b l) (l ++ ys).
Proof. intros a b ys l. exact (setslice_mirror a b ys l). Qed.
Print Assumptions C05_slice_assignment_mirrors_as_a_multiset.

(* EList.__setitem__ with a slice, notifications included (Model/Slice.v elist_setslice: features without opposite
   and without containment).  For a NON-EMPTY right-hand side the observer can apply everything it is told and holds
   the new content as a multiset, for every pair of bounds and every prior content; a refused call reports nothing.
   For an EMPTY right-hand side the statement is REFUTED on the faithful model: the last notification is an ADD whose
   payload is the empty list itself (known finding F-C05-elist-item-write, `c[a:b] = []`). *)
Theorem C05_slice_assignment_notifications_mirror :
  forall ok (a b : option Z) (ys l l' : list Z) ns,
    ys <> [] -> elist_setslice ok a b ys l = Ok (l', ns) ->
    l' = py_setslice a b ys l /\ exists m, mirror l ns = Some m /\ Permutation m l'.
Proof. exact elist_setslice_mirrors. Qed.
Print Assumptions C05_slice_assignment_notifications_mirror.

Theorem C05_slice_assignment_of_nothing_refuted :
  forall ok (a b : option Z) (l l' : list Z) ns,
    elist_setslice ok a b [] l = Ok (l', ns) -> mirror l ns = None /\ l' = py_delslice a b l.
Proof. exact elist_setslice_empty_refuted. Qed.
Print Assumptions C05_slice_assignment_of_nothing_refuted.

Theorem C05_slice_assignment_refused_reports_nothing :
  forall ok (a b : option Z) (ys l : list Z),
    forallb ok ys = false -> elist_setslice ok a b ys l = Err BadValue.
Proof. exact elist_setslice_refusal. Qed.
Print Assumptions C05_slice_assignment_refused_reports_nothing.

Example C05_slice_notifications_witness :
  elist_setslice (fun _ => true) (Some 1%Z) (Some 3%Z) [8; 9]%Z [1; 2; 3; 4]%Z
    = Ok ([1; 8; 9; 4]%Z, [NRemoveMany [2; 3]%Z; NAddMany [8; 9]%Z]) /\
  mirror [1; 2; 3; 4]%Z [NRemoveMany [2; 3]%Z; NAddMany [8; 9]%Z] = Some [1; 4; 8; 9]%Z /\
  elist_setslice (fun _ => true) (Some 0%Z) (Some 1%Z) [] [1; 2]%Z = Ok ([2]%Z, [NRemove 1%Z; NAddEmpty]).
Proof. vm_compute. repeat split; reflexivity. Qed.
