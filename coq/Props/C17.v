(* C17 — data type values survive conversion to text and back.
   Statements only; proofs are in Proofs/TextFacts.v, DateTimeProofs.v, DecimalProofs.v, C17Proofs.v.

   The tables ecore_datatypes / xml_datatypes / java_trans_map / parse_date_formats and the
   eenum_* tags are GENERATED from /repo (coq/Gen/DataTypes.v): the theorems below are about
   whatever lambdas and format strings the source contains today.

   Floats: repr/parse are not modelled; every theorem that mentions a float type carries the premise
   float_of_repr (CPython's documented float(repr(f)) == f), sampled against CPython by the harness.

   PARTIAL: C17_ecore_datatypes_partial and C17_EDate_roundtrip_partial exclude datetimes whose UTC
   offset o satisfies 0 < |o| < 1 second.  The property quantifies over "any offset"; on those the
   implementation really fails (C17_EDate_subsecond_offset_lost, C17_EDate_refuted_witness): the value
   comes back as UTC.  Known finding F-C17-edate-offset-below-one-second.  Everything else is full:
   any year 1000..9999 (the property's "from year 1000 on"; C17_year_999_does_not_parse shows why),
   any microsecond, naive or any other offset strictly between -24h and +24h; unbounded integers;
   every finite decimal (sign, coefficient, exponent); arbitrary code point strings; enumerations with
   unique non-empty literal names (the two hypotheses EEnum.getEEnumLiteral forces). *)
From Coq Require Import ZArith List Bool String.
From PyecoreV Require Import Model.Text Model.DateTime Model.DataTypeDecl Gen.DataTypes Model.DataConv
  Proofs.TextFacts Proofs.DateTimeProofs Proofs.DecimalProofs Proofs.C17Proofs.
Import ListNotations.
Open Scope Z_scope.

(* ---------- per conversion pair ---------- *)

(* TS_str / FS_int : int(str(z)) = z for every integer *)
Theorem C17_int_roundtrip : forall z : Z, int_of_text (str_of_Z z) = Some z.
Proof. exact int_of_str_of_Z. Qed.
Print Assumptions C17_int_roundtrip.

(* TS_str_lower / FS_in_True_true[_or_is_True] *)
Theorem C17_bool_roundtrip : forall b : bool, in_True_true (ascii_lower (bool_str b)) = b.
Proof. exact bool_roundtrip. Qed.
Print Assumptions C17_bool_roundtrip.

(* TS_str / FS_Decimal : every finite decimal *)
Theorem C17_decimal_roundtrip : forall d : dec, 0 <= dcoef d -> dec_parse (dec_str d) = Some d.
Proof. exact dec_roundtrip. Qed.
Print Assumptions C17_decimal_roundtrip.

(* TS_strftime "%Y-%m-%dT%H:%M:%S.%f%z" / FS_parse_date, whatever the fall-back format list *)
Theorem C17_EDate_roundtrip_partial : forall (formats : list string) (d : datetime),
  1000 <= dy d <= 9999 /\ 1 <= dmo d <= 12 /\ 1 <= dd d <= days_in_month (dy d) (dmo d) /\
  0 <= dh d < 24 /\ 0 <= dmi d < 60 /\ 0 <= ds d < 60 /\ 0 <= dus d < 1000000 ->
  match dtz d with None => True | Some o => - day_us < o < day_us end ->
  match dtz d with None => True | Some o => o = 0 \/ 1000000 <= Z.abs o end ->
  exists s, strftime "%Y-%m-%dT%H:%M:%S.%f%z" d = Some s /\ parse_date formats s = Some d.
Proof. exact date_roundtrip. Qed.
Print Assumptions C17_EDate_roundtrip_partial.

(* the excluded offsets are lost: the value reads back as UTC, which is a different value *)
Theorem C17_EDate_subsecond_offset_lost : forall (formats : list string) (d : datetime) (o : Z),
  fields_ok d -> dtz d = Some o -> 0 < Z.abs o < 1000000 ->
  exists s, strftime "%Y-%m-%dT%H:%M:%S.%f%z" d = Some s /\
            parse_date formats s = Some (with_tz d (Some 0)) /\ with_tz d (Some 0) <> d.
Proof. exact date_subsecond_offset_lost. Qed.
Print Assumptions C17_EDate_subsecond_offset_lost.

(* the strptime fall-back over the generated format list alone (reached when fromisoformat refuses
   the text): every offset comes back, the sub-second ones included *)
Theorem C17_strptime_fallback_roundtrip : forall d : datetime,
  fields_ok d -> offset_ok (dtz d) ->
  exists s, strftime "%Y-%m-%dT%H:%M:%S.%f%z" d = Some s /\ strptime_first parse_date_formats s = Some d.
Proof.
  exact (fun d Hf Htz => ex_intro _ (date_text d) (conj (strftime_date_fmt d) (strptime_fallback_roundtrip d Hf Htz))).
Qed.
Print Assumptions C17_strptime_fallback_roundtrip.

(* enumerations: EEnum.from_string(EEnum.to_string(literal)) is the literal (its position) *)
Theorem C17_enum_roundtrip : forall (e : enum) (i : nat),
  NoDup (map fst e) /\ Forall (fun l => fst l <> []) e -> (i < List.length e)%nat ->
  exists s, enum_to_string eenum_to_string eenumliteral_str e i = Some s /\
            enum_from_string eenum_from_string eenum_getEEnumLiteral e s = Some i.
Proof. exact enum_roundtrip. Qed.
Print Assumptions C17_enum_roundtrip.

(* ---------- per entry of the generated tables ---------- *)

(* every entry of ecore.py's table whose Python type has a textual form *)
Theorem C17_ecore_datatypes_partial :
  forall (F : Type) (repr_float : F -> text) (parse_float : text -> option F),
  (forall f, parse_float (repr_float f) = Some f) ->
  forall d, In d ecore_datatypes -> has_text (dt_type d) = true ->
  forall v : pyval F,
    match dt_type d, v with
    | PT_str, VStr _ | PT_bool, VBool _ | PT_int, VInt _ | PT_float, VFloat _ => True
    | PT_Decimal, VDec x => 0 <= dcoef x
    | PT_datetime, VDate x => fields_ok x /\ offset_ok (dtz x) /\ offset_iso_ok (dtz x)
    | _, _ => False
    end ->
  exists s, to_string repr_float (dt_ts d) v = Some s /\
            from_string parse_float parse_date_formats (dt_fs d) s = Some v.
Proof. exact ecore_roundtrip. Qed.
Print Assumptions C17_ecore_datatypes_partial.

(* every XMLType whose Python type (through javaTransMap; BigInteger family: int) has a textual form *)
Theorem C17_xml_datatypes :
  forall (F : Type) (repr_float : F -> text) (parse_float : text -> option F),
  (forall f, parse_float (repr_float f) = Some f) ->
  forall d, In d xml_datatypes -> has_text (xml_value_type d) = true ->
  forall v : pyval F, in_domain F (xml_value_type d) v ->
  exists s, to_string repr_float (xd_ts d) v = Some s /\
            from_string parse_float parse_date_formats (xd_fs d) s = Some v.
Proof. exact xml_roundtrip. Qed.
Print Assumptions C17_xml_datatypes.

(* every entry with a textual form uses one of the proven conversion pairs (this is what stops
   compiling when a lambda or a format string of /repo changes) *)
Theorem C17_tables_covered :
  forallb covered_dt ecore_datatypes = true /\ forallb covered_xml xml_datatypes = true.
Proof. exact (conj ecore_table_covered xml_table_covered). Qed.
Print Assumptions C17_tables_covered.

(* the data types the property names are entries of the tables, with a textual form *)
Theorem C17_listed_types_present :
  forallb (fun n => existsb (fun d => String.eqb (dt_name d) n && has_text (dt_type d)) ecore_datatypes)
          ecore_listed = true /\
  forallb (fun n => existsb (fun d => String.eqb (xd_name d) n &&
                                      match xml_value_type d with PT_bool | PT_int | PT_float => true | _ => false end)
                            xml_datatypes)
          xml_listed = true.
Proof. exact (conj ecore_listed_present xml_listed_present). Qed.
Print Assumptions C17_listed_types_present.

(* EDate for every offset: local time kept, offset as fromisoformat reads it *)
Theorem C17_EDate_any_offset :
  forall (F : Type) (repr_float : F -> text) (parse_float : text -> option F) (d : datetime) (fmt : string),
  In {| dt_name := "EDate"; dt_type := PT_datetime; dt_ts := TS_strftime fmt; dt_fs := FS_parse_date;
        dt_default := DF_None; dt_factory := false |} ecore_datatypes ->
  fields_ok d -> offset_ok (dtz d) ->
  exists s, to_string repr_float (TS_strftime fmt) (VDate d) = Some s /\
            from_string parse_float parse_date_formats FS_parse_date s
              = Some (VDate (with_tz d (iso_tz (dtz d)))).
Proof. exact edate_any_offset. Qed.
Print Assumptions C17_EDate_any_offset.

(* ---------- witnesses (non-vacuity, and the refutation of the full date statement) ---------- *)
Definition a_date (tz : option Z) : datetime :=
  {| dy := 2020; dmo := 2; dd := 29; dh := 1; dmi := 2; ds := 3; dus := 4; dtz := tz |}.

Example C17_date_witness :
  strftime "%Y-%m-%dT%H:%M:%S.%f%z" (a_date (Some (-19800000000)))
    = Some (cps_of_string "2020-02-29T01:02:03.000004-0530") /\
  parse_date parse_date_formats (cps_of_string "2020-02-29T01:02:03.000004-0530")
    = Some (a_date (Some (-19800000000))) /\
  parse_date parse_date_formats (cps_of_string "2020-02-29T01:02:03.000004+010001.500000")
    = Some (a_date (Some 3601500000)).
Proof. vm_compute. repeat split; reflexivity. Qed.

(* +00:00:00.000001 comes back as UTC *)
Example C17_EDate_refuted_witness :
  exists s, strftime "%Y-%m-%dT%H:%M:%S.%f%z" (a_date (Some 1)) = Some s /\
            s = cps_of_string "2020-02-29T01:02:03.000004+000000.000001" /\
            parse_date parse_date_formats s = Some (a_date (Some 0)).
Proof.
  exists (cps_of_string "2020-02-29T01:02:03.000004+000000.000001"). vm_compute. repeat split; reflexivity.
Qed.

(* below year 1000 %Y prints fewer than four digits and nothing reads the text back *)
Example C17_year_999_does_not_parse :
  exists s, strftime "%Y-%m-%dT%H:%M:%S.%f%z" (with_tz (set_y (a_date None) 999) None) = Some s /\
            s = cps_of_string "999-02-29T01:02:03.000004" /\
            parse_date parse_date_formats s = None.
Proof. exists (cps_of_string "999-02-29T01:02:03.000004"). vm_compute. repeat split; reflexivity. Qed.

Example C17_decimal_witness :
  dec_str {| dsign := true; dcoef := 123; dexp := -9 |} = cps_of_string "-1.23E-7" /\
  dec_str {| dsign := false; dcoef := 0; dexp := -7 |} = cps_of_string "0E-7" /\
  dec_str {| dsign := false; dcoef := 123456; dexp := -3 |} = cps_of_string "123.456" /\
  dec_parse (cps_of_string "-1.23E-7") = Some {| dsign := true; dcoef := 123; dexp := -9 |}.
Proof. vm_compute. repeat split; reflexivity. Qed.

Example C17_int_witness :
  str_of_Z (-12345) = cps_of_string "-12345" /\ int_of_text (cps_of_string "-12345") = Some (-12345)
  /\ int_of_text (cps_of_string "12x") = None.
Proof. vm_compute. repeat split; reflexivity. Qed.

(* with an empty name, or a duplicated one, the literal does not come back: the hypotheses are needed *)
Example C17_enum_hypotheses_needed :
  let e1 : enum := [(cps_of_string "A", 0); ([], 1)] in
  let e2 : enum := [(cps_of_string "A", 0); (cps_of_string "A", 1)] in
  enum_from_string eenum_from_string eenum_getEEnumLiteral e1 [] = Some 0%nat /\
  enum_from_string eenum_from_string eenum_getEEnumLiteral e2 (cps_of_string "A") = Some 0%nat.
Proof. vm_compute. split; reflexivity. Qed.
