"""C02 — kernel property: see DESIGN.md section 5 and harness/kprop.py."""
from harness import kgen, kprop

PID = 'C02'


def run(ctx, out):
    kprop.run(ctx, out, PID, ['C02'], {'outcome','values','ownership'}, 2000, 40000, pool=kgen.CONT_TEMPLATES+['p1n','rn','r1','s11'], weights={'res':0.2,'delete':0.05}, p_wrong=0.05)


def replay(ctx, rep):
    from harness import krun
    case = rep['case']
    r = krun.Run(case, ['C02']).run()
    for s in r.steps:
        print(s['op'], '->', s['outcome'])
    if r.failure:
        print('REPRODUCED', r.failure['property'], r.failure['clause'], r.failure['detail'])
        return 1
    print('not reproduced')
    return 0


# ---------------------------------------------------------------------------
# ownership of LOADED models: a forest with one to three roots saved (XMI / JSON, positional or uuid) and loaded into a
# fresh resource set, then edited: every object has exactly one owner (a containment slot or one resource's root list)
# and eResource says where it is (oracle on the implementation only; the kernel model has no files)

def loaded_scenarios(ctx, out):
    import os
    import tempfile
    from harness import common
    common.use_repo()
    from pyecore import ecore as E
    from pyecore.resources import ResourceSet, URI
    from pyecore.resources.json import JsonResource
    rng = common.rng_for(ctx.seed, 'C02:loaded')
    n = 40 if ctx.tier != 'thorough' else 800
    cnt = 0
    for it in range(n):
        fmt = rng.choice(['xmi', 'json'])
        uuid = rng.random() < 0.4
        pkg = E.EPackage('p', nsURI=f'http://verif/c02/loaded/{it}', nsPrefix='p')
        N = E.EClass('N')
        N.eStructuralFeatures.append(E.EAttribute('name', E.EString))
        N.eStructuralFeatures.append(E.EReference('kids', N, upper=-1, containment=True))
        N.eStructuralFeatures.append(E.EReference('one', N, containment=True))
        pkg.eClassifiers.append(N)

        def new_rset():
            rs = ResourceSet()
            rs.metamodel_registry[pkg.nsURI] = pkg
            rs.resource_factory['json'] = lambda uri: JsonResource(uri)
            return rs
        count = [0]

        def mk(d):
            o = N(name=f'n{count[0]}')
            count[0] += 1
            if d < 2:
                for _ in range(rng.randrange(0, 3)):
                    o.kids.append(mk(d + 1))
                if rng.random() < 0.3:
                    o.one = mk(d + 1)
            return o
        nroots = rng.choice([1, 2, 2, 3])
        hist = [['format', fmt, 'uuid', uuid, 'roots', nroots]]
        case = {'scenario': 'loaded', 'seed': ctx.seed, 'tier': ctx.tier, 'history': hist}
        with tempfile.TemporaryDirectory() as tmp:
            try:
                rs = new_rset()
                res = rs.create_resource(URI(os.path.join(tmp, 'm.' + fmt)))
                res.use_uuid = uuid
                for _ in range(nroots):
                    res.append(mk(0))
                res.save()
                rs2 = new_rset()
                r1 = rs2.get_resource(URI(os.path.join(tmp, 'm.' + fmt)))
                r2 = rs2.create_resource(URI(os.path.join(tmp, 'other.' + fmt)))
                objs = [o for r in r1.contents for o in [r] + list(r.eAllContents())]

                def verdict():
                    for q in objs:
                        for x in list(q.kids) + ([q.one] if q.one is not None else []):
                            if x.eContainer() is not q:
                                cx = x.eContainer()
                                return 'slot-without-container', (f'{q.name} holds {x.name} in a containment slot but {x.name}.eContainer() is '
                                                                  f'{cx.name if cx is not None else None}')
                    for o in objs:
                        listed = [r for r in (r1, r2) for x in r.contents if x is o]
                        c = o.eContainer()
                        held = c is not None and any(x is o for f in ('kids',) for x in c.kids) or (c is not None and c.one is o)
                        if len(listed) > 1:
                            return 'two-owners', f'{o.name} is a root of {len(listed)} resource lists'
                        if listed and c is not None:
                            return 'two-owners', f'{o.name} is a root of a resource and contained in {c.name}'
                        if c is not None and not held:
                            return 'container-without-slot', f'{o.name} names {c.name} as its container but no containment slot of it holds it'
                        top = o
                        while top.eContainer() is not None:
                            top = top.eContainer()
                        where = [r for r in (r1, r2) if any(x is top for x in r.contents)]
                        want = where[0] if where else None
                        if o.eResource is not want:
                            return 'eresource', (f'{o.name}.eResource is {getattr(getattr(o.eResource, "uri", None), "plain", o.eResource)!s} but its root {top.name} is '
                                                 f'{"in " + os.path.basename(want.uri.plain) if want else "in no resource"}')
                    return None
                bad = verdict()
                for step in range(rng.randrange(2, 7)):
                    if bad:
                        break
                    o = rng.choice(objs)
                    k = rng.choice(['to-other', 'to-first', 'contain', 'release', 'rremove', 'copy-edit', 'delslice', 'delslice'])
                    try:
                        if k == 'to-other':
                            r2.append(o)
                        elif k == 'to-first':
                            r1.append(o)
                        elif k == 'contain':
                            p = rng.choice(objs)
                            a, cyc = p, False
                            while a is not None:
                                cyc = cyc or a is o
                                a = a.eContainer()
                            if cyc:
                                continue
                            if rng.random() < 0.7:
                                p.kids.append(o)
                            else:
                                p.one = o
                            hist.append([k, o.name, p.name])
                        elif k == 'release':
                            c = o.eContainer()
                            if c is None:
                                continue
                            if c.one is o:
                                c.one = None
                            else:
                                c.kids.remove(o)
                        elif k == 'copy-edit':
                            # a COPY of a containment collection (copy() / the full slice) is a detached value: editing it
                            # changes nobody's ownership
                            cp = o.kids.copy() if rng.random() < 0.5 else o.kids[:]
                            other = rng.choice(objs)
                            try:
                                if len(cp) and rng.random() < 0.5:
                                    cp.pop() if rng.random() < 0.5 else cp.remove(list(cp)[0])
                                elif hasattr(cp, 'append'):
                                    cp.append(other)
                                else:
                                    cp.add(other)
                            except Exception:  # noqa
                                pass
                        elif k == 'delslice':
                            # removal by slice: either refused with nothing changed, or the children are released
                            big = [q for q in objs if len(q.kids) >= 2]
                            o = rng.choice(big) if big else o
                            try:
                                if rng.random() < 0.5:
                                    del o.kids[1:3]
                                else:
                                    del o.kids[0:1]
                            except Exception:  # noqa
                                pass
                        elif k == 'rremove':
                            rr = o.eResource
                            if rr is None or not any(x is o for x in rr.contents):
                                continue
                            rr.remove(o)
                        if k != 'contain':
                            hist.append([k, o.name])
                    except Exception as e:  # noqa
                        hist.append([k, o.name, type(e).__name__])
                        bad = ('edit-raised', f'{k} {o.name}: {type(e).__name__}: {e}')
                        break
                    cnt += 1
                    bad = verdict()
                if bad:
                    out.fail({'property': 'C02', 'clause': bad[0], 'scenario': 'loaded', 'format': fmt},
                             f'after {hist[-1]}: {bad[1]}', case)
            except Exception as e:  # noqa
                out.fail({'property': 'C02', 'clause': 'loaded-raised', 'scenario': 'loaded', 'format': fmt},
                         f'{type(e).__name__}: {e}', case)
    out.coverage['loaded_model_edits_checked'] = cnt


_kernel_run = run
_kernel_replay = replay


def run(ctx, out):   # noqa: F811
    _kernel_run(ctx, out)
    loaded_scenarios(ctx, out)


def replay(ctx, rep):   # noqa: F811
    if rep.get('case', {}).get('scenario') == 'loaded':
        from harness import common
        return common.scenario_replay(ctx, rep, {'loaded': loaded_scenarios})
    return _kernel_replay(ctx, rep)


# ---------------------------------------------------------------------------
# model classes that compare by VALUE (static classes with __eq__/__hash__ on a name): a child moved between two
# distinct but equal parents, an object equal to a root of its resource given a container: one owner each, by identity

def value_equal_scenarios(ctx, out):
    from harness import common
    common.use_repo()
    from pyecore import ecore as E
    from pyecore.resources import ResourceSet, URI
    rng = common.rng_for(ctx.seed, 'C02:valueeq')
    n = 150 if ctx.tier != 'thorough' else 2000
    cnt = 0

    @E.EMetaclass
    class VFolder(object):
        name = E.EAttribute(eType=E.EString)
        subs = E.EReference(upper=-1, containment=True)
        one = E.EReference(containment=True)

        def __init__(self, name=None, **kw):
            self.name = name

        def __eq__(self, o):
            return isinstance(o, VFolder) and self.name == o.name

        def __hash__(self):
            return hash(self.name)
    VFolder.subs.eType = VFolder
    VFolder.one.eType = VFolder
    for it in range(n):
        rs = ResourceSet()
        res = [rs.create_resource(URI(f'/nonexistent/ve{i}.xmi')) for i in range(2)]
        objs = [VFolder(rng.choice(['a', 'b', 'c'])) for _ in range(7)]
        hist = [['names', [o.name for o in objs]]]
        bad = None
        for step in range(rng.randrange(3, 10)):
            i, j = rng.randrange(7), rng.randrange(7)
            k = rng.choice(['append', 'append', 'set', 'rappend', 'rappend', 'rappend', 'remove'])
            o, p = objs[i], objs[j]
            try:
                if k in ('append', 'set'):
                    a, cyc = p, False
                    while a is not None:
                        cyc = cyc or a is o
                        a = a.eContainer()
                    if cyc:
                        continue
                    if k == 'append':
                        if any(x == o and x is not o for x in p.subs):
                            continue      # an EQUAL sibling: unique collections are equality-based by design
                        p.subs.append(o)
                    else:
                        p.one = o
                elif k == 'rappend':
                    r = res[j % 2]
                    r.append(o)          # (equal twins may be roots of one resource: a root list is a plain list)
                else:
                    c = o.eContainer()
                    if c is None:
                        continue
                    if c.one is o:
                        c.one = None
                    else:
                        idx = next(t for t, x in enumerate(c.subs) if x is o)
                        c.subs.pop(idx)
                hist.append([k, i, j])
            except Exception as e:  # noqa
                hist.append([k, i, j, type(e).__name__])
                bad = ('edit-raised', f'{k} obj{i} obj{j}: {type(e).__name__}: {e}')
                break
            cnt += 1
            for t, x in enumerate(objs):
                slots = [(u, 'subs') for u, q in enumerate(objs) for y in q.subs if y is x] + \
                        [(u, 'one') for u, q in enumerate(objs) if q.one is x]
                roots = [u for u, r in enumerate(res) for y in r.contents if y is x]
                c = x.eContainer()
                if len(slots) + len(roots) > 1:
                    bad = ('two-owners', f'obj{t} ({x.name}) is held by slots {slots} and listed by resources {roots}')
                elif slots and (c is None or c is not objs[slots[0][0]]):
                    bad = ('container-mismatch', f'obj{t} sits in obj{slots[0][0]}.{slots[0][1]} but eContainer() is '
                                                 f'{"None" if c is None else "obj" + str(next(u for u, q in enumerate(objs) if q is c))}')
                elif not slots and c is not None:
                    bad = ('container-without-slot', f'obj{t} names a container but no slot holds it')
                elif roots and x._eresource is not res[roots[0]]:
                    bad = ('root-without-resource', f'obj{t} is listed by resource {roots[0]} but does not point to it')
                if bad:
                    break
            if bad:
                break
        if bad:
            out.fail({'property': 'C02', 'clause': bad[0], 'scenario': 'valueeq'}, f'after {hist[-1]}: {bad[1]}',
                     {'scenario': 'valueeq', 'seed': ctx.seed, 'tier': ctx.tier, 'history': hist})
    out.coverage['value_equal_ownership_edits'] = cnt


_run_l = run
_replay_l = replay


def run(ctx, out):   # noqa: F811
    _run_l(ctx, out)
    value_equal_scenarios(ctx, out)


def replay(ctx, rep):   # noqa: F811
    if rep.get('case', {}).get('scenario') == 'valueeq':
        from harness import common
        return common.scenario_replay(ctx, rep, {'valueeq': value_equal_scenarios})
    return _replay_l(ctx, rep)


# ---------------------------------------------------------------------------
# a ROOT of a resource, however it became one (read from an XMI or a JSON document, appended, extended, inserted by a
# second load into the same set), is given a new owner as the FIRST thing that happens to it: a containment slot of an
# object outside every resource, of a root of another resource, of a sibling root or of a sibling's descendant, or the
# root list of another resource. One owner afterwards (the root list lets go of it), eContainer()/eResource say so, for
# the object and for its descendants (oracle on the implementation only)

def root_origin_scenarios(ctx, out):
    import os
    import tempfile
    from harness import common
    common.use_repo()
    from pyecore import ecore as E
    from pyecore.resources import ResourceSet, URI
    from pyecore.resources.json import JsonResource
    rng = common.rng_for(ctx.seed, 'C02:rootorigin')
    n = 120 if ctx.tier != 'thorough' else 2500
    cnt = 0
    by_origin = {}
    for it in range(n):
        origin = rng.choice(['xmi', 'xmi', 'xmi', 'json', 'json', 'appended', 'extended'])
        uuid = rng.random() < 0.4
        pkg = E.EPackage('p', nsURI=f'http://verif/c02/rootorigin/{it}', nsPrefix='p')
        N = E.EClass('N')
        N.eStructuralFeatures.append(E.EAttribute('name', E.EString))
        N.eStructuralFeatures.append(E.EReference('kids', N, upper=-1, containment=True))
        N.eStructuralFeatures.append(E.EReference('one', N, containment=True))
        pkg.eClassifiers.append(N)

        def new_rset():
            rs = ResourceSet()
            rs.metamodel_registry[pkg.nsURI] = pkg
            rs.resource_factory['json'] = lambda uri: JsonResource(uri)
            return rs
        count = [0]

        def mk(d, prefix='n'):
            o = N(name=f'{prefix}{count[0]}')
            count[0] += 1
            if d < 2:
                for _ in range(rng.randrange(0, 3)):
                    o.kids.append(mk(d + 1, prefix))
                if rng.random() < 0.3:
                    o.one = mk(d + 1, prefix)
            return o
        nroots = rng.choice([1, 2, 2, 3, 4])
        hist = [['origin', origin, 'uuid', uuid, 'roots', nroots]]
        case = {'scenario': 'rootorigin', 'seed': ctx.seed, 'tier': ctx.tier, 'history': hist}
        sig = {'property': 'C02', 'scenario': 'rootorigin', 'origin': origin}
        with tempfile.TemporaryDirectory() as tmp:
            try:
                ext = origin if origin in ('xmi', 'json') else rng.choice(['xmi', 'json'])
                rs2 = new_rset()
                if origin in ('xmi', 'json'):
                    rs = new_rset()
                    res = rs.create_resource(URI(os.path.join(tmp, 'm.' + ext)))
                    res.use_uuid = uuid
                    for _ in range(nroots):
                        res.append(mk(0))
                    res.save()
                    r1 = rs2.get_resource(URI(os.path.join(tmp, 'm.' + ext)))
                else:
                    r1 = rs2.create_resource(URI(os.path.join(tmp, 'm.' + ext)))
                    made = [mk(0) for _ in range(nroots)]
                    if origin == 'appended':
                        for m in made:
                            r1.append(m)
                    else:
                        r1.extend(made)
                r2 = rs2.create_resource(URI(os.path.join(tmp, 'other.' + ext)))
                if len(r1.contents) != nroots:
                    out.fail(dict(sig, clause='root-count'), f'{nroots} roots were put in, the resource lists {len(r1.contents)}', case)
                    continue
                # holders: h0/h1 outside every resource (h1 below h0), h2 a root of the other resource, h3 below it
                hold = [N(name=f'h{i}') for i in range(4)]
                hold[0].kids.append(hold[1])
                r2.append(hold[2])
                hold[2].kids.append(hold[3])
                objs = [o for r in r1.contents for o in [r] + list(r.eAllContents())] + hold
                ress = (r1, r2)

                def verdict():
                    for q in objs:
                        for x in list(q.kids) + ([q.one] if q.one is not None else []):
                            if x.eContainer() is not q:
                                cx = x.eContainer()
                                return 'slot-without-container', (f'{q.name} holds {x.name} in a containment slot but {x.name}.eContainer() is '
                                                                  f'{cx.name if cx is not None else None}')
                    for o in objs:
                        listed = [r for r in ress for x in r.contents if x is o]
                        slots = [(q.name, 'kids') for q in objs for x in q.kids if x is o] + [(q.name, 'one') for q in objs if q.one is o]
                        c = o.eContainer()
                        if len(listed) + len(slots) > 1:
                            return 'two-owners', (f'{o.name} is listed as a root by {[os.path.basename(r.uri.plain) for r in listed]} and held by '
                                                  f'the containment slots {slots}')
                        if c is not None and not slots:
                            return 'container-without-slot', f'{o.name} names {c.name} as its container but no containment slot holds it'
                        if slots:
                            f = o.eContainmentFeature()
                            if c is None or c.name != slots[0][0] or f is None or f.name != slots[0][1]:
                                return 'container-mismatch', (f'{o.name} sits in {slots[0][0]}.{slots[0][1]} but names '
                                                              f'{c.name if c is not None else None}.{f.name if f is not None else None}')
                        elif o.eContainmentFeature() is not None:
                            return 'feature-without-slot', f'{o.name} has no container slot but eContainmentFeature() is {o.eContainmentFeature().name}'
                        top, guard = o, 0
                        while top.eContainer() is not None and guard < 100:
                            top, guard = top.eContainer(), guard + 1
                        where = [r for r in ress if any(x is top for x in r.contents)]
                        want = where[0] if where else None
                        if o.eResource is not want:
                            got = o.eResource
                            return 'eresource', (f'{o.name}.eResource is {os.path.basename(got.uri.plain) if got is not None else None} but its root '
                                                 f'{top.name} is {"in " + os.path.basename(want.uri.plain) if want else "in no resource"}')
                    return None
                bad = verdict()
                if bad:
                    out.fail(dict(sig, clause=bad[0]), f'right after {hist[-1]}: {bad[1]}', case)
                    continue
                untouched = list(r1.contents)       # roots still in the state their origin left them in
                for step in range(rng.randrange(1, 5)):
                    if untouched and rng.random() < 0.8:
                        o = untouched.pop(rng.randrange(len(untouched)))
                        fresh = True
                    else:
                        o = rng.choice(objs[:-4])
                        fresh = False
                        untouched = [x for x in untouched if x is not o]
                    k = rng.choice(['hold-out', 'hold-out', 'hold-other', 'under', 'under', 'to-other', 'rremove', 'again'])
                    try:
                        if k in ('hold-out', 'hold-other', 'under'):
                            if k == 'hold-out':
                                p = rng.choice(hold[:2])
                            elif k == 'hold-other':
                                p = rng.choice(hold[2:])
                            else:
                                p = rng.choice(objs[:-4])
                            a, cyc = p, False
                            while a is not None:
                                cyc = cyc or a is o
                                a = a.eContainer()
                            if cyc:
                                continue
                            slot = 'kids' if rng.random() < 0.65 else 'one'
                            hist.append([k, o.name, p.name, slot])
                            if slot == 'kids':
                                p.kids.append(o)
                            else:
                                p.one = o
                        elif k == 'to-other':
                            hist.append([k, o.name])
                            r2.append(o)
                        elif k == 'again':
                            hist.append([k, o.name])
                            r1.append(o)           # (a root of r1 stays where it is; anything else becomes its last root)
                        else:
                            if not any(x is o for x in r1.contents):
                                continue
                            hist.append([k, o.name])
                            r1.remove(o)
                    except Exception as e:  # noqa
                        bad = ('edit-raised', f'{type(e).__name__}: {e}')
                        break
                    cnt += 1
                    if fresh:
                        by_origin[origin] = by_origin.get(origin, 0) + 1
                    bad = verdict()
                    if bad:
                        break
                if bad:
                    out.fail(dict(sig, clause=bad[0]), f'after {hist[-1]}: {bad[1]}', case)
            except Exception as e:  # noqa
                out.fail(dict(sig, clause='rootorigin-raised'), f'{type(e).__name__}: {e}', case)
    out.coverage['root_origin_edits_checked'] = cnt
    out.coverage['root_origin_first_edits'] = dict(sorted(by_origin.items()))


_run_v = run
_replay_v = replay


def run(ctx, out):   # noqa: F811
    _run_v(ctx, out)
    root_origin_scenarios(ctx, out)


def replay(ctx, rep):   # noqa: F811
    if rep.get('case', {}).get('scenario') == 'rootorigin':
        from harness import common
        return common.scenario_replay(ctx, rep, {'rootorigin': root_origin_scenarios})
    return _replay_v(ctx, rep)
