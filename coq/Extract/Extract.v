(* Extraction of the executable models (trusted base: ExtrOcamlBasic only;
   Z, positive and nat stay extracted inductive datatypes). *)
From Coq Require Import ExtrOcamlBasic.
From PyecoreV Require Import Model.Coll Model.KernelIO Model.Commands Model.SaveFsIO Model.DataConv.
Extraction "modelgen.ml" run_coll run_kernel run_commands run_savefs run_dataconv.
