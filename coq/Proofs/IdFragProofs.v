(* Proofs about Model/IdFrag.v: the id half of C11.
   WF  : ids are pairwise distinct over all objects, below the uuid4 counter, members listed once
   Inv : every id an object carries (uuid or id-attribute text) is bound to that object in uuid_dict
   T1 resolve_back, T2 fragments_distinct (in any state with Inv), load/reload establish Inv,
   T3 histories, T4 refutations (old JSON loader; _assign_uuid without registration; stale id attribute). *)
From Coq Require Import ZArith List Bool Lia.
From PyecoreV Require Import Model.IdFrag.
Import ListNotations.
Local Open Scope Z_scope.

Lemma upd_same : forall A (f : obj -> A) o v, upd f o v o = v.
Proof. intros. unfold upd. rewrite Nat.eqb_refl. reflexivity. Qed.

Lemma upd_other : forall A (f : obj -> A) o v x, x <> o -> upd f o v x = f x.
Proof. intros. unfold upd. destruct (Nat.eqb x o) eqn:E; [apply Nat.eqb_eq in E; contradiction | reflexivity]. Qed.

Lemma mem_In : forall o l, mem o l = true <-> In o l.
Proof.
  induction l as [|x r IH]; simpl; [split; [discriminate | tauto]|].
  rewrite orb_true_iff, IH, Nat.eqb_eq. tauto.
Qed.

Lemma lookup_cons_eq : forall z o d, lookup z ((z, o) :: d) = Some o.
Proof. intros. simpl. rewrite Z.eqb_refl. reflexivity. Qed.

Lemma lookup_cons_neq : forall z k o d, k <> z -> lookup z ((k, o) :: d) = lookup z d.
Proof. intros. simpl. destruct (Z.eqb k z) eqn:E; [apply Z.eqb_eq in E; contradiction | reflexivity]. Qed.

Definition owns (s : state) (o : obj) (z : Z) : Prop := internal s o = Some z \/ idattr s o = Some z.

Record WF (s : state) : Prop := mkWF {
  wf_nodup : NoDup (members s);
  wf_dist : forall o1 o2 z, owns s o1 z -> owns s o2 z -> o1 = o2;
  wf_below : forall o z, owns s o z -> z < next_fresh s;
  wf_dict : forall z o, lookup z (dict s) = Some o -> z < next_fresh s
}.

(* for every object the model knows, member or not (a removed object stays registered, resource.py:655-657) *)
Definition Inv (s : state) : Prop :=
  forall o z, owns s o z -> lookup z (dict s) = Some o.

Lemma WF_init : forall n, WF (init n).
Proof.
  intro n. split; simpl; try (intros; discriminate).
  - constructor.
  - intros o1 o2 z [H|H]; discriminate.
  - intros o z [H|H]; discriminate.
Qed.

Lemma Inv_init : forall n, Inv (init n).
Proof. intros n o z [H|H]; discriminate. Qed.

(* ---- T1 / T2 in a state where Inv holds *)
Theorem resolve_back : forall s o, Inv s -> In o (members s) -> resolve s (fragment_of s o) = Some o.
Proof.
  intros s o HI Hin. unfold fragment_of.
  assert (Hm : mem o (members s) = true) by (apply mem_In; exact Hin).
  destruct (use_uuid s) eqn:U.
  - destruct (internal s o) as [i|] eqn:E; simpl.
    + rewrite (HI o i (or_introl E)), U. reflexivity.
    + rewrite Hm. reflexivity.
  - destruct (idattr s o) as [t|] eqn:E; simpl.
    + rewrite (HI o t (or_intror E)), U.
      destruct (members s); [inversion Hin | reflexivity].
    + rewrite Hm. reflexivity.
Qed.

Theorem resolves_back_true : forall s o, Inv s -> In o (members s) -> resolves_back s o = true.
Proof. intros. unfold resolves_back. rewrite resolve_back by assumption. apply Nat.eqb_refl. Qed.

Theorem fragments_distinct : forall s o1 o2, Inv s -> In o1 (members s) -> In o2 (members s) ->
  fragment_of s o1 = fragment_of s o2 -> o1 = o2.
Proof.
  intros s o1 o2 HI H1 H2 E.
  pose proof (resolve_back s o1 HI H1) as R1. pose proof (resolve_back s o2 HI H2) as R2.
  rewrite E in R1. rewrite R1 in R2. inversion R2. reflexivity.
Qed.

(* ---- one generic step: s' gives the object o some ids `news` (and nobody anything else) *)
Section Extension.
  Variables (s s' : state) (o : obj) (news : list Z).
  Hypothesis Howns : forall x z, owns s' x z -> owns s x z \/ (x = o /\ In z news).
  Hypothesis Hnf : next_fresh s <= next_fresh s'.
  Hypothesis Hnew_below : forall z, In z news -> z < next_fresh s'.
  Hypothesis Hnew_free : forall z x, In z news -> owns s x z -> x = o.
  Hypothesis Hdict : forall z x, lookup z (dict s') = Some x -> lookup z (dict s) = Some x \/ In z news.
  Hypothesis Hmem : NoDup (members s').

  Lemma WF_ext : WF s -> WF s'.
  Proof.
    intros [_ D B K]. split; [exact Hmem | | |].
    - intros o1 o2 z H1 H2.
      destruct (Howns _ _ H1) as [A1|[A1 N1]]; destruct (Howns _ _ H2) as [A2|[A2 N2]].
      + eapply D; eassumption.
      + subst o2. eapply Hnew_free; eassumption.
      + subst o1. symmetry. eapply Hnew_free; eassumption.
      + congruence.
    - intros x z H. destruct (Howns _ _ H) as [A|[_ N]]; [specialize (B _ _ A); lia | auto].
    - intros z x H. destruct (Hdict _ _ H) as [A|N]; [specialize (K _ _ A); lia | auto].
  Qed.

  Hypothesis Hreg_new : forall z, In z news -> lookup z (dict s') = Some o.
  Hypothesis Hreg_old : forall z, ~ In z news -> lookup z (dict s') = lookup z (dict s).

  Lemma Inv_ext : Inv s -> Inv s'.
  Proof.
    intros HI x z H.
    destruct (in_dec Z.eq_dec z news) as [N|N].
    - rewrite (Hreg_new _ N). f_equal.
      destruct (Howns _ _ H) as [A|[A _]]; [symmetry; eapply Hnew_free; eassumption | congruence].
    - rewrite (Hreg_old _ N). destruct (Howns _ _ H) as [A|[_ A]]; [auto | contradiction].
  Qed.
End Extension.

(* ---- _assign_uuid *)
Lemma assign_noop : forall v s o i, internal s o = Some i -> assign v s o = s.
Proof. intros. unfold assign. rewrite H. reflexivity. Qed.

Lemma owns_assign : forall v s o x z, internal s o = None ->
  owns (assign v s o) x z -> owns s x z \/ (x = o /\ In z [next_fresh s]).
Proof.
  intros v s o x z E. unfold assign, owns. rewrite E. simpl.
  destruct (Nat.eq_dec x o) as [->|N].
  - rewrite upd_same. intros [H|H]; [inversion H; right; auto | left; right; exact H].
  - rewrite upd_other by exact N. intro H. left. exact H.
Qed.

Lemma WF_assign : forall v s o, WF s -> WF (assign v s o).
Proof.
  intros v s o W. destruct (internal s o) as [i|] eqn:E; [rewrite (assign_noop _ _ _ _ E); exact W|].
  apply (WF_ext s (assign v s o) o [next_fresh s]); try exact W.
  - intros x z. apply owns_assign. exact E.
  - unfold assign. rewrite E. simpl. lia.
  - intros z [<-|[]]. unfold assign. rewrite E. simpl. lia.
  - intros z x [<-|[]] H. pose proof (wf_below s W _ _ H). lia.
  - intros z x. unfold assign. rewrite E. simpl. destruct (assign_registers v); [|auto].
    simpl. destruct (Z.eqb (next_fresh s) z) eqn:Q; [apply Z.eqb_eq in Q; right; left; exact Q | auto].
  - unfold assign. rewrite E. simpl. apply (wf_nodup s W).
Qed.

Lemma Inv_assign_reg : forall v s o, assign_registers v = true -> WF s -> Inv s -> Inv (assign v s o).
Proof.
  intros v s o R W HI. destruct (internal s o) as [i|] eqn:E; [rewrite (assign_noop _ _ _ _ E); exact HI|].
  apply (Inv_ext s (assign v s o) o [next_fresh s]); try exact HI.
  - intros x z. apply owns_assign. exact E.
  - intros z x [<-|[]] H. pose proof (wf_below s W _ _ H). lia.
  - intros z [<-|[]]. unfold assign. rewrite E, R. simpl. apply lookup_cons_eq.
  - intros z N. unfold assign. rewrite E, R. simpl. apply lookup_cons_neq. intro Q. apply N. left. exact Q.
Qed.

(* ---- save *)
Lemma assign_fields : forall v s o,
  members (assign v s o) = members s /\ use_uuid (assign v s o) = use_uuid s /\
  idattr (assign v s o) = idattr s /\ next_fresh s <= next_fresh (assign v s o).
Proof. intros. unfold assign. destruct (internal s o); simpl; repeat split; lia. Qed.

Lemma assign_keeps : forall v s x o i, internal s o = Some i -> internal (assign v s x) o = Some i.
Proof.
  intros v s x o i H. unfold assign. destruct (internal s x) eqn:E; [exact H|]. simpl.
  destruct (Nat.eq_dec o x) as [->|N]; [congruence | rewrite upd_other by exact N; exact H].
Qed.

Lemma assign_has : forall v s o, exists i, internal (assign v s o) o = Some i.
Proof.
  intros. unfold assign. destruct (internal s o) as [i|] eqn:E; [exists i; exact E|].
  simpl. rewrite upd_same. eexists. reflexivity.
Qed.

Lemma WF_save_members : forall v l s, WF s -> WF (fst (save_members v s l)).
Proof.
  induction l as [|o r IH]; intros s W; simpl; [exact W|].
  set (s1 := if use_uuid s then assign v s o else s).
  assert (W1 : WF s1) by (unfold s1; destruct (use_uuid s); [apply WF_assign|]; exact W).
  specialize (IH s1 W1). destruct (save_members v s1 r). exact IH.
Qed.

Lemma Inv_save_members_reg : forall v l s, assign_registers v = true -> WF s -> Inv s ->
  Inv (fst (save_members v s l)).
Proof.
  induction l as [|o r IH]; intros s R W HI; simpl; [exact HI|].
  set (s1 := if use_uuid s then assign v s o else s).
  assert (W1 : WF s1) by (unfold s1; destruct (use_uuid s); [apply WF_assign|]; exact W).
  assert (I1 : Inv s1) by (unfold s1; destruct (use_uuid s); [apply Inv_assign_reg|]; assumption).
  specialize (IH s1 R W1 I1). destruct (save_members v s1 r). exact IH.
Qed.

(* a save that draws nothing changes nothing *)
Definition no_draw (s : state) (l : list obj) : Prop :=
  use_uuid s = false \/ forall o, In o l -> internal s o <> None.

Lemma save_members_quiet : forall v l s, no_draw s l -> fst (save_members v s l) = s.
Proof.
  induction l as [|o r IH]; intros s Q; simpl; [reflexivity|].
  assert (E : (if use_uuid s then assign v s o else s) = s).
  { destruct Q as [U|A]; [rewrite U; reflexivity|]. destruct (use_uuid s); [|reflexivity].
    destruct (internal s o) as [i|] eqn:I; [apply (assign_noop _ _ _ _ I) | exfalso; apply (A o); [left; reflexivity | exact I]]. }
  rewrite E. assert (Q' : no_draw s r) by (destruct Q as [U|A]; [left; exact U | right; intros x Hx; apply A; right; exact Hx]).
  specialize (IH s Q'). destruct (save_members v s r). exact IH.
Qed.

(* ---- load: one entry *)
Definition ob (e : entry) : obj := fst (fst e).
Definition opt (x : option Z) : list Z := match x with Some z => [z] | None => [] end.
Definition eids (e : entry) : list Z := opt (snd (fst e)) ++ opt (snd e).
Definition ids (d : doc) : list Z := flat_map eids d.

Lemma load_entry_fields : forall v s e,
  members (load_entry v s e) = members s ++ [ob e] /\
  next_fresh (load_entry v s e) = next_fresh s /\ use_uuid (load_entry v s e) = use_uuid s.
Proof. intros v s [[o u] t]. destruct u, t; simpl; auto. Qed.

Lemma load_entry_owns : forall v s e x z,
  owns (load_entry v s e) x z -> owns s x z \/ (x = ob e /\ In z (eids e)).
Proof.
  intros v s [[o u] t] x z. unfold owns, eids, ob. simpl.
  destruct (Nat.eq_dec x o) as [->|N].
  - destruct u as [i|], t as [y|]; destruct (loader_sets_internal v); simpl;
      repeat rewrite upd_same; intros [H|H]; try (inversion H; subst; right; split; [reflexivity | simpl; tauto]);
      tauto.
  - destruct u as [i|], t as [y|]; destruct (loader_sets_internal v); simpl;
      repeat rewrite (upd_other _ _ _ _ _ N); tauto.
Qed.

Lemma load_entry_new : forall v s e z, In z (eids e) -> lookup z (dict (load_entry v s e)) = Some (ob e).
Proof.
  intros v s [[o u] t] z. unfold eids, ob. simpl.
  destruct u as [i|], t as [y|]; simpl; intros H; try tauto.
  - destruct (Z.eqb y z) eqn:Q; [reflexivity|]. destruct H as [<-|[<-|[]]].
    + rewrite Z.eqb_refl. reflexivity.
    + rewrite Z.eqb_refl in Q. discriminate.
  - destruct H as [<-|[]]. rewrite Z.eqb_refl. reflexivity.
  - destruct H as [<-|[]]. rewrite Z.eqb_refl. reflexivity.
Qed.

Lemma load_entry_old : forall v s e z, ~ In z (eids e) -> lookup z (dict (load_entry v s e)) = lookup z (dict s).
Proof.
  intros v s [[o u] t] z. unfold eids. simpl.
  destruct u as [i|], t as [y|]; simpl; intros H; try reflexivity.
  - destruct (Z.eqb y z) eqn:Q; [apply Z.eqb_eq in Q; tauto|].
    destruct (Z.eqb i z) eqn:Q2; [apply Z.eqb_eq in Q2; tauto | reflexivity].
  - destruct (Z.eqb i z) eqn:Q2; [apply Z.eqb_eq in Q2; tauto | reflexivity].
  - destruct (Z.eqb y z) eqn:Q; [apply Z.eqb_eq in Q; tauto | reflexivity].
Qed.

Definition entry_ok (s : state) (e : entry) : Prop :=
  ~ In (ob e) (members s) /\
  forall z, In z (eids e) -> z < next_fresh s /\ forall x, owns s x z -> x = ob e.

Lemma NoDup_snoc : forall (l : list obj) o, NoDup l -> ~ In o l -> NoDup (l ++ [o]).
Proof.
  induction l as [|x r IH]; intros o N H; simpl; [constructor; [tauto | constructor]|].
  inversion N; subst. constructor.
  - rewrite in_app_iff. simpl. intros [A|[A|[]]]; [contradiction | subst; apply H; left; reflexivity].
  - apply IH; [assumption | intro A; apply H; right; exact A].
Qed.

Lemma lookup_dec_new : forall v s e z x, lookup z (dict (load_entry v s e)) = Some x ->
  lookup z (dict s) = Some x \/ In z (eids e).
Proof.
  intros v s e z x H. destruct (in_dec Z.eq_dec z (eids e)) as [I|N]; [right; exact I|].
  left. rewrite <- (load_entry_old v s e z N). exact H.
Qed.

Lemma WF_load_entry : forall v s e, WF s -> entry_ok s e -> WF (load_entry v s e).
Proof.
  intros v s e W [Hm Hz]. destruct (load_entry_fields v s e) as [Fm [Fn _]].
  apply (WF_ext s (load_entry v s e) (ob e) (eids e)); try exact W.
  - apply load_entry_owns.
  - rewrite Fn. lia.
  - intros z I. rewrite Fn. apply (Hz z I).
  - intros z x I. apply (Hz z I).
  - apply lookup_dec_new.
  - rewrite Fm. apply NoDup_snoc; [apply (wf_nodup s W) | exact Hm].
Qed.

Lemma Inv_load_entry : forall v s e, Inv s -> entry_ok s e -> Inv (load_entry v s e).
Proof.
  intros v s e HI [Hm Hz].
  apply (Inv_ext s (load_entry v s e) (ob e) (eids e)); try exact HI.
  - apply load_entry_owns.
  - intros z x I. apply (Hz z I).
  - apply load_entry_new.
  - apply load_entry_old.
Qed.

(* ---- load: the whole document.  load_ok is the visible form of "the ids of a loaded document are pairwise
   distinct, were never drawn later than the counter and belong to nobody yet; its objects are new" *)
Definition load_ok (s : state) (d : doc) : Prop :=
  NoDup (map ob d) /\
  (forall e1 e2 z, In e1 d -> In e2 d -> In z (eids e1) -> In z (eids e2) -> ob e1 = ob e2) /\
  (forall e, In e d -> ~ In (ob e) (members s)) /\
  (forall z, In z (ids d) -> z < next_fresh s /\ forall x, ~ owns s x z).

Lemma load_ok_step : forall v s e r, load_ok s (e :: r) -> entry_ok s e /\ load_ok (load_entry v s e) r.
Proof.
  intros v s e r [No [Fu [Hm Hz]]]. simpl in No. inversion No as [|? ? NoH NoT]; subst.
  destruct (load_entry_fields v s e) as [Fm [Fn _]].
  split; [split|split; [|split; [|split]]].
  - apply Hm. left. reflexivity.
  - intros z I. assert (J : In z (ids (e :: r))) by (simpl; apply in_or_app; left; exact I).
    destruct (Hz z J) as [B F]. split; [exact B | intros x O; exfalso; exact (F x O)].
  - exact NoT.
  - intros e1 e2 z I1 I2. apply Fu; right; assumption.
  - intros e' I. rewrite Fm, in_app_iff. simpl. intros [A|[A|[]]].
    + apply (Hm e'); [right; exact I | exact A].
    + apply NoH. rewrite A. apply in_map. exact I.
  - intros z I. assert (J : In z (ids (e :: r))) by (simpl; apply in_or_app; right; exact I).
    destruct (Hz z J) as [B F]. split; [rewrite Fn; exact B|].
    intros x O. destruct (load_entry_owns _ _ _ _ _ O) as [A|[_ A]]; [exact (F x A)|].
    unfold ids in I. apply in_flat_map in I. destruct I as [e' [I1 I2]].
    apply NoH. rewrite (Fu e e' z); [apply in_map; exact I1 | left; reflexivity | right; exact I1 | exact A | exact I2].
Qed.

Lemma load_fold : forall v d s, WF s -> Inv s -> load_ok s d ->
  WF (fold_left (load_entry v) d s) /\ Inv (fold_left (load_entry v) d s).
Proof.
  induction d as [|e r IH]; intros s W HI L; simpl; [split; assumption|].
  destruct (load_ok_step v s e r L) as [E L'].
  apply IH; [apply WF_load_entry | apply Inv_load_entry | exact L']; assumption.
Qed.

Definition with_members (s : state) (m : list obj) : state :=
  mkState m (internal s) (dict s) (idattr s) (use_uuid s) (next_fresh s).
Definition with_uuid (s : state) (b : bool) : state :=
  mkState (members s) (internal s) (dict s) (idattr s) b (next_fresh s).

Lemma WF_with_uuid : forall s b, WF s -> WF (with_uuid s b).
Proof. intros s b [A B C D]. split; assumption. Qed.
Lemma Inv_with_uuid : forall s b, Inv s -> Inv (with_uuid s b).
Proof. intros s b H. exact H. Qed.
Lemma WF_with_members : forall s m, NoDup m -> WF s -> WF (with_members s m).
Proof. intros s m N [A B C D]. split; assumption. Qed.
Lemma Inv_with_members : forall s m, Inv s -> Inv (with_members s m).
Proof. intros s m H. exact H. Qed.

Theorem load_WF_Inv : forall v s d, WF s -> Inv s -> load_ok s d -> WF (load v s d) /\ Inv (load v s d).
Proof.
  intros v s d W HI L. unfold load. destruct d as [|[[o u] t] r]; [simpl; split; assumption|].
  apply load_fold.
  - apply (WF_with_uuid s _ W).
  - apply (Inv_with_uuid s _ HI).
  - exact L.
Qed.

(* T1 for a load: every object of a loaded document is what its id resolves to *)
Theorem load_resolves : forall v s d o, WF s -> Inv s -> load_ok s d -> In o (members (load v s d)) ->
  resolve (load v s d) (fragment_of (load v s d) o) = Some o.
Proof. intros v s d o W HI L Hin. apply resolve_back; [apply (load_WF_Inv v s d W HI L) | exact Hin]. Qed.

(* ---- what a save writes *)
Lemma owns_assign_mono : forall v s x o z, owns s o z -> owns (assign v s x) o z.
Proof.
  intros v s x o z [H|H]; [left; apply assign_keeps; exact H|].
  right. destruct (assign_fields v s x) as [_ [_ [E _]]]. rewrite E. exact H.
Qed.

Lemma owns_save_mono : forall v l s o z, owns s o z -> owns (fst (save_members v s l)) o z.
Proof.
  induction l as [|x r IH]; intros s o z H; simpl; [exact H|].
  set (s1 := if use_uuid s then assign v s x else s).
  assert (H1 : owns s1 o z) by (unfold s1; destruct (use_uuid s); [apply owns_assign_mono|]; exact H).
  specialize (IH s1 o z H1). destruct (save_members v s1 r). exact IH.
Qed.

Lemma save_doc : forall v l s,
  map ob (snd (save_members v s l)) = l /\
  forall e z, In e (snd (save_members v s l)) -> In z (eids e) -> owns (fst (save_members v s l)) (ob e) z.
Proof.
  induction l as [|x r IH]; intros s; simpl; [split; [reflexivity | intros e z []]|].
  set (s1 := if use_uuid s then assign v s x else s).
  destruct (IH s1) as [M O]. pose proof (owns_save_mono v r s1) as Mono.
  destruct (save_members v s1 r) as [s2 d]. simpl in *. split; [f_equal; exact M|].
  intros e z [<-|I] J; [|apply O; assumption].
  apply Mono. unfold eids, ob in *. simpl in *. apply in_app_or in J. destruct J as [J|J].
  - left. destruct (use_uuid s); [|inversion J]. destruct (internal s1 x); [|inversion J].
    destruct J as [<-|[]]. reflexivity.
  - right. destruct (idattr s1 x); [|inversion J]. destruct J as [<-|[]]. reflexivity.
Qed.

Definition empty (n : Z) : state := mkState [] (fun _ => None) [] (fun _ => None) false n.

(* T1 for save + load in a fresh resource: from ANY well-formed state, whatever the variant *)
Theorem reload_WF_Inv : forall v s, WF s -> WF (step v s Reload) /\ Inv (step v s Reload).
Proof.
  intros v s W. simpl. unfold save.
  pose proof (WF_save_members v (members s) s W) as W1.
  destruct (save_doc v (members s) s) as [M O].
  destruct (save_members v s (members s)) as [s1 d]. simpl in *.
  apply (load_WF_Inv v (empty (next_fresh s1)) d).
  - apply WF_init.
  - apply Inv_init.
  - split; [rewrite M; apply (wf_nodup s W)|split; [|split]].
    + intros e1 e2 z I1 I2 J1 J2. apply (wf_dist s1 W1 _ _ z); apply O; assumption.
    + intros e _ [].
    + intros z I. unfold ids in I. apply in_flat_map in I. destruct I as [e [I1 I2]]. split.
      * apply (wf_below s1 W1 (ob e) z). apply O; assumption.
      * intros x [H|H]; discriminate.
Qed.

(* ---- every operation.  op_ok: the freshness premises (fresh_ok).  registers_or_quiet: what is needed on top
   for Inv when the drawn ids are not registered (HEAD): the operation draws no id and binds no new id text *)
Definition op_ok (s : state) (a : op) : Prop :=
  match a with
  | Load d => load_ok s d
  | SetIdAttr o (Some t) => t < next_fresh s /\ forall x, owns s x t -> x = o
  | _ => True
  end.

Definition quiet (v : variant) (s : state) (a : op) : Prop :=
  match a with
  | Save => assign_registers v = true \/ no_draw s (members s)
  | Ref o => assign_registers v = true \/ use_uuid s = false \/ internal s o <> None
  | SetIdAttr o (Some t) => lookup t (dict s) = Some o
  | _ => True
  end.

Lemma remove_obj_incl : forall o l x, In x (remove_obj o l) -> In x l.
Proof.
  induction l as [|y r IH]; simpl; intros x H; [exact H|].
  destruct (Nat.eqb y o); [right; exact H | destruct H as [H|H]; [left; exact H | right; apply IH; exact H]].
Qed.

Lemma NoDup_remove_obj : forall o l, NoDup l -> NoDup (remove_obj o l).
Proof.
  induction l as [|y r IH]; simpl; intros N; [exact N|]. inversion N; subst.
  destruct (Nat.eqb y o); [assumption|]. constructor; [intro A; apply H1; eapply remove_obj_incl; exact A | auto].
Qed.

Lemma owns_setid : forall s o t x z,
  owns (mkState (members s) (internal s) (dict s) (upd (idattr s) o t) (use_uuid s) (next_fresh s)) x z ->
  owns s x z \/ (x = o /\ In z (opt t)).
Proof.
  intros s o t x z. unfold owns. simpl. destruct (Nat.eq_dec x o) as [->|N].
  - rewrite upd_same. intros [H|H]; [left; left; exact H | right; split; [reflexivity | rewrite H; left; reflexivity]].
  - rewrite upd_other by exact N. tauto.
Qed.

Lemma WF_load_fold : forall v d s, WF s -> load_ok s d -> WF (fold_left (load_entry v) d s).
Proof.
  induction d as [|e r IH]; intros s W L; simpl; [exact W|].
  destruct (load_ok_step v s e r L) as [E L']. apply IH; [apply WF_load_entry; assumption | exact L'].
Qed.

Lemma WF_load : forall v s d, WF s -> load_ok s d -> WF (load v s d).
Proof.
  intros v s d W L. unfold load. destruct d as [|[[o u] t] r]; [exact W|].
  apply WF_load_fold; [apply (WF_with_uuid s _ W) | exact L].
Qed.

Lemma WF_step : forall v s a, WF s -> op_ok s a -> WF (step v s a).
Proof.
  intros v s a W K. destruct a as [|d| |o|o|o t|o|b]; simpl.
  - apply WF_save_members. exact W.
  - apply WF_load; assumption.
  - apply reload_WF_Inv. exact W.
  - destruct (mem o (members s)) eqn:M; [exact W|].
    apply (WF_with_members s); [|exact W]. apply NoDup_snoc; [apply (wf_nodup s W)|].
    intro A. apply mem_In in A. congruence.
  - apply (WF_with_members s); [apply NoDup_remove_obj; apply (wf_nodup s W) | exact W].
  - apply (WF_ext s _ o (opt t)); try exact W; simpl; try lia; try apply (wf_nodup s W).
    + apply owns_setid.
    + destruct t as [t|]; [|intros z []]. intros z [<-|[]]. apply K.
    + destruct t as [t|]; [|intros z x []]. intros z x [<-|[]]. apply K.
    + intros z x H. left. exact H.
  - destruct (mem o (members s)); [|exact W].
    unfold fragment_step. destruct (use_uuid s); simpl; [apply WF_assign|]; exact W.
  - apply (WF_with_uuid s b W).
Qed.

Lemma Inv_step : forall v s a, WF s -> Inv s -> op_ok s a -> quiet v s a -> Inv (step v s a).
Proof.
  intros v s a W HI K Q. destruct a as [|d| |o|o|o t|o|b]; simpl.
  - destruct Q as [R|N]; [apply Inv_save_members_reg; assumption|].
    unfold save. rewrite save_members_quiet by exact N. exact HI.
  - apply load_WF_Inv; assumption.
  - apply reload_WF_Inv. exact W.
  - destruct (mem o (members s)); exact HI.
  - exact HI.
  - apply (Inv_ext s _ o (opt t)); try exact HI; simpl.
    + apply owns_setid.
    + destruct t as [t|]; [|intros z x []]. intros z x [<-|[]]. apply K.
    + destruct t as [t|]; [|intros z []]. intros z [<-|[]]. exact Q.
    + reflexivity.
  - destruct (mem o (members s)); [|exact HI].
    unfold fragment_step. destruct (use_uuid s) eqn:U; simpl; [|exact HI].
    destruct Q as [R|[F|N]]; [apply Inv_assign_reg; assumption | congruence |].
    destruct (internal s o) as [i|] eqn:E; [rewrite (assign_noop _ _ _ _ E); exact HI | contradiction].
  - exact HI.
Qed.

(* ---- T3: histories *)
Fixpoint hist_ok (v : variant) (s : state) (h : list op) : Prop :=
  match h with
  | [] => True
  | a :: r => op_ok s a /\ quiet v s a /\ hist_ok v (step v s a) r
  end.

Lemma run_WF_Inv : forall v h s, WF s -> Inv s -> hist_ok v s h -> WF (run v s h) /\ Inv (run v s h).
Proof.
  induction h as [|a r IH]; intros s W HI H; simpl; [split; assumption|].
  destruct H as [K [Q H]]. apply IH; [apply WF_step | apply Inv_step | exact H]; assumption.
Qed.

Theorem history_resolves : forall v n h o, hist_ok v (init n) h ->
  In o (members (run v (init n) h)) ->
  resolve (run v (init n) h) (fragment_of (run v (init n) h) o) = Some o.
Proof.
  intros v n h o H Hin. apply resolve_back; [|exact Hin].
  apply (run_WF_Inv v h (init n) (WF_init n) (Inv_init n) H).
Qed.

Theorem history_distinct : forall v n h o1 o2, hist_ok v (init n) h ->
  In o1 (members (run v (init n) h)) -> In o2 (members (run v (init n) h)) ->
  fragment_of (run v (init n) h) o1 = fragment_of (run v (init n) h) o2 -> o1 = o2.
Proof.
  intros v n h o1 o2 H. apply fragments_distinct.
  apply (run_WF_Inv v h (init n) (WF_init n) (Inv_init n) H).
Qed.

(* ---- T4: what fails without the premises (witnesses by computation) *)
Definition h_reload_save : list op := [Add 0%nat; Add 1%nat; SetUuid true; Reload; Save].

(* the JSON loader before fix 3401449 registered the uuid but left _internal_id unset: the next save draws a new
   id for the object, which its resource does not resolve; with the loader of HEAD the same history is fine *)
Theorem old_json_loader_refuted : exists h o,
  In o (members (run old_json (init 0) h)) /\
  resolves_back (run old_json (init 0) h) o = false /\
  resolves_back (run head (init 0) h) o = true.
Proof. exists h_reload_save, 0%nat. vm_compute. repeat split. left. reflexivity. Qed.

(* before fix 330f52e _assign_uuid did not register: the uuid drawn by a save (built resource, or object added
   after a load) was not resolved by the resource before the document was loaded again; on HEAD it is *)
Theorem unregistered_draw_refuted : exists h o,
  In o (members (run before_330f52e (init 0) h)) /\
  resolves_back (run before_330f52e (init 0) h) o = false /\
  resolves_back (run head (init 0) h) o = true.
Proof. exists (h_reload_save ++ [Add 2%nat; Save]), 2%nat. vm_compute. repeat split. right. right. left. reflexivity. Qed.

(* an id attribute edited after the load is not re-registered (every variant) *)
Theorem stale_idattr_refuted : exists h o,
  In o (members (run head (init 10) h)) /\ resolves_back (run head (init 10) h) o = false.
Proof. exists [Load [(0%nat, None, Some 5)]; SetIdAttr 0%nat (Some 6)], 0%nat. vm_compute. split; [left|]; reflexivity. Qed.

(* ---- the premises are satisfiable on a non-trivial history (HEAD): a loaded uuid document with id attributes,
   edits, a save that draws nothing, a reload, a mode switch *)
Definition doc_ex : doc := [(0%nat, Some 1, Some 2); (1%nat, Some 3, None); (2%nat, Some 4, Some 5)].
Definition h_ex : list op :=
  [Load doc_ex; Remove 1%nat; Add 1%nat; Save; Ref 2%nat; SetIdAttr 0%nat None; Reload; SetUuid false; Save;
   SetIdAttr 2%nat (Some 5)].

Lemma load_ok_ex : load_ok (init 100) doc_ex.
Proof.
  split; [|split; [|split]].
  - simpl. repeat constructor; simpl; intuition discriminate.
  - intros e1 e2 z I1 I2 J1 J2. simpl in I1, I2.
    destruct I1 as [<-|[<-|[<-|[]]]]; destruct I2 as [<-|[<-|[<-|[]]]]; unfold eids, ob in *; simpl in *;
      try reflexivity; exfalso; intuition lia.
  - intros e _ [].
  - intros z I. unfold ids, eids in I. simpl in I. split; [simpl; intuition lia | intros x [H|H]; discriminate].
Qed.

Example hist_ok_ex : hist_ok head (init 100) h_ex.
Proof.
  split; [exact load_ok_ex|]. split; [exact I|].
  vm_compute. repeat split; auto;
    try (right; right; discriminate);
    try (right; left; reflexivity);
    try (right; right; intros o H; repeat (destruct H as [<-|H]; [discriminate|]); destruct H).
  intros x. destruct x as [|[|[|x]]]; intros [H|H]; try discriminate; reflexivity.
Qed.

Example ex_members_resolve :
  let s := run head (init 100) h_ex in
  members s = [0%nat; 2%nat; 1%nat] /\ forallb (resolves_back s) (members s) = true /\
  map (fragment_of s) (members s) = [FPos 0%nat; FId 5; FPos 1%nat].
Proof. vm_compute. repeat split. Qed.

(* ---- HEAD (fix 330f52e: the drawn ids are registered): no premise on Save / Ref any more.  What remains:
   the freshness premises op_ok, and an id attribute may only be edited to a text already bound to the object *)
Definition bound_edit (s : state) (a : op) : Prop :=
  match a with SetIdAttr o (Some t) => lookup t (dict s) = Some o | _ => True end.

Lemma quiet_head : forall s a, bound_edit s a -> quiet head s a.
Proof. intros s a H. destruct a as [|d| |o|o|o t|o|b]; simpl; auto. Qed.

Fixpoint head_ok (s : state) (h : list op) : Prop :=
  match h with
  | [] => True
  | a :: r => op_ok s a /\ bound_edit s a /\ head_ok (step head s a) r
  end.

Lemma head_ok_hist_ok : forall h s, head_ok s h -> hist_ok head s h.
Proof.
  induction h as [|a r IH]; intros s H; simpl; [exact I|].
  destruct H as [K [B H]]. repeat split; [exact K | apply quiet_head; exact B | apply IH; exact H].
Qed.

Theorem head_history_resolves : forall n h o, head_ok (init n) h ->
  In o (members (run head (init n) h)) ->
  resolve (run head (init n) h) (fragment_of (run head (init n) h) o) = Some o.
Proof. intros n h o H. apply history_resolves. apply head_ok_hist_ok. exact H. Qed.

Theorem head_history_distinct : forall n h o1 o2, head_ok (init n) h ->
  In o1 (members (run head (init n) h)) -> In o2 (members (run head (init n) h)) ->
  fragment_of (run head (init n) h) o1 = fragment_of (run head (init n) h) o2 -> o1 = o2.
Proof. intros n h o1 o2 H. apply history_distinct. apply head_ok_hist_ok. exact H. Qed.

(* a history that draws ids all along: built resource, uuid mode, saves, additions, references *)
Example head_ok_draws :
  head_ok (init 0) [Add 0%nat; Add 1%nat; SetUuid true; Save; Add 2%nat; Ref 2%nat; Remove 0%nat; Save; Add 0%nat;
                    Add 3%nat; Reload; Add 4%nat; Save] /\
  forallb (resolves_back (run head (init 0) [Add 0%nat; Add 1%nat; SetUuid true; Save; Add 2%nat; Ref 2%nat;
                                             Remove 0%nat; Save; Add 0%nat; Add 3%nat; Reload; Add 4%nat; Save]))
          [1%nat; 2%nat; 0%nat; 3%nat; 4%nat] = true.
Proof. vm_compute. repeat split. Qed.
