(* C07 — delete() leaves no dangling reference and touches nothing else.
   Statements only; proofs in Proofs/C07Proofs.v over Model/Kernel.v
   (EObject.delete with its recursive part, the walk over own references and
   inverse-reference entries, and every removal procedure it calls).
   Proved, for every state, object, fuel and choice of recursive:
   * delete never creates a reference: slot by slot, every object reference
     present afterwards was present before ("touches nothing else", additive half);
   * the deleted object's own references are all empty afterwards.
   REFUTED (known finding F-C07-nonunique-duplicate-target): a non-unique
   reference without opposite that holds the deleted object twice keeps one
   occurrence — witness below, replayed on the implementation by the check.
   PARTIAL: "no survivor holds a deleted object" for unique/single references
   and "other slots unchanged exactly" need the inverse-bookkeeping and
   symmetry invariants along the history; carried by the correspondence and
   the before/after oracle of harness/props/c07.py. *)
From Coq Require Import ZArith List Bool Arith.
From PyecoreV Require Import Lib.PyBase Lib.PyList Model.Kernel Proofs.C07Proofs.
Import ListNotations.

Theorem C07_delete_never_adds_a_reference_partial :
  forall m fuel s x r, shrinks s (delete_obj fuel m s x r).
Proof. exact delete_only_removes. Qed.
Print Assumptions C07_delete_never_adds_a_reference_partial.

Theorem C07_deleted_object_holds_no_reference_partial :
  forall m fuel s x r f b,
    In f (ref_feats m x) ->
    ~ In (VObj b) (vals (delete_obj (S fuel) m s x r) (x, f)).
Proof. exact delete_empties_own_references. Qed.
Print Assumptions C07_deleted_object_holds_no_reference_partial.

(* a non-unique reference without opposite (EList) holding the target twice *)
Definition ex_mm : mm :=
  {| feats := [ {| f_owner := 0; f_isref := true; f_many := true; f_unique := false; f_cont := false;
                   f_opp := None; f_type := TClass 1; f_default := VNone |} ];
     conf := [(0, 0); (1, 1)]; ocls := [0; 1]; enames := []; nres := 0 |}.

Example C07_dangling_after_delete_refuted :
  let s := fold_left (next ex_mm) [OExtend 0 0 [VObj 1; VObj 1]; ODelete 1 true] (init_state ex_mm) in
  vals s (0, 0) = [VObj 1].
Proof. vm_compute. reflexivity. Qed.

Example C07_witness :
  let s := fold_left (next ex_mm) [OAppend 0 0 (VObj 1); ODelete 1 true] (init_state ex_mm) in
  vals s (0, 0) = [].
Proof. vm_compute. reflexivity. Qed.
