(* C19: the reflective views agree with the model they describe. *)
From Coq Require Import ZArith List Bool Arith Lia.
From PyecoreV Require Import Lib.PyBase Lib.PyList Model.Kernel Proofs.KernelFacts.
Import ListNotations.
Open Scope nat_scope.

(* eContents is exactly the children held by the object's containment references *)
Theorem econtents_spec m s o c :
  In c (econtents m s o) <->
  exists f, In f (ref_feats m o) /\ f_cont (fd m f) = true /\ In (VObj c) (vals s (o, f)).
Proof.
  unfold econtents. rewrite in_flat_map. split.
  - intros [f [Hf Hc]]. exists f. destruct (f_cont (fd m f)) eqn:E; [|destruct Hc].
    split; [exact Hf|]. split; [reflexivity|]. apply objs_of_In. exact Hc.
  - intros [f [Hf [Hc Hin]]]. exists f. split; [exact Hf|]. rewrite Hc. apply objs_of_In. exact Hin.
Qed.

Lemma ref_feats_spec m o f :
  In f (ref_feats m o) <-> (f < length (feats m) /\ applicable m o f = true /\ f_isref (fd m f) = true).
Proof.
  unfold ref_feats. rewrite filter_In, andb_true_iff.
  assert (Hs : forall n, In f (seqn n) <-> f < n).
  { induction n as [|n IH]; simpl; [split; [tauto | lia]|].
    rewrite in_app_iff, IH. simpl. split; [intros [H|[H|[]]]; lia | intros H; destruct (Nat.eq_dec f n); [right; left; congruence | left; lia]]. }
  rewrite Hs. tauto.
Qed.

(* the container chain of o has length n *)
Inductive depth (s : state) : oid -> nat -> Prop :=
| depth_root o : cont s o = None -> depth s o 0
| depth_step o p f n : cont s o = Some (p, f) -> depth s p n -> depth s o (S n).

(* the object at which the chain ends *)
Inductive chain_end (s : state) : oid -> oid -> Prop :=
| chain_here o : cont s o = None -> chain_end s o o
| chain_up o p f r : cont s o = Some (p, f) -> chain_end s p r -> chain_end s o r.

Lemma root_of_chain s o n fuel :
  depth s o n -> n <= fuel -> chain_end s o (root_of fuel s o) /\ cont s (root_of fuel s o) = None.
Proof.
  intros Hd. revert fuel. induction Hd as [o Hc|o p f n Hc Hd IH]; intros fuel Hle.
  - destruct fuel; simpl; [|rewrite Hc]; split; try exact Hc; constructor; exact Hc.
  - destruct fuel as [|fu]; [lia|]. simpl. rewrite Hc.
    destruct (IH fu ltac:(lia)) as [H1 H2]. split; [|exact H2].
    eapply chain_up; eauto.
Qed.

(* eRoot and the eContainer chain end at the same root, for every acyclic containment *)
Theorem eroot_is_chain_end m s o n :
  depth s o n -> n <= S (length (ocls m)) ->
  chain_end s o (eroot m s o) /\ cont s (eroot m s o) = None.
Proof. intros Hd Hn. unfold eroot. apply (root_of_chain s o n); assumption. Qed.

Lemma chain_end_unique s o r r' : chain_end s o r -> chain_end s o r' -> r = r'.
Proof.
  intros H. revert r'. induction H as [o Hc|o p f r Hc H IH]; intros r' H'.
  - inversion H' as [? Hc'|? ? ? ? Hc']; subst; [reflexivity | congruence].
  - inversion H' as [? Hc'|? p' f' ? Hc' H'']; subst; [congruence|].
    rewrite Hc in Hc'. inversion Hc'; subst. apply IH. exact H''.
Qed.

(* an object's resource is its root's resource *)
Theorem eresource_is_roots m s o : eresource_of m s o = eres s (eroot m s o).
Proof. reflexivity. Qed.

(* eAllContents = children, then the contents of each child *)
Theorem eallcontents_unfold m s o fu c :
  In c (eallcontents (S fu) m s o) <->
  In c (econtents m s o) \/ exists k, In k (econtents m s o) /\ In c (eallcontents fu m s k).
Proof.
  simpl. rewrite in_app_iff, in_flat_map. tauto.
Qed.

(* everything eAllContents yields is a (strict) descendant: its container chain passes through o *)
Inductive descends (m : mm) (s : state) : oid -> oid -> Prop :=
| desc_child o c : In c (econtents m s o) -> descends m s o c
| desc_trans o k c : In k (econtents m s o) -> descends m s k c -> descends m s o c.

Theorem eallcontents_sound m s fuel o c :
  In c (eallcontents fuel m s o) -> descends m s o c.
Proof.
  revert o c. induction fuel as [|fu IH]; intros o c H; [destruct H|].
  apply eallcontents_unfold in H. destruct H as [H|[k [Hk Hc]]].
  - constructor; exact H.
  - eapply desc_trans; [exact Hk | apply IH; exact Hc].
Qed.

(* and, given enough fuel for the depth of the descendant, every descendant is yielded *)
Inductive descends_in (m : mm) (s : state) : nat -> oid -> oid -> Prop :=
| desc1 o c : In c (econtents m s o) -> descends_in m s 1 o c
| descS n o k c : In k (econtents m s o) -> descends_in m s n k c -> descends_in m s (S n) o c.

Theorem eallcontents_complete m s n o c fuel :
  descends_in m s n o c -> n <= fuel -> In c (eallcontents fuel m s o).
Proof.
  intros H. revert fuel. induction H as [o c Hc|n o k c Hk Hd IH]; intros fuel Hle.
  - destruct fuel as [|fu]; [lia|]. apply eallcontents_unfold. left; exact Hc.
  - destruct fuel as [|fu]; [lia|]. apply eallcontents_unfold. right. exists k. split; [exact Hk|].
    apply IH. lia.
Qed.

(* ---------- metamodel side ---------- *)
From PyecoreV Require Import Model.MetaViews.

Lemma dedup_nat_In seen l x : In x (dedup_nat seen l) <-> (In x l /\ ~ In x seen).
Proof.
  revert seen; induction l as [|y r IH]; intros seen; simpl; [tauto|].
  destruct (existsb (Nat.eqb y) seen) eqn:E.
  - rewrite IH. apply existsb_exists in E. destruct E as [z [Hz Ez]]. apply Nat.eqb_eq in Ez. subst z.
    split; [tauto|]. intros [[H|H] Hn]; [subst; tauto | tauto].
  - simpl. rewrite IH. simpl.
    assert (Hy : ~ In y seen).
    { intros H. assert (existsb (Nat.eqb y) seen = true) by (apply existsb_exists; exists y; split; [exact H | apply Nat.eqb_refl]). congruence. }
    split.
    + intros [H|[H Hn]]; [subst; tauto | tauto].
    + intros [[H|H] Hn]; [left; exact H|]. destruct (Nat.eq_dec y x); [left; assumption | right; tauto].
Qed.

Lemma dedup_nat_NoDup seen l : NoDup (dedup_nat seen l).
Proof.
  revert seen; induction l as [|y r IH]; intros seen; simpl; [constructor|].
  destruct (existsb (Nat.eqb y) seen); [apply IH|].
  constructor; [|apply IH]. rewrite dedup_nat_In. simpl. tauto.
Qed.

(* d is a strict ancestor of c, reached in at most n inheritance steps *)
Inductive ancestor (g : cgraph) : nat -> nat -> nat -> Prop :=
| anc1 c d : In d (sups g c) -> ancestor g 1 c d
| ancS n c k d : In k (sups g c) -> ancestor g n k d -> ancestor g (S n) c d.

Theorem supers_gen_sound g fuel c d :
  In d (supers_gen fuel g c) -> exists n, ancestor g n c d.
Proof.
  revert c d; induction fuel as [|fu IH]; intros c d H; simpl in H; [destruct H|].
  rewrite in_app_iff, in_flat_map in H. destruct H as [H|[k [Hk Hd]]].
  - exists 1. constructor; exact H.
  - destruct (IH k d Hd) as [n Hn]. exists (S n). eapply ancS; eauto.
Qed.

Theorem supers_gen_complete g n c d fuel :
  ancestor g n c d -> n <= fuel -> In d (supers_gen fuel g c).
Proof.
  intros H. revert fuel. induction H as [c d Hd|n c k d Hk Ha IH]; intros fuel Hle.
  - destruct fuel; [lia|]. simpl. apply in_app_iff. left; exact Hd.
  - destruct fuel as [|fu]; [lia|]. simpl. apply in_app_iff. right. apply in_flat_map.
    exists k. split; [exact Hk | apply IH; lia].
Qed.

(* eAllSuperTypes: exactly the transitive supertypes (within the fuel), each once *)
Theorem all_supers_spec g fuel c d :
  In d (all_supers fuel g c) <-> In d (supers_gen fuel g c).
Proof. unfold all_supers. rewrite dedup_nat_In. simpl. tauto. Qed.

Theorem all_supers_NoDup g fuel c : NoDup (all_supers fuel g c).
Proof. apply dedup_nat_NoDup. Qed.

(* eAllStructuralFeatures: own plus inherited declarations, each once *)
Theorem feats_gen_sound g fuel c f :
  In f (feats_gen fuel g c) -> In f (own g c) \/ exists n d, ancestor g n c d /\ In f (own g d).
Proof.
  revert c f; induction fuel as [|fu IH]; intros c f H; simpl in H; [destruct H|].
  rewrite in_app_iff, in_flat_map in H. destruct H as [H|[k [Hk Hf]]]; [left; exact H|].
  right. destruct (IH k f Hf) as [Ho|[n [d [Ha Ho]]]].
  - exists 1, k. split; [constructor; exact Hk | exact Ho].
  - exists (S n), d. split; [eapply ancS; eauto | exact Ho].
Qed.

Theorem feats_gen_complete_own g fuel c f : In f (own g c) -> In f (feats_gen (S fuel) g c).
Proof. intros H. simpl. apply in_app_iff. left; exact H. Qed.

Theorem feats_gen_complete_inherited g n c d f fuel :
  ancestor g n c d -> In f (own g d) -> n < fuel -> In f (feats_gen fuel g c).
Proof.
  intros H. revert fuel. induction H as [c d Hd|n c k d Hk Ha IH]; intros fuel Ho Hlt.
  - destruct fuel as [|[|fu]]; try lia. simpl. apply in_app_iff. right. apply in_flat_map.
    exists d. split; [exact Hd|]. apply in_app_iff. left; exact Ho.
  - destruct fuel as [|fu]; [lia|]. simpl. apply in_app_iff. right. apply in_flat_map.
    exists k. split; [exact Hk | apply IH; [exact Ho | lia]].
Qed.

Theorem all_feats_spec g fuel c f :
  In f (all_feats fuel g c) <-> In f (feats_gen fuel g c).
Proof. unfold all_feats. rewrite dedup_nat_In. simpl. tauto. Qed.

Theorem all_feats_NoDup g fuel c : NoDup (all_feats fuel g c).
Proof. apply dedup_nat_NoDup. Qed.

Theorem all_refs_attrs_partition g fuel c f :
  In f (all_feats fuel g c) <-> (In f (all_refs fuel g c) \/ In f (all_attrs fuel g c)).
Proof.
  unfold all_refs, all_attrs. rewrite !filter_In. destruct (isref g f); simpl; intuition discriminate.
Qed.

Theorem find_feat_spec g fuel c nm f :
  find_feat fuel g c nm = Some f -> In f (feats_gen fuel g c) /\ fname g f = nm.
Proof.
  unfold find_feat. intros H. apply find_some in H. destruct H as [H1 H2]. apply Z.eqb_eq in H2. tauto.
Qed.

Theorem find_feat_none g fuel c nm :
  find_feat fuel g c nm = None -> forall f, In f (feats_gen fuel g c) -> fname g f <> nm.
Proof.
  unfold find_feat. intros H f Hf E. pose proof (find_none _ _ H f Hf) as N. simpl in N.
  apply Z.eqb_neq in N. congruence.
Qed.
