(* Loading one end of a many-valued unique reference (Model/RefLoad.v):
   no element twice, and the order of the end's own list. *)
From Coq Require Import ZArith List Bool Lia.
From PyecoreV Require Import Lib.PyBase Lib.PyList Model.OSet Model.RefLoad Proofs.PyListFacts Proofs.OSetProofs.
Import ListNotations.
Open Scope Z_scope.

Definition neqb (x : Z) : Z -> bool := fun y => negb (y =? x).

Lemma filter_neqb_notin x l : ~ In x l -> filter (neqb x) l = l.
Proof.
  induction l as [|y ys IH]; simpl; intros H; [reflexivity|].
  unfold neqb at 1. destruct (Z.eqb_spec y x) as [E|N]; simpl.
  - exfalso. apply H. left. exact E.
  - rewrite IH; [reflexivity|]. intros Hi. apply H. right. exact Hi.
Qed.

Lemma remove_first_NoDup x l :
  NoDup l -> In x l -> remove_first Z.eqb x l = Some (filter (neqb x) l).
Proof.
  induction l as [|y ys IH]; simpl; intros ND Hin; [contradiction|].
  inversion ND as [|y' ys' Hny ND']; subst.
  unfold neqb at 1. destruct (Z.eqb_spec y x) as [E|N]; simpl.
  - subst. rewrite (filter_neqb_notin x ys Hny). reflexivity.
  - destruct Hin as [E|Hin]; [congruence|]. rewrite (IH ND' Hin). reflexivity.
Qed.

Lemma In_filter_neqb x y l : In y (filter (neqb x) l) <-> In y l /\ y <> x.
Proof.
  rewrite filter_In. unfold neqb. split; intros [H1 H2]; split; try exact H1.
  - apply negb_true_iff in H2. apply Z.eqb_neq in H2. exact H2.
  - apply negb_true_iff. apply Z.eqb_neq. exact H2.
Qed.

Lemma NoDup_filter {A} (f : A -> bool) l : NoDup l -> NoDup (filter f l).
Proof.
  induction 1 as [|x l Hn ND IH]; simpl; [constructor|].
  destruct (f x); [|exact IH]. constructor; [|exact IH].
  intros Hi. apply filter_In in Hi. apply Hn. exact (proj1 Hi).
Qed.

Lemma sp_add_notin x l : ~ In x l -> sp_add x l = l ++ [x].
Proof. intros H. unfold sp_add. apply memb_false_In in H. rewrite H. reflexivity. Qed.

Lemma sp_add_in x l : In x l -> sp_add x l = l.
Proof. intros H. unfold sp_add. apply memb_In in H. rewrite H. reflexivity. Qed.

Lemma sp_place_spec x l : NoDup l -> sp_place x l = filter (neqb x) l ++ [x].
Proof.
  intros ND. unfold sp_place. destruct (memb Z.eqb x l) eqn:M.
  - apply memb_In in M. unfold sp_remove. rewrite (remove_first_NoDup x l ND M).
    apply sp_add_notin. intros Hi. apply In_filter_neqb in Hi. destruct Hi as [_ Hi]. congruence.
  - apply memb_false_In in M. rewrite (filter_neqb_notin x l M). apply sp_add_notin. exact M.
Qed.

Lemma sp_place_NoDup x l : NoDup l -> NoDup (sp_place x l).
Proof.
  intros ND. rewrite (sp_place_spec x l ND). apply NoDup_app_intro_single.
  - apply NoDup_filter. exact ND.
  - intros Hi. apply In_filter_neqb in Hi. destruct Hi as [_ Hi]. congruence.
Qed.

Lemma filter_filter_notin x r c :
  filter (fun y => negb (memb Z.eqb y r)) (filter (neqb x) c)
  = filter (fun y => negb (memb Z.eqb y (x :: r))) c.
Proof.
  induction c as [|y c IH]; simpl; [reflexivity|].
  unfold neqb at 1. rewrite (Z.eqb_sym x y).
  destruct (Z.eqb_spec y x) as [E|N]; simpl; [exact IH|].
  rewrite IH. reflexivity.
Qed.

Theorem fold_place l : forall c,
  NoDup l -> NoDup c ->
  fold_left (fun c x => sp_place x c) l c = filter (fun y => negb (memb Z.eqb y l)) c ++ l.
Proof.
  induction l as [|x r IH]; intros c NDl NDc; simpl.
  - rewrite app_nil_r. clear. induction c as [|y c IH]; simpl; [reflexivity|]. f_equal. exact IH.
  - inversion NDl as [|x' r' Hnx NDr]; subst.
    rewrite (IH _ NDr (sp_place_NoDup x c NDc)). rewrite (sp_place_spec x c NDc).
    rewrite filter_app. simpl.
    assert (Hm : memb Z.eqb x r = false) by (apply memb_false_In; exact Hnx).
    rewrite Hm. simpl. rewrite filter_filter_notin. rewrite <- app_assoc. reflexivity.
Qed.

(* ---- the OrderedSet refines the list specification ---- *)

Lemma os_place_ok x o :
  os_inv o -> os_inv (os_place x o) /\ items (os_place x o) = sp_place x (items o).
Proof.
  intros Hinv. unfold os_place, sp_place. rewrite (os_contains_ok x o Hinv).
  destruct (memb Z.eqb x (items o)); [|exact (os_add_ok x o Hinv)].
  pose proof (os_remove_ok x o Hinv) as H. unfold st_agree in H.
  destruct (os_remove x o) as [o'|e]; destruct (sp_remove x (items o)) as [l'|e']; try contradiction.
  - destruct H as [El Hinv']. subst l'. exact (os_add_ok x o' Hinv').
  - split; [exact Hinv | reflexivity].
Qed.

Definition sp_lev (l : list Z) (e : lev) : list Z :=
  match e with Link x => sp_add x l | Place x => sp_place x l end.

Lemma os_lev_ok e o :
  os_inv o -> os_inv (os_lev o e) /\ items (os_lev o e) = sp_lev (items o) e.
Proof. destruct e; simpl; intros H; [apply os_add_ok | apply os_place_ok]; exact H. Qed.

Theorem events_refine evs : forall o,
  os_inv o ->
  os_inv (fold_left os_lev evs o) /\ items (fold_left os_lev evs o) = fold_left sp_lev evs (items o).
Proof.
  induction evs as [|e evs IH]; intros o Hinv; simpl; [split; [exact Hinv | reflexivity]|].
  destruct (os_lev_ok e o Hinv) as [Hi He]. destruct (IH _ Hi) as [Hi2 He2].
  split; [exact Hi2|]. rewrite He2, He. reflexivity.
Qed.

(* whatever arrives in whatever order: no element twice *)
Theorem events_no_dup evs : NoDup (items (fold_left os_lev evs os_empty)).
Proof. destruct (events_refine evs os_empty os_empty_inv) as [[ND _] _]. exact ND. Qed.

(* ---- order ---- *)

Lemma fold_link_spec l : forall c,
  NoDup c ->
  NoDup (fold_left sp_lev (map Link l) c) /\
  (forall y, In y (fold_left sp_lev (map Link l) c) -> In y c \/ In y l).
Proof.
  induction l as [|x r IH]; intros c ND; simpl.
  - split; [exact ND|]. intros y H. left. exact H.
  - assert (ND' : NoDup (sp_add x c)).
    { destruct (in_dec Z.eq_dec x c) as [Hi|Hn].
      - rewrite (sp_add_in x c Hi). exact ND.
      - rewrite (sp_add_notin x c Hn). apply NoDup_app_intro_single; assumption. }
    destruct (IH _ ND') as [H1 H2]. split; [exact H1|].
    intros y Hy. destruct (H2 y Hy) as [Hc|Hr]; [|right; right; exact Hr].
    destruct (in_dec Z.eq_dec x c) as [Hi|Hn].
    + rewrite (sp_add_in x c Hi) in Hc. left. exact Hc.
    + rewrite (sp_add_notin x c Hn) in Hc. apply in_app_or in Hc.
      destruct Hc as [Hc|[E|[]]]; [left; exact Hc | right; left; exact E].
Qed.

Lemma fold_link_present l : forall c, incl l c -> fold_left sp_lev (map Link l) c = c.
Proof.
  induction l as [|x r IH]; intros c Hi; simpl; [reflexivity|].
  rewrite (sp_add_in x c (Hi x (or_introl eq_refl))).
  apply IH. intros y Hy. apply Hi. right. exact Hy.
Qed.

Lemma fold_place_eq own c :
  fold_left sp_lev (map Place own) c = fold_left (fun c x => sp_place x c) own c.
Proof. revert c. induction own as [|x r IH]; intros c; simpl; [reflexivity | apply IH]. Qed.

Lemma filter_all_in own c :
  incl c own -> filter (fun y => negb (memb Z.eqb y own)) c = [].
Proof.
  induction c as [|y c IH]; intros Hi; simpl; [reflexivity|].
  assert (Hy : memb Z.eqb y own = true) by (apply memb_In; apply Hi; left; reflexivity).
  rewrite Hy. simpl. apply IH. intros z Hz. apply Hi. right. exact Hz.
Qed.

(* A consistent document (what the other end links is listed by this end:
   incl pre own, incl post own; a unique feature lists an element once):
   after load the collection is exactly this end's own list, in its order. *)
Theorem load_end_order pre own post :
  NoDup own -> incl pre own -> incl post own ->
  os_inv (load_end pre own post) /\ items (load_end pre own post) = own.
Proof.
  intros ND Hpre Hpost. unfold load_end, load_events.
  destruct (events_refine (map Link pre ++ map Place own ++ map Link post) os_empty os_empty_inv)
    as [Hinv Hit].
  split; [exact Hinv|]. rewrite Hit. simpl items.
  rewrite !fold_left_app.
  destruct (fold_link_spec pre [] (NoDup_nil Z)) as [NDc Hc].
  set (c := fold_left sp_lev (map Link pre) []) in *.
  rewrite fold_place_eq. rewrite (fold_place own c ND NDc).
  rewrite filter_all_in.
  - simpl. apply fold_link_present. exact Hpost.
  - intros y Hy. destruct (Hc y Hy) as [[]|Hp]. apply Hpre. exact Hp.
Qed.

(* the loader that only appended lost the order (the defect fixed in xmi.py / json.py) *)
Example append_only_loses_order :
  items (load_end_append_only [0; 1] [1; 0] []) = [0; 1] /\
  items (load_end [0; 1] [1; 0] []) = [1; 0].
Proof. vm_compute. split; reflexivity. Qed.

(* ---- proxies ---- *)

(* two handles of one target, distinct as set members: the collection shows the target twice *)
Example lazy_proxies_duplicate :
  lazy_collection [Obj 5; Proxy 1 5] = [5; 5] /\ ~ NoDup (lazy_collection [Obj 5; Proxy 1 5]).
Proof.
  split; [vm_compute; reflexivity|]. vm_compute. intros H.
  inversion H as [|x l Hn _]; subst. apply Hn. left. reflexivity.
Qed.

Theorem eager_no_dup es : NoDup (items (eager_collection es)).
Proof.
  unfold eager_collection.
  destruct (os_update_ok (map target es) os_empty os_empty_inv) as [[ND _] _]. exact ND.
Qed.

Theorem eager_holds_targets es y :
  In y (items (eager_collection es)) <-> In y (map target es).
Proof.
  unfold eager_collection.
  destruct (os_update_ok (map target es) os_empty os_empty_inv) as [_ E]. rewrite E. simpl items.
  generalize (map target es) as l. intros l.
  assert (G : forall l c, In y (fold_left (fun acc k => sp_add k acc) l c) <-> In y c \/ In y l).
  { clear. induction l as [|x r IH]; intros c; simpl; [tauto|].
    rewrite IH. destruct (in_dec Z.eq_dec x c) as [Hi|Hn].
    - rewrite (sp_add_in x c Hi). split; [tauto|]. intros [H|[H|H]]; subst; tauto.
    - rewrite (sp_add_notin x c Hn). rewrite in_app_iff. simpl. tauto. }
  rewrite G. simpl. tauto.
Qed.
