(* CPython dict/set lookup as far as pyecore's collections depend on it:
   an entry remembers the hash its key had WHEN IT WAS INSERTED; a probe
   computes the hash of the probe key now, and only entries whose stored hash
   equals it are compared, first by identity (`is`), then by `==` (stored key
   on the left).  A key whose hash changes after insertion (an EProxy that gets
   resolved) therefore becomes unreachable.  `==` may have effects (EProxy.__eq__
   resolves the proxy): the state is threaded.
   Abstraction: entries are visited in insertion order (CPython follows the probe
   sequence; it only matters when several equal-hash entries compare equal).
   No proofs here. *)
From Coq Require Import ZArith List Bool.
Import ListNotations.
Open Scope Z_scope.

Section Dict.
  Context {K V S : Type}.
  Variable ident : K -> K -> bool.
  Variable eqk : S -> K -> K -> bool * S.

  Record entry : Type := { e_hash : Z; e_key : K; e_val : V }.

  Fixpoint d_find (s : S) (h : Z) (k : K) (d : list entry) : option entry * S :=
    match d with
    | [] => (None, s)
    | e :: r =>
      if e_hash e =? h then
        if ident (e_key e) k then (Some e, s)
        else let (b, s') := eqk s (e_key e) k in
             if b then (Some e, s') else d_find s' h k r
      else d_find s h k r
    end.

  (* d[k] = v for a key that d_find did not find: appended with the hash the key has now *)
  Definition d_insert_new (h : Z) (k : K) (v : V) (d : list entry) : list entry :=
    d ++ [{| e_hash := h; e_key := k; e_val := v |}].
End Dict.
Arguments entry : clear implicits.
