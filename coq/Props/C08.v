(* C08 -- XMI save then load reproduces the model.   Statements only.

   1. WHOLE DOCUMENTS (Model/XmiDoc.v, Proofs/XmiDocProofs.v): the theorem of the property,
          decode_doc mm (encode_doc mm o F) = Some (map forget F)
      for every metamodel mm of one package with distinct feature ids per class (wf_mm), both save
      options (SERIALIZE_DEFAULT_VALUES, OPTION_USE_XMI_TYPE) and EVERY forest F that is a state
      pyecore can hold (wf_forest: concrete classes of mm, one slot per feature of the class, single-valued
      features hold at most one value, targets exist in the resource and conform, children conform to the
      declared type, unique references hold no target twice, a feature outside `_isset` reads as unset):
      any number of roots (xmi:XMI wrapper iff not exactly one), any depth and width, subclass instances
      (xsi:type / xmi:type), single / many attributes with any strings (None, '', white space), single /
      many cross references in order (duplicates kept in non-unique ones), single / many containments.
      `forget` drops `_isset`, which load does not reproduce and the property does not observe: classes,
      attribute values, reference targets in order and nesting are equal.  encode_doc mirrors
      XMIResource.save/_go_across, decode_doc mirrors load in its two phases (tree, then fragments resolved
      against the built tree: extract_rootnum_and_frag, split('/'), split('.'), int(), _navigate_from).
      The proof uses many_roundtrip, single_roundtrip, refs_roundtrip, ref_single_roundtrip and
      int_of_str_of_Z (C17) as building blocks; resolve (fragment o) = o is proved on trees
      (C08_fragment_resolves; C11's theorem of the same name is stated on the kernel state).
      Modelled fragment and abstractions (names are numbers, the infoset after namespace processing, no
      order between different features of one element): header of Model/XmiDoc.v.  NOT covered by this
      theorem: several packages / prefix maps, uuid mode and id attributes as fragments (the choice of
      _build_path_from is C08_reference_fragment_fit), proxies to other resources (C14), derived /
      transient features, the opposite handshakes of load (per end: C08_reference_order_partial; the
      document lists both ends of a symmetric state), from_string . to_string = id on the data types
      (C17), lxml (A-lxml).  Tie: harness/xmidoc.py -- the infoset of the bytes the real save wrote =
      run_xmidoc_enc, the observation of the real load of those bytes = run_xmidoc_dec, on generated
      metamodels / models (with opposites), and every generated state satisfies wf_forest.

   2. the SYNTACTIC cores (Model/XmiAttr.v, RefLoad.v), at full strength (every list of values, every
      string over every code point) -- the `_partial` names are kept from the time they were all there was:
     * many-valued attributes: the attribute-vs-elements decision of
       _go_across (space-joined XML attribute unless some value is None, '' or
       contains a character with str.isspace(); then one element per value,
       xsi:nil for None; nothing for an empty collection) against
       _decode_eattribute_value / _decode_node (value.split(); node.text or '');
     * single-valued attributes: absent / attribute / xsi:nil against the
       default value and SERIALIZE_DEFAULT_VALUES;
     * lists of reference fragments (join, split, type-qualifier dropping, skip-empty, normalize) and
       the choice id-value-or-URI-fragment of _build_path_from;
     * one end of a many-valued bidirectional reference during load: no
       element twice, and the order of the end's own list.
   Proofs: Proofs/XmiAttrProofs.v, Proofs/RefLoadProofs.v. *)
From Coq Require Import ZArith List Bool.
From PyecoreV Require Import Lib.PyBase Lib.PyList Model.OSet Model.XmiAttr Model.RefLoad Model.XmiDoc Proofs.OSetProofs Proofs.XmiAttrProofs Proofs.RefLoadProofs Proofs.XmiDocProofs.
Import ListNotations.
Open Scope Z_scope.

(* every list of to_string'ed values (None allowed, any length, any content) is read back as written *)
Theorem C08_many_attribute_partial :
  forall vs : list ostr, decode_many (encode_many vs) = vs.
Proof. exact many_roundtrip. Qed.
Print Assumptions C08_many_attribute_partial.

(* the form chosen: nothing for [], one attribute iff no value is None, '' or holds whitespace *)
Theorem C08_many_attribute_form :
  forall vs : list ostr,
  match encode_many vs with
  | EAbsent => vs = []
  | EAttr t => vs <> [] /\ Forall (fun o => exists s, o = Some s /\ good s) vs
               /\ t = join_sp (map unsome vs)
  | EElems l => l = vs /\ exists o, In o vs /\ special o = true
  end.
Proof. exact many_form. Qed.
Print Assumptions C08_many_attribute_form.

(* Python's  ' '.join(l).split() == l  exactly when no element is empty or holds whitespace *)
Theorem C08_split_join :
  forall l : list str, Forall good l -> split_ws (join_sp l) = l.
Proof. exact split_join. Qed.
Print Assumptions C08_split_join.

(* a single-valued attribute that was set: value (or None) read back, whatever the default and the option *)
Theorem C08_single_attribute_partial :
  forall (sd : bool) (dflt v : ostr), decode_single dflt (encode_single sd dflt v) = v.
Proof. exact single_roundtrip. Qed.
Print Assumptions C08_single_attribute_partial.

(* ... the default being the one the attribute declares (defaultValueLiteral over default_value over the type's) *)
Theorem C08_single_attribute_declared_default_partial :
  forall (sd : bool) (literal explicit type_default v : ostr),
  let d := effective_default literal explicit type_default in
  decode_single d (encode_single sd d v) = v.
Proof. exact single_roundtrip_declared. Qed.
Print Assumptions C08_single_attribute_declared_default_partial.

(* reference lists: fragments that hold no blank and no '#' (what stays inside the resource) come
   back, in order, duplicates included, whatever prefixes are registered *)
Theorem C08_reference_list_partial :
  forall (known : str -> bool) (frags : list str),
  Forall local frags -> decode_refs known (encode_refs frags) = frags.
Proof. exact refs_roundtrip. Qed.
Print Assumptions C08_reference_list_partial.

(* ... and _build_path_from only hands out such fragments (id values that would not read back are not used) *)
Theorem C08_reference_fragment_fit :
  forall (id : option str) (uri_fragment : str), local uri_fragment -> local (ref_fragment id uri_fragment).
Proof. exact ref_fragment_local. Qed.
Print Assumptions C08_reference_fragment_fit.

(* a many-valued end of a bidirectional reference: whatever the other end linked before and
   after, the end holds its own list, in the order of the document *)
Theorem C08_reference_order_partial :
  forall pre own post : list Z,
  NoDup own -> incl pre own -> incl post own ->
  os_inv (load_end pre own post) /\ items (load_end pre own post) = own.
Proof. exact load_end_order. Qed.
Print Assumptions C08_reference_order_partial.

(* non-vacuity and witnesses *)
Example C08_witness_forms :
  encode_many [Some [97]; Some [98; 99]] = EAttr [97; 32; 98; 99] /\
  encode_many [Some [97]; Some [160]] = EElems [Some [97]; Some [160]] /\       (* no-break space *)
  encode_many [Some [97]; None; Some []] = EElems [Some [97]; None; Some []] /\
  encode_many [] = EAbsent /\
  decode_many (EAttr [97; 32; 32; 98; 9; 99]) = [Some [97]; Some [98]; Some [99]].
Proof. vm_compute. repeat split; reflexivity. Qed.

(* why the whitespace test is needed: without it the value 'a<nbsp>b' would come back as two values *)
Example C08_join_needs_the_space_test :
  split_ws (join_sp [[97; 160; 98]]) = [[97]; [98]].
Proof. vm_compute. reflexivity. Qed.

(* the defect fixed in /repo (363962f): an empty-but-touched collection used to be written as the text "[]" *)
Example C08_empty_collection_text_would_not_read_back :
  decode_many (EAttr [91; 93]) = [Some [91; 93]] /\ decode_many (encode_many []) = [].
Proof. vm_compute. split; reflexivity. Qed.

(* the defect fixed in /repo (46038aa): appending only, the order of the end decoded second is lost *)
Example C08_append_only_loses_order :
  items (load_end_append_only [0; 1] [1; 0] []) = [0; 1] /\ items (load_end [0; 1] [1; 0] []) = [1; 0].
Proof. exact append_only_loses_order. Qed.

(* ================================================================ whole documents *)

(* save then load: every state of the modelled fragment comes back -- classes, attribute values,
   reference targets in order, nesting; no bound on depth, width or number of roots *)
Theorem C08_document_round_trip :
  forall (mm : mmodel) (o : opts) (F : list (tree (list path))),
  wf_mm mm = true -> wf_forest mm F = true ->
  decode_doc mm (encode_doc mm o F) = Some (map forget F).
Proof. exact document_round_trip. Qed.
Print Assumptions C08_document_round_trip.

(* read literally: an observation G (no `_isset`) is exactly what the document of the state in which
   every feature was assigned loads as *)
Theorem C08_document_round_trip_literal :
  forall (mm : mmodel) (o : opts) (G : list (tree (list path))),
  wf_mm mm = true -> map forget G = G -> wf_forest mm (map (set_all (all_ids mm)) G) = true ->
  decode_doc mm (encode_doc mm o (map (set_all (all_ids mm)) G)) = Some G.
Proof. exact document_round_trip_literal. Qed.
Print Assumptions C08_document_round_trip_literal.

(* the two phases of load, separately: (1) the element of an object is read back as the object with its
   attribute values, its children, and the reference texts kept aside; (2) the texts resolve against the
   tree built in phase 1 *)
Theorem C08_document_phase1 :
  forall (mm : mmodel) (o : opts) (S : list sk), wf_mm mm = true ->
  forall t, wf_tree mm S t = true ->
  forall tag xty, dec_obj mm (t_cls t) (enc_tree mm o S tag xty t) = Some (pre mm o S t).
Proof. exact phase1. Qed.
Print Assumptions C08_document_phase1.

Theorem C08_document_phase2 :
  forall (mm : mmodel) (o : opts) (S : list sk), wf_mm mm = true ->
  forall t, wf_tree mm S t = true -> link_tree mm S (pre mm o S t) = Some (forget t).
Proof. exact phase2. Qed.
Print Assumptions C08_document_phase2.

(* Resource.resolve (eURIFragment o) = o on trees, at the level of the TEXT of the fragment; the text can sit
   in a space-joined list and never reads as an external reference *)
Theorem C08_fragment_resolves :
  forall (mm : mmodel) (S : list sk) (p : path) (s : str),
  wf_mm mm = true -> render_path mm S p = Some s ->
  local s /\ has_hash s = false /\
  exists n ps c, nth_error S (fst p) = Some n /\ abs_steps mm n (snd p) = Some (ps, c)
                 /\ resolve_frag mm S s = Some (p, c).
Proof. exact resolve_render. Qed.
Print Assumptions C08_fragment_resolves.

(* the parser of fragments inverts the writer: '/' | '/<n>' then '/@name.<i>' | '/@name' steps *)
Theorem C08_fragment_text :
  forall (nroots r : nat) (ps : list pstep),
  Forall (fun p => 0 <= fst p) ps -> (nroots = 1%nat -> r = O) ->
  parse_frag (root_text nroots r ++ psteps_text ps) = Some (r, ps).
Proof. exact parse_frag_text. Qed.
Print Assumptions C08_fragment_text.

(* non-vacuity: two roots (xmi:XMI), a many attribute holding 'a b' (element form), a subclass instance
   under a containment declared with the superclass (xsi:type), two cross references in order, a
   reference to the second root, an empty string; every premise holds and the round trip is computed *)
Example C08_document_witness :
  wf_mm ex_mm = true /\ wf_forest ex_mm ex_forest = true /\
  encode_doc ex_mm (mkOpts false false) ex_forest =
    Elem TXmi None false []
      [Elem (TRoot 0) None false
         [(2, [47; 48; 47; 64; 1114115; 46; 49; 32; 47; 48; 47; 64; 1114115; 46; 48])]     (* '/0/@parts.1 /0/@parts.0' *)
         [Elem (TFeat 0) None false [] [] (Some [97; 32; 98]);
          Elem (TFeat 0) None false [] [] (Some [99]);
          Elem (TFeat 3) None false [] [] None;
          Elem (TFeat 3) (Some (false, 2)) false [(4, []); (5, [47; 49])] [] None] None;
       Elem (TRoot 0) None false [(1, [120])] [] None] None /\
  decode_doc ex_mm (encode_doc ex_mm (mkOpts false false) ex_forest) = Some (map forget ex_forest) /\
  decode_doc ex_mm (encode_doc ex_mm (mkOpts true true) ex_forest) = Some (map forget ex_forest).
Proof. vm_compute. repeat split; reflexivity. Qed.

(* the premise about `_isset` is needed: a value that differs from the default in a feature that is not in
   `_isset` (no state of pyecore: assigning puts the feature there) is not written, hence not read back *)
Example C08_document_unset_feature_is_not_written :
  let F := [Node 0 [] [(0, []); (1, [Some [120]])] [(2, [])] []] in
  wf_forest ex_mm F = false /\
  decode_doc ex_mm (encode_doc ex_mm (mkOpts false false) F)
  = Some [Node 0 [] [(0, []); (1, [Some [100]])] [(2, [])] []].
Proof. vm_compute. split; reflexivity. Qed.

(* ... and so is "a unique reference holds no target twice": the collection is a set *)
Example C08_document_unique_reference_is_a_set :
  let F := [Node 0 [2; 3] [(0, []); (1, [Some [100]])] [(2, [(0%nat, [(3, 0%nat)]); (0%nat, [(3, 0%nat)])])]
                 [(3, Node 1 [] [(4, [None])] [(5, [])] [])]] in
  wf_forest ex_mm F = false /\
  decode_doc ex_mm (encode_doc ex_mm (mkOpts false false) F)
  = Some [Node 0 [] [(0, []); (1, [Some [100]])] [(2, [(0%nat, [(3, 0%nat)])])]
               [(3, Node 1 [] [(4, [None])] [(5, [])] [])]].
Proof. vm_compute. split; reflexivity. Qed.
