(* Facts about the C3 linearisation of Model/C3.v:
   - whenever the merge succeeds, its result is duplicate-free and contains
     exactly the members of the merged sequences (C3_perm);
   - it keeps the order of every (duplicate-free) merged sequence;
   - the linearisation of a class contains exactly the classes reachable
     through the bases relation (reflexive-transitive closure), diamonds
     included; it is duplicate-free on acyclic graphs and starts with the class. *)
From Coq Require Import ZArith List Bool Lia.
From PyecoreV Require Import Lib.PyBase Lib.PyList Model.C3 Proofs.PyListFacts.
Import ListNotations.
Open Scope Z_scope.

Lemma zmem_In x l : zmem x l = true <-> In x l.
Proof. unfold zmem. apply memb_In. Qed.

Lemma zmem_false x l : zmem x l = false <-> ~ In x l.
Proof. unfold zmem. apply memb_false_In. Qed.

Lemma in_tail_false h s : in_tail h s = false -> ~ In h (tl s).
Proof. destruct s as [|a t]; simpl; [tauto|]. apply zmem_false. Qed.

(* ---------- the candidate ---------- *)

Lemma find_cand_head seqs all h :
  find_cand seqs all = Some h -> exists s t, In s seqs /\ s = h :: t.
Proof.
  induction seqs as [|s rest IH]; simpl; [discriminate|].
  destruct s as [|a t].
  - intros H. destruct (IH H) as (s & t & Hin & E). exists s, t. tauto.
  - destruct (existsb (in_tail a) all) eqn:E.
    + intros H. destruct (IH H) as (s & t' & Hin & E'). exists s, t'. tauto.
    + intros H. inversion H; subst. exists (h :: t), t. split; [left|]; reflexivity.
Qed.

Lemma find_cand_no_tail seqs all h :
  find_cand seqs all = Some h -> forall s, In s all -> ~ In h (tl s).
Proof.
  induction seqs as [|s rest IH]; simpl; [discriminate|].
  destruct s as [|a t]; [exact IH|].
  destruct (existsb (in_tail a) all) eqn:E; [exact IH|].
  intros H s Hs. inversion H; subst.
  apply in_tail_false.
  destruct (in_tail h s) eqn:E2; [|reflexivity].
  assert (existsb (in_tail h) all = true) by (apply existsb_exists; exists s; tauto).
  congruence.
Qed.

Lemma drop_head_incl x s y : In y (drop_head x s) -> In y s.
Proof.
  destruct s as [|h t]; simpl; [tauto|].
  destruct (h =? x); simpl; tauto.
Qed.

Lemma drop_head_keeps x s y : In y s -> y <> x -> In y (drop_head x s).
Proof.
  destruct s as [|h t]; simpl; [tauto|].
  destruct (Z.eqb_spec h x) as [E|N]; simpl; intros [H|H] Hy; subst; tauto.
Qed.

(* after the candidate has been taken off the heads it occurs nowhere *)
Lemma drop_head_gone h s : ~ In h (tl s) -> ~ In h (drop_head h s).
Proof.
  destruct s as [|a t]; simpl; [tauto|].
  destruct (Z.eqb_spec a h) as [E|N]; simpl; tauto.
Qed.

Lemma forallb_is_nil seqs : forallb is_nil seqs = true -> forall s, In s seqs -> s = [].
Proof.
  intros H s Hs. rewrite forallb_forall in H. specialize (H s Hs). destruct s; [reflexivity|discriminate].
Qed.

(* ---------- C3_perm: members ---------- *)

Lemma merge_In fuel : forall seqs l,
  merge fuel seqs = Some l -> forall x, In x l <-> exists s, In s seqs /\ In x s.
Proof.
  induction fuel as [|f IH]; intros seqs l H x; simpl in H.
  - destruct (forallb is_nil seqs) eqn:E; [|discriminate]. inversion H; subst.
    split; [intros []|]. intros (s & Hs & Hx). rewrite (forallb_is_nil _ E s Hs) in Hx. destruct Hx.
  - destruct (forallb is_nil seqs) eqn:E.
    + inversion H; subst. split; [intros []|]. intros (s & Hs & Hx).
      rewrite (forallb_is_nil _ E s Hs) in Hx. destruct Hx.
    + destruct (find_cand seqs seqs) as [h|] eqn:Ec; [|discriminate].
      destruct (merge f (map (drop_head h) seqs)) as [l'|] eqn:Em; [|discriminate].
      inversion H; subst. specialize (IH _ _ Em x). simpl. rewrite IH. split.
      * intros [Hx|(s' & Hs' & Hx)].
        -- subst. destruct (find_cand_head _ _ _ Ec) as (s & t & Hs & Es). exists s. split; [assumption|].
           subst. left; reflexivity.
        -- apply in_map_iff in Hs'. destruct Hs' as (s & Es & Hs). subst.
           exists s. split; [assumption|]. eapply drop_head_incl; eassumption.
      * intros (s & Hs & Hx). destruct (Z.eq_dec x h) as [E2|N]; [left; congruence|].
        right. exists (drop_head h s). split; [apply in_map; assumption|].
        apply drop_head_keeps; assumption.
Qed.

(* ---------- C3_perm: no duplicates ---------- *)

Lemma merge_NoDup fuel : forall seqs l, merge fuel seqs = Some l -> NoDup l.
Proof.
  induction fuel as [|f IH]; intros seqs l H; simpl in H.
  - destruct (forallb is_nil seqs); [|discriminate]. inversion H; constructor.
  - destruct (forallb is_nil seqs); [inversion H; constructor|].
    destruct (find_cand seqs seqs) as [h|] eqn:Ec; [|discriminate].
    destruct (merge f (map (drop_head h) seqs)) as [l'|] eqn:Em; [|discriminate].
    inversion H; subst. constructor; [|eapply IH; eassumption].
    intros Hin. apply (merge_In _ _ _ Em) in Hin. destruct Hin as (s' & Hs' & Hx).
    apply in_map_iff in Hs'. destruct Hs' as (s & Es & Hs). subst.
    apply (drop_head_gone h s); [|assumption].
    eapply find_cand_no_tail; eassumption.
Qed.

(* ---------- order of each merged sequence is kept ---------- *)

(* x comes before y in l *)
Definition before (x y : Z) (l : list Z) : Prop :=
  exists l1 l2, l = l1 ++ x :: l2 /\ In y l2.

Lemma before_cons_head x y l : In y l -> before x y (x :: l).
Proof. intros H. exists [], l. split; [reflexivity|assumption]. Qed.

Lemma before_cons a x y l : before x y l -> before x y (a :: l).
Proof. intros (l1 & l2 & E & H). exists (a :: l1), l2. subst. split; [reflexivity|assumption]. Qed.

Lemma before_In_r x y l : before x y l -> In y l.
Proof. intros (l1 & l2 & E & H). subst. apply in_or_app. right. right. assumption. Qed.

Lemma before_drop_head h x y s :
  NoDup s -> before x y s -> x <> h -> before x y (drop_head h s).
Proof.
  intros ND (l1 & l2 & E & Hy) Nx. subst.
  destruct l1 as [|a l1]; simpl.
  - destruct (Z.eqb_spec x h); [congruence|]. exists [], l2. split; [reflexivity|assumption].
  - destruct (Z.eqb_spec a h).
    + exists l1, l2. split; [reflexivity|assumption].
    + exists (a :: l1), l2. split; [reflexivity|assumption].
Qed.

Lemma NoDup_drop_head h s : NoDup s -> NoDup (drop_head h s).
Proof.
  destruct s as [|a t]; simpl; [constructor|].
  intros ND. destruct (a =? h); [inversion ND; assumption|assumption].
Qed.

Lemma merge_keeps_order fuel : forall seqs l,
  merge fuel seqs = Some l ->
  (forall s, In s seqs -> NoDup s) ->
  forall s x y, In s seqs -> before x y s -> before x y l.
Proof.
  induction fuel as [|f IH]; intros seqs l H ND s x y Hs Hb; simpl in H.
  - destruct (forallb is_nil seqs) eqn:E; [|discriminate].
    rewrite (forallb_is_nil _ E s Hs) in Hb. destruct Hb as (l1 & l2 & E2 & _). destruct l1; discriminate.
  - destruct (forallb is_nil seqs) eqn:E.
    + rewrite (forallb_is_nil _ E s Hs) in Hb. destruct Hb as (l1 & l2 & E2 & _). destruct l1; discriminate.
    + destruct (find_cand seqs seqs) as [h|] eqn:Ec; [|discriminate].
      destruct (merge f (map (drop_head h) seqs)) as [l'|] eqn:Em; [|discriminate].
      inversion H; subst.
      destruct (Z.eq_dec x h) as [Ex|Nx].
      * subst. apply before_cons_head.
        apply (merge_In _ _ _ Em). exists (drop_head h s). split; [apply in_map; assumption|].
        apply drop_head_keeps; [eapply before_In_r; eassumption|].
        (* y = h would put h in the tail of s *)
        intros Ey. subst. destruct Hb as (l1 & l2 & E2 & Hy). subst.
        pose proof (find_cand_no_tail _ _ _ Ec _ Hs) as Ht.
        specialize (ND _ Hs). destruct l1 as [|a l1]; simpl in *.
        -- apply Ht. assumption.
        -- apply Ht. apply in_or_app. right. left. reflexivity.
      * apply before_cons. apply (IH _ _ Em) with (s := drop_head h s).
        -- intros s' Hs'. apply in_map_iff in Hs'. destruct Hs' as (s0 & E0 & H0). subst.
           apply NoDup_drop_head. apply ND. assumption.
        -- apply in_map. assumption.
        -- apply before_drop_head; [apply ND; assumption|assumption|assumption].
Qed.

(* ---------- linearize ---------- *)

Theorem C3_perm c ms bs l :
  linearize c ms bs = Some l ->
  exists l', l = c :: l' /\ NoDup l' /\
    (forall x, In x l' <-> In x bs \/ exists m, In m ms /\ In x m).
Proof.
  unfold linearize, c3_merge. intros H.
  destruct (merge (S (total_len (ms ++ [bs]))) (ms ++ [bs])) as [l'|] eqn:E; [|discriminate].
  inversion H; subst. exists l'. split; [reflexivity|]. split; [eapply merge_NoDup; eassumption|].
  intros x. rewrite (merge_In _ _ _ E x). split.
  - intros (s & Hs & Hx). apply in_app_or in Hs. destruct Hs as [Hs|[Hs|[]]].
    + right. exists s. tauto.
    + subst. left. assumption.
  - intros [Hx|(m & Hm & Hx)].
    + exists bs. split; [apply in_or_app; right; left; reflexivity|assumption].
    + exists m. split; [apply in_or_app; left; assumption|assumption].
Qed.

(* local precedence: the bases come in their declared order; and the
   linearisation of every base is kept (monotonicity) *)
Theorem C3_keeps_order c ms bs l :
  linearize c ms bs = Some l -> NoDup bs -> (forall m, In m ms -> NoDup m) ->
  (forall x y, before x y bs -> before x y l) /\
  (forall m x y, In m ms -> before x y m -> before x y l).
Proof.
  unfold linearize, c3_merge. intros H NDb NDm.
  destruct (merge (S (total_len (ms ++ [bs]))) (ms ++ [bs])) as [l'|] eqn:E; [|discriminate].
  inversion H; subst.
  assert (ND : forall s, In s (ms ++ [bs]) -> NoDup s).
  { intros s Hs. apply in_app_or in Hs. destruct Hs as [Hs|[Hs|[]]]; [apply NDm; assumption|subst; assumption]. }
  split.
  - intros x y Hb. apply before_cons. eapply merge_keeps_order; try eassumption.
    apply in_or_app; right; left; reflexivity.
  - intros m x y Hm Hb. apply before_cons. eapply merge_keeps_order; try eassumption.
    apply in_or_app; left; assumption.
Qed.

(* ---------- linearisation of a class in a graph ---------- *)

Lemma map_opt_Some {A B} (f : A -> option B) l r :
  map_opt f l = Some r ->
  (forall x, In x l -> exists y, f x = Some y /\ In y r) /\
  (forall y, In y r -> exists x, In x l /\ f x = Some y).
Proof.
  revert r. induction l as [|a l IH]; simpl; intros r H.
  - inversion H; subst. split; [intros x []|intros y []].
  - destruct (f a) as [b|] eqn:Ea; [|discriminate].
    destruct (map_opt f l) as [r'|] eqn:El; [|discriminate].
    inversion H; subst. destruct (IH _ eq_refl) as [I1 I2]. split.
    + intros x [Hx|Hx].
      * subst. exists b. split; [assumption|left; reflexivity].
      * destruct (I1 x Hx) as (y & Ey & Hy). exists y. split; [assumption|right; assumption].
    + intros y [Hy|Hy].
      * subst. exists a. split; [left; reflexivity|assumption].
      * destruct (I2 y Hy) as (x & Hx & Ex). exists x. split; [right; assumption|assumption].
Qed.

Section Graph.
  Variable g : Z -> list Z.

  (* c reaches x through the bases relation *)
  Inductive reach : Z -> Z -> Prop :=
  | reach_refl c : reach c c
  | reach_step c b x : In b (g c) -> reach b x -> reach c x.

  Lemma reach_trans a b c : reach a b -> reach b c -> reach a c.
  Proof. induction 1; [tauto|]. intros H2. eapply reach_step; [eassumption|]. tauto. Qed.

  (* one unfolding of a successful linearisation (C3 case: alt = false) *)
  Lemma mro_of_unfold f c l :
    mro_of g false (S f) c = Some l ->
    exists ms l', map_opt (mro_of g false f) (g c) = Some ms /\ l = c :: l' /\ NoDup l' /\
      (forall x, In x l' <-> In x (g c) \/ exists m, In m ms /\ In x m).
  Proof.
    simpl. destruct (map_opt (mro_of g false f) (g c)) as [ms|] eqn:E; [|discriminate].
    destruct (linearize c ms (g c)) as [l0|] eqn:El; [|discriminate].
    intros H. inversion H; subst. destruct (C3_perm _ _ _ _ El) as (l' & E1 & ND & I).
    exists ms, l'. tauto.
  Qed.

  Lemma mro_of_head fuel c l : mro_of g false fuel c = Some l -> exists l', l = c :: l'.
  Proof.
    destruct fuel as [|f]; [discriminate|]. intros H.
    destruct (mro_of_unfold _ _ _ H) as (ms & l' & _ & E & _). exists l'. assumption.
  Qed.

  (* isinstance = reflexive-transitive closure of the bases relation *)
  Theorem mro_of_closure fuel : forall c l,
    mro_of g false fuel c = Some l -> forall x, In x l <-> reach c x.
  Proof.
    induction fuel as [|f IH]; intros c l H x; [discriminate|].
    destruct (mro_of_unfold _ _ _ H) as (ms & l' & Em & E & ND & I). subst l.
    destruct (map_opt_Some _ _ _ Em) as [M1 M2].
    split.
    - intros [Hx|Hx]; [subst; constructor|].
      apply I in Hx. destruct Hx as [Hx|(m & Hm & Hx)].
      + eapply reach_step; [eassumption|constructor].
      + destruct (M2 m Hm) as (b & Hb & Eb).
        eapply reach_step; [eassumption|]. apply (IH _ _ Eb). assumption.
    - intros Hr. inversion Hr as [|c0 b x0 Hb Hbx]; subst; [left; reflexivity|].
      right. apply I. destruct (M1 b Hb) as (m & Eb & Hm).
      right. exists m. split; [assumption|]. apply (IH _ _ Eb). assumption.
  Qed.

  (* acyclic graphs: a rank that decreases along bases *)
  Variable rk : Z -> nat.
  Hypothesis rk_dec : forall c b, In b (g c) -> (rk b < rk c)%nat.

  Lemma reach_rank c x : reach c x -> x = c \/ (rk x < rk c)%nat.
  Proof.
    induction 1 as [|c b x Hb _ IH]; [left; reflexivity|].
    right. specialize (rk_dec _ _ Hb). destruct IH; [subst; assumption|lia].
  Qed.

  Theorem mro_of_NoDup fuel c l : mro_of g false fuel c = Some l -> NoDup l.
  Proof.
    intros H. destruct fuel as [|f]; [discriminate|].
    pose proof (mro_of_closure _ _ _ H) as Cl.
    destruct (mro_of_unfold _ _ _ H) as (ms & l' & Em & E & ND & I). subst l.
    constructor; [|assumption].
    intros Hin.
    destruct (map_opt_Some _ _ _ Em) as [M1 M2].
    apply I in Hin. destruct Hin as [Hx|(m & Hm & Hx)].
    - specialize (rk_dec _ _ Hx). lia.
    - destruct (M2 m Hm) as (b & Hb & Eb).
      apply (mro_of_closure _ _ _ Eb) in Hx. apply reach_rank in Hx.
      specialize (rk_dec _ _ Hb). destruct Hx; [subst|]; lia.
  Qed.
End Graph.
