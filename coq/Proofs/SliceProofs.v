(* Proofs about Model/Slice.v: what a step-1 slice assignment / deletion / read does to a list-based
   collection, for every bound in Z (absent, negative, past the end, crossing), and how the slice calls
   relate to the element-level operations; for OrderedSet-based collections: refinement of the
   duplicate-free list specification for histories that mix element-level and slice calls. *)
From Coq Require Import ZArith List Bool Lia.
From PyecoreV Require Import Lib.PyBase Lib.PyList Model.OSet Model.Coll Model.Slice Proofs.OSetProofs.
Import ListNotations.
Open Scope Z_scope.

Lemma zlen_nonneg {A} (l : list A) : 0 <= zlen l.
Proof. unfold zlen. lia. Qed.

Lemma adjust_range len d i : 0 <= len -> 0 <= d <= len -> 0 <= adjust len d i <= len.
Proof. intros Hl Hd. unfold adjust. destruct i as [i|]; [|lia]. destruct (Z.ltb_spec i 0); lia. Qed.

Lemma slice_bounds_range len a b lo hi :
  0 <= len -> slice_bounds len a b = (lo, hi) -> 0 <= lo /\ lo <= hi /\ hi <= len.
Proof.
  intros Hl H. unfold slice_bounds in H. injection H as <- <-.
  pose proof (adjust_range len 0 a Hl ltac:(lia)). pose proof (adjust_range len len b Hl ltac:(lia)). lia.
Qed.

(* ---------- length ---------- *)
Lemma setslice_length {A} a b (ys l : list A) :
  let '(lo, hi) := slice_bounds (zlen l) a b in
  zlen (py_setslice a b ys l) = zlen l - (hi - lo) + zlen ys.
Proof.
  unfold py_setslice. destruct (slice_bounds (zlen l) a b) as [lo hi] eqn:E.
  destruct (slice_bounds_range _ _ _ _ _ (zlen_nonneg l) E) as (H0 & H1 & H2).
  unfold zlen in *. rewrite !app_length, firstn_length, skipn_length. lia.
Qed.

Lemma getslice_length {A} a b (l : list A) :
  let '(lo, hi) := slice_bounds (zlen l) a b in zlen (py_getslice a b l) = hi - lo.
Proof.
  unfold py_getslice. destruct (slice_bounds (zlen l) a b) as [lo hi] eqn:E.
  destruct (slice_bounds_range _ _ _ _ _ (zlen_nonneg l) E) as (H0 & H1 & H2).
  unfold zlen in *. rewrite firstn_length, skipn_length. lia.
Qed.

(* ---------- content, position by position ---------- *)
Lemma nth_error_skipn {A} n k (l : list A) : nth_error (skipn n l) k = nth_error l (n + k).
Proof.
  revert l. induction n as [|n IH]; intros l; [reflexivity|].
  destruct l as [|x xs]; [destruct k; reflexivity | simpl; apply IH].
Qed.

Lemma nth_error_firstn {A} n k (l : list A) : (k < n)%nat -> nth_error (firstn n l) k = nth_error l k.
Proof.
  revert k l. induction n as [|n IH]; intros k l H; [lia|].
  destruct l as [|x xs]; [destruct k; reflexivity|]. destruct k as [|k]; [reflexivity|]. simpl. apply IH. lia.
Qed.

(* before the slice: unchanged; inside: the new elements in their order; behind: the old tail, shifted *)
Theorem setslice_nth {A} a b (ys l : list A) (k : nat) :
  let '(lo, hi) := slice_bounds (zlen l) a b in
  nth_error (py_setslice a b ys l) k =
    if Z.of_nat k <? lo then nth_error l k
    else if Z.of_nat k <? lo + zlen ys then nth_error ys (k - Z.to_nat lo)
    else nth_error l (k - length ys + Z.to_nat (hi - lo)).
Proof.
  unfold py_setslice. destruct (slice_bounds (zlen l) a b) as [lo hi] eqn:E.
  destruct (slice_bounds_range _ _ _ _ _ (zlen_nonneg l) E) as (H0 & H1 & H2).
  unfold zlen in *.
  assert (Hfl : length (firstn (Z.to_nat lo) l) = Z.to_nat lo) by (rewrite firstn_length; lia).
  destruct (Z.ltb_spec (Z.of_nat k) lo) as [Hk|Hk].
  - rewrite nth_error_app1 by lia. apply nth_error_firstn. lia.
  - rewrite nth_error_app2 by lia. rewrite Hfl.
    destruct (Z.ltb_spec (Z.of_nat k) (lo + Z.of_nat (length ys))) as [Hk2|Hk2].
    + rewrite nth_error_app1 by lia. reflexivity.
    + rewrite nth_error_app2 by lia. rewrite nth_error_skipn. f_equal. lia.
Qed.

Theorem getslice_nth {A} a b (l : list A) (k : nat) :
  let '(lo, hi) := slice_bounds (zlen l) a b in
  nth_error (py_getslice a b l) k = if Z.of_nat k <? hi - lo then nth_error l (Z.to_nat lo + k) else None.
Proof.
  unfold py_getslice. destruct (slice_bounds (zlen l) a b) as [lo hi] eqn:E.
  destruct (slice_bounds_range _ _ _ _ _ (zlen_nonneg l) E) as (H0 & H1 & H2).
  destruct (Z.ltb_spec (Z.of_nat k) (hi - lo)) as [Hk|Hk].
  - rewrite nth_error_firstn by lia. apply nth_error_skipn.
  - apply nth_error_None. rewrite firstn_length. lia.
Qed.

(* ---------- algebra ---------- *)
Lemma skipn_plus {A} (m n : nat) (l : list A) : skipn m (skipn n l) = skipn (n + m) l.
Proof.
  revert l. induction n as [|n IH]; intros l; [reflexivity|].
  destruct l as [|x xs]; [destruct m; reflexivity | simpl; apply IH].
Qed.

Lemma firstn_skipn_mid {A} (n m : nat) (l : list A) :
  (n <= m)%nat -> firstn n l ++ firstn (m - n) (skipn n l) ++ skipn m l = l.
Proof.
  intros H. rewrite <- (firstn_skipn n l) at 4. f_equal.
  rewrite <- (firstn_skipn (m - n) (skipn n l)) at 2. f_equal.
  rewrite skipn_plus. f_equal. lia.
Qed.

(* writing back what a slice reads changes nothing *)
Theorem setslice_getslice_id {A} a b (l : list A) : py_setslice a b (py_getslice a b l) l = l.
Proof.
  unfold py_setslice, py_getslice. destruct (slice_bounds (zlen l) a b) as [lo hi] eqn:E.
  destruct (slice_bounds_range _ _ _ _ _ (zlen_nonneg l) E) as (H0 & H1 & H2).
  replace (Z.to_nat (hi - lo)) with (Z.to_nat hi - Z.to_nat lo)%nat by lia.
  apply firstn_skipn_mid. lia.
Qed.

(* the new elements are read back at the position they were written to *)
Theorem getslice_setslice {A} a b (ys l : list A) :
  let '(lo, _) := slice_bounds (zlen l) a b in
  py_getslice (Some lo) (Some (lo + zlen ys)) (py_setslice a b ys l) = ys.
Proof.
  pose proof (setslice_length a b ys l) as HL.
  destruct (slice_bounds (zlen l) a b) as [lo hi] eqn:E.
  destruct (slice_bounds_range _ _ _ _ _ (zlen_nonneg l) E) as (H0 & H1 & H2).
  pose proof (zlen_nonneg ys) as Hy.
  unfold py_getslice, slice_bounds, adjust. rewrite HL.
  destruct (Z.ltb_spec lo 0); [lia|]. destruct (Z.ltb_spec (lo + zlen ys) 0); [lia|].
  rewrite (Z.min_l lo) by lia. rewrite (Z.min_l (lo + zlen ys)) by lia. rewrite Z.max_r by lia.
  unfold py_setslice. rewrite E.
  assert (Hfl : length (firstn (Z.to_nat lo) l) = Z.to_nat lo) by (rewrite firstn_length; unfold zlen in *; lia).
  rewrite skipn_app, Hfl, Nat.sub_diag. simpl skipn at 2.
  rewrite (skipn_all2 (firstn (Z.to_nat lo) l)) by lia. simpl.
  replace (Z.to_nat (lo + zlen ys - lo)) with (length ys) by (unfold zlen; lia).
  rewrite firstn_app, Nat.sub_diag, firstn_all. simpl. apply app_nil_r.
Qed.

Theorem setslice_all {A} (ys l : list A) : py_setslice None None ys l = ys.
Proof.
  unfold py_setslice, slice_bounds, adjust. rewrite Z.max_r by apply zlen_nonneg.
  simpl. unfold zlen. rewrite Nat2Z.id, skipn_all. apply app_nil_r.
Qed.

Theorem delslice_all {A} (l : list A) : py_delslice None None l = [].
Proof. apply setslice_all. Qed.

Theorem getslice_all {A} (l : list A) : py_getslice None None l = l.
Proof.
  unfold py_getslice, slice_bounds, adjust. rewrite Z.max_r by apply zlen_nonneg.
  simpl. rewrite Z.sub_0_r. unfold zlen. rewrite Nat2Z.id. apply firstn_all.
Qed.

(* what is left after a deletion is what is read before and behind the slice *)
Theorem delslice_is_rest {A} a b (l : list A) :
  let '(lo, hi) := slice_bounds (zlen l) a b in
  py_delslice a b l = py_getslice None (Some lo) l ++ py_getslice (Some hi) None l.
Proof.
  destruct (slice_bounds (zlen l) a b) as [lo hi] eqn:E.
  destruct (slice_bounds_range _ _ _ _ _ (zlen_nonneg l) E) as (H0 & H1 & H2).
  unfold py_delslice, py_setslice. rewrite E. simpl.
  unfold py_getslice, slice_bounds, adjust.
  destruct (Z.ltb_spec lo 0); [lia|]. destruct (Z.ltb_spec hi 0); [lia|].
  rewrite (Z.min_l lo) by lia. rewrite (Z.min_l hi) by lia. rewrite !Z.max_r by lia.
  simpl. rewrite Z.sub_0_r. f_equal.
  symmetry. apply firstn_all2. rewrite skipn_length. unfold zlen in *. lia.
Qed.

(* ---------- the element-level operations are slice calls ---------- *)
Lemma insert_at_split {A} n (x : A) l : (n <= length l)%nat -> insert_at n x l = firstn n l ++ x :: skipn n l.
Proof.
  revert l. induction n as [|n IH]; intros l H; [destruct l; reflexivity|].
  destruct l as [|y ys]; [simpl in H; lia|]. simpl. f_equal. apply IH. simpl in H. lia.
Qed.

(* c[i:i] = [x]  is  c.insert(i, x), for every i *)
Theorem insert_is_setslice {A} i (x : A) l : py_setslice (Some i) (Some i) [x] l = py_insert i x l.
Proof.
  unfold py_setslice, py_insert, slice_bounds, adjust, clamp_index. pose proof (zlen_nonneg l) as Hl.
  rewrite Z.max_id. rewrite insert_at_split; [reflexivity|].
  unfold zlen in *. destruct (Z.ltb_spec i 0); lia.
Qed.

Lemma set_at_split {A} n (x : A) l : (n < length l)%nat -> set_at n x l = firstn n l ++ x :: skipn (S n) l.
Proof.
  revert n. induction l as [|y ys IH]; intros n H; [simpl in H; lia|].
  destruct n as [|n]; [reflexivity|]. simpl. f_equal. apply IH. simpl in H. lia.
Qed.

Lemma remove_at_split {A} n (l : list A) : (n < length l)%nat -> remove_at n l = firstn n l ++ skipn (S n) l.
Proof.
  revert n. induction l as [|y ys IH]; intros n H; [simpl in H; lia|].
  destruct n as [|n]; [reflexivity|]. simpl. f_equal. apply IH. simpl in H. lia.
Qed.

Lemma bounds_one {A} (l : list A) k : 0 <= k < zlen l -> slice_bounds (zlen l) (Some k) (Some (k + 1)) = (k, k + 1).
Proof.
  intros H. unfold slice_bounds, adjust.
  destruct (Z.ltb_spec k 0); [lia|]. destruct (Z.ltb_spec (k + 1) 0); [lia|].
  rewrite (Z.min_l k) by lia. rewrite (Z.min_l (k + 1)) by lia. rewrite Z.max_r by lia. reflexivity.
Qed.

(* c[k:k+1] = [x]  is  c[k] = x ;  del c[k:k+1]  is  del c[k]   (k a valid position) *)
Theorem setitem_is_setslice {A} k (x : A) l :
  0 <= k < zlen l -> py_setslice (Some k) (Some (k + 1)) [x] l = set_at (Z.to_nat k) x l.
Proof.
  intros H. unfold py_setslice. rewrite bounds_one by exact H.
  rewrite set_at_split by (unfold zlen in H; lia). replace (Z.to_nat (k + 1)) with (S (Z.to_nat k)) by lia. reflexivity.
Qed.

Theorem delitem_is_delslice {A} k (l : list A) :
  0 <= k < zlen l -> py_delslice (Some k) (Some (k + 1)) l = remove_at (Z.to_nat k) l.
Proof.
  intros H. unfold py_delslice, py_setslice. rewrite bounds_one by exact H.
  rewrite remove_at_split by (unfold zlen in H; lia). replace (Z.to_nat (k + 1)) with (S (Z.to_nat k)) by lia. reflexivity.
Qed.

(* c[len(c):] = ys  is  c.extend(ys) *)
Theorem extend_is_setslice {A} (ys l : list A) : py_setslice (Some (zlen l)) None ys l = l ++ ys.
Proof.
  unfold py_setslice, slice_bounds, adjust. pose proof (zlen_nonneg l) as Hl.
  destruct (Z.ltb_spec (zlen l) 0); [lia|]. rewrite Z.min_id, Z.max_id.
  unfold zlen. rewrite Nat2Z.id, firstn_all, skipn_all, app_nil_r. reflexivity.
Qed.

(* a list-based collection never refuses a slice call, and the element-level calls keep Coll.v's behaviour *)
Theorem slist_slices_accepted a b ys l :
  (exists l', slist_step (SSetSlice a b ys) l = Ok (l', None, [])) /\
  (exists l', slist_step (SDelSlice a b) l = Ok (l', None, [])) /\
  (exists r, slist_step (SGetSlice a b) l = Ok (l, None, r)).
Proof. repeat split; eexists; reflexivity. Qed.

(* ---------- OrderedSet-based collections: histories with slice calls refine the list specification ---------- *)
Definition sstep_agree (r : sres oset) (s : sres (list Z)) : Prop :=
  match r, s with
  | Ok (o', v, ret), Ok (l', v', ret') => v = v' /\ ret = ret' /\ items o' = l' /\ os_inv o'
  | Err e, Err e' => e = e'
  | _, _ => False
  end.

Theorem soset_step_refines op o : os_inv o -> sstep_agree (soset_step op o) (suspec_step op (items o)).
Proof.
  intros Hinv. destruct op as [c|a b ys|a b|a b]; unfold soset_step, suspec_step, sstep_agree.
  - pose proof (oset_step_refines c o Hinv) as H. unfold step_agree in H. unfold lift.
    destruct (oset_step c o) as [[o' v]|e]; destruct (uspec_step c (items o)) as [[l' v']|e']; try tauto.
  - reflexivity.
  - destruct (is_all a b); [|reflexivity]. split; [reflexivity|]. split; [reflexivity|]. split; [reflexivity | exact os_empty_inv].
  - split; [reflexivity|]. split; [reflexivity|]. split; [reflexivity | exact Hinv].
Qed.

Lemma snext_ok op o :
  os_inv o -> os_inv (snext soset_step o op) /\ items (snext soset_step o op) = snext suspec_step (items o) op.
Proof.
  intros Hinv. pose proof (soset_step_refines op o Hinv) as H. unfold sstep_agree in H. unfold snext.
  destruct (soset_step op o) as [[[o' v] r]|e]; destruct (suspec_step op (items o)) as [[[l' v'] r']|e']; tauto.
Qed.

Theorem soset_history ops :
  os_inv (fold_left (snext soset_step) ops os_empty) /\
  items (fold_left (snext soset_step) ops os_empty) = fold_left (snext suspec_step) ops [].
Proof.
  assert (G : forall o, os_inv o ->
              os_inv (fold_left (snext soset_step) ops o) /\
              items (fold_left (snext soset_step) ops o) = fold_left (snext suspec_step) ops (items o)).
  { induction ops as [|op ops IH]; intros o Hinv; simpl; [auto|].
    destruct (snext_ok op o Hinv) as [H1 H2]. rewrite <- H2. apply IH. exact H1. }
  apply (G os_empty os_empty_inv).
Qed.

(* a refused slice call leaves the collection as it was *)
Theorem soset_refusal_keeps op o e : soset_step op o = Err e -> snext soset_step o op = o.
Proof. intros H. unfold snext. rewrite H. reflexivity. Qed.

(* ---------- typing and the observer's multiset ---------- *)
From Coq Require Import Permutation.

Lemma Forall_firstn_skipn {A} (P : A -> Prop) n (l : list A) :
  Forall P l -> Forall P (firstn n l) /\ Forall P (skipn n l).
Proof. intros H. rewrite <- (firstn_skipn n l) in H. apply Forall_app in H. exact H. Qed.

(* C03: a slice assignment of conforming values into a conforming collection leaves only conforming values *)
Theorem setslice_typed {A} (P : A -> Prop) a b (ys l : list A) :
  Forall P l -> Forall P ys -> Forall P (py_setslice a b ys l) /\ Forall P (py_getslice a b l).
Proof.
  intros Hl Hy. unfold py_setslice, py_getslice. destruct (slice_bounds (zlen l) a b) as [lo hi]. split.
  - apply Forall_app. split; [apply (Forall_firstn_skipn P _ l Hl)|].
    apply Forall_app. split; [exact Hy | apply (Forall_firstn_skipn P _ l Hl)].
  - apply (Forall_firstn_skipn P _ _ (proj2 (Forall_firstn_skipn P _ l Hl))).
Qed.

(* C05: an observer told "the slice read before the call was removed, ys were added" holds the new content as a multiset *)
Theorem setslice_mirror {A} a b (ys l : list A) :
  Permutation (py_setslice a b ys l ++ py_getslice a b l) (l ++ ys).
Proof.
  unfold py_setslice, py_getslice. destruct (slice_bounds (zlen l) a b) as [lo hi] eqn:E.
  destruct (slice_bounds_range _ _ _ _ _ (zlen_nonneg l) E) as (H0 & H1 & H2).
  set (F := firstn (Z.to_nat lo) l). set (S := skipn (Z.to_nat hi) l).
  set (M := firstn (Z.to_nat (hi - lo)) (skipn (Z.to_nat lo) l)).
  assert (Hl : l = F ++ M ++ S).
  { unfold F, M, S. replace (Z.to_nat (hi - lo)) with (Z.to_nat hi - Z.to_nat lo)%nat by lia.
    symmetry. apply firstn_skipn_mid. lia. }
  rewrite Hl at 1. rewrite <- !app_assoc. apply Permutation_app_head.
  (* ys ++ S ++ M  ~  M ++ S ++ ys *)
  rewrite (Permutation_app_comm ys (S ++ M)). rewrite <- app_assoc.
  rewrite (Permutation_app_comm S (M ++ ys)). rewrite <- app_assoc.
  apply Permutation_app_head. apply Permutation_app_comm.
Qed.

(* ---------- the notifications of EList.__setitem__ with a slice, and the observer ---------- *)
Lemma remove_first_in x l :
  In x l -> exists l1, remove_first Z.eqb x l = Some l1 /\ Permutation l (x :: l1).
Proof.
  induction l as [|y ys IH]; intros H; [destruct H|]. simpl.
  destruct (Z.eqb_spec y x) as [E|N].
  - subst y. exists ys. split; [reflexivity | apply Permutation_refl].
  - destruct H as [H|H]; [congruence|]. destruct (IH H) as (l1 & H1 & H2). rewrite H1.
    exists (y :: l1). split; [reflexivity|].
    apply perm_trans with (y :: x :: l1); [apply perm_skip; exact H2 | apply perm_swap].
Qed.

Lemma remove_each_perm xs : forall l r,
  Permutation l (xs ++ r) -> exists m, remove_each xs l = Some m /\ Permutation m r.
Proof.
  induction xs as [|x xs IH]; intros l r H; simpl.
  - exists l. split; [reflexivity | exact H].
  - assert (Hin : In x l) by (apply (Permutation_in x (Permutation_sym H)); left; reflexivity).
    destruct (remove_first_in x l Hin) as (l1 & H1 & H2). rewrite H1.
    apply IH. apply Permutation_cons_inv with x.
    apply perm_trans with l; [apply Permutation_sym; exact H2 | exact H].
Qed.

Lemma setslice_split a b (ys l : list Z) :
  exists F S, l = F ++ py_getslice a b l ++ S /\ py_setslice a b ys l = F ++ ys ++ S.
Proof.
  unfold py_setslice, py_getslice. destruct (slice_bounds (zlen l) a b) as [lo hi] eqn:E.
  destruct (slice_bounds_range _ _ _ _ _ (zlen_nonneg l) E) as (H0 & H1 & H2).
  exists (firstn (Z.to_nat lo) l), (skipn (Z.to_nat hi) l). split; [|reflexivity].
  replace (Z.to_nat (hi - lo)) with (Z.to_nat hi - Z.to_nat lo)%nat by lia.
  symmetry. apply firstn_skipn_mid. lia.
Qed.

(* an accepted slice assignment with a NON-EMPTY right-hand side: the observer can apply everything it is told and
   ends with the new content as a multiset *)
Theorem elist_setslice_mirrors ok a b ys l l' ns :
  ys <> [] -> elist_setslice ok a b ys l = Ok (l', ns) ->
  l' = py_setslice a b ys l /\ exists m, mirror l ns = Some m /\ Permutation m l'.
Proof.
  intros Hne H. unfold elist_setslice in H. destruct (forallb ok ys); [|discriminate].
  injection H as <- <-. split; [reflexivity|].
  destruct (setslice_split a b ys l) as (F & S & Hl & Hs). rewrite Hs.
  set (old := py_getslice a b l) in *.
  assert (Hrem : exists m1, remove_each old l = Some m1 /\ Permutation m1 (F ++ S)).
  { apply remove_each_perm. rewrite Hl at 1.
    rewrite app_assoc. rewrite (Permutation_app_comm F old). rewrite <- app_assoc. apply Permutation_refl. }
  destruct Hrem as (m1 & Hr & Hp).
  assert (Hadd : forall m0, Permutation m0 (F ++ S) ->
            exists m, mirror m0 (match ys with [] => [NAddEmpty] | [y] => [NAdd y] | _ => [NAddMany ys] end) = Some m /\
                      Permutation m (F ++ ys ++ S)).
  { intros m0 Hm0. exists (m0 ++ ys). split.
    - destruct ys as [|y [|y2 ys2]]; [congruence | reflexivity | reflexivity].
    - apply perm_trans with ((F ++ S) ++ ys); [apply Permutation_app_tail; exact Hm0|].
      rewrite <- app_assoc. apply Permutation_app_head. apply Permutation_app_comm. }
  destruct old as [|x [|x2 old2]] eqn:Eo.
  - simpl in Hr. injection Hr as <-. simpl app. apply Hadd. exact Hp.
  - cbn [remove_each] in Hr. cbn [app mirror mirror1].
    destruct (remove_first Z.eqb x l) as [l1|]; [|discriminate]. injection Hr as ->.
    apply Hadd. exact Hp.
  - cbn [app mirror mirror1]. rewrite Hr. apply Hadd. exact Hp.
Qed.

(* an EMPTY right-hand side: the last thing the observer is told is an ADD whose payload is the empty list itself -
   no element; it cannot mirror the call (the known finding of C05 on `c[a:b] = []`) *)
Theorem elist_setslice_empty_refuted ok a b l l' ns :
  elist_setslice ok a b [] l = Ok (l', ns) -> mirror l ns = None /\ l' = py_delslice a b l.
Proof.
  intros H. unfold elist_setslice in H. simpl forallb in H. injection H as <- <-. split; [|reflexivity].
  destruct (setslice_split a b [] l) as (F & S & Hl & _).
  set (old := py_getslice a b l) in *.
  assert (Hrem : exists m1, remove_each old l = Some m1).
  { destruct (remove_each_perm old l (F ++ S)) as (m1 & H1 & _); [|exists m1; exact H1].
    rewrite Hl at 1. rewrite app_assoc. rewrite (Permutation_app_comm F old). rewrite <- app_assoc. apply Permutation_refl. }
  destruct Hrem as (m1 & Hr).
  destruct old as [|x [|x2 old2]].
  - reflexivity.
  - cbn [remove_each] in Hr. cbn [app mirror mirror1]. destruct (remove_first Z.eqb x l); [reflexivity | discriminate].
  - cbn [app mirror mirror1]. rewrite Hr. reflexivity.
Qed.

(* a refused call (one ill-typed value, wherever it stands) reports nothing and, returning no new content, changes nothing *)
Theorem elist_setslice_refusal ok a b ys l :
  forallb ok ys = false -> elist_setslice ok a b ys l = Err BadValue.
Proof. intros H. unfold elist_setslice. rewrite H. reflexivity. Qed.

(* ---------- inverse bookkeeping of a slice assignment ---------- *)
Lemma zmem_In x l : zmem x l = true <-> In x l.
Proof.
  unfold zmem. induction l as [|y ys IH]; simpl; [split; [discriminate | tauto]|].
  rewrite Bool.orb_true_iff, IH, Z.eqb_eq. tauto.
Qed.

Lemma release_In x old inv : In x (release old inv) <-> In x inv /\ ~ In x old.
Proof.
  unfold release. rewrite filter_In. split.
  - intros [H1 H2]. split; [exact H1|]. intros Ho. apply zmem_In in Ho. rewrite Ho in H2. discriminate.
  - intros [H1 H2]. split; [exact H1|]. destruct (zmem x old) eqn:E; [|reflexivity]. apply zmem_In in E. contradiction.
Qed.

Lemma nodup_app_disjoint {A} (X Y : list A) x : NoDup (X ++ Y) -> In x X -> In x Y -> False.
Proof.
  induction X as [|h X IH]; intros Hnd HX HY; [destruct HX|]. simpl in Hnd. inversion Hnd as [|? ? Hn Hnd']; subst.
  destruct HX as [->|HX]; [apply Hn; apply in_or_app; right; exact HY | exact (IH Hnd' HX HY)].
Qed.

Lemma nodup_app_r {A} (X Y : list A) : NoDup (X ++ Y) -> NoDup Y.
Proof. induction X as [|h X IH]; simpl; intros H; [exact H | inversion H; auto]. Qed.

(* duplicate-free list, every element recorded and nothing else: after  c[a:b] = ys  (release, then link) exactly the
   elements of the new list are recorded - also those that were replaced AND assigned again *)
Theorem release_then_link_exact a b (ys l inv : list Z) :
  NoDup l -> (forall x, In x inv <-> In x l) ->
  forall x, In x (release_then_link (py_getslice a b l) ys inv) <-> In x (py_setslice a b ys l).
Proof.
  intros Hnd Hinv x. destruct (setslice_split a b ys l) as (F & S & Hl & Hs). rewrite Hs.
  set (M := py_getslice a b l) in *. unfold release_then_link.
  rewrite in_app_iff, release_In, Hinv. rewrite Hl in Hnd |- *.
  assert (HFS : In x (F ++ M ++ S) /\ ~ In x M <-> In x F \/ In x S).
  { rewrite !in_app_iff. split.
    - intros [[H|[H|H]] Hn]; tauto.
    - intros [H|H]; (split; [tauto|]); intros HM.
      + apply (nodup_app_disjoint F (M ++ S) x Hnd H). apply in_or_app. left. exact HM.
      + apply (nodup_app_disjoint M S x (nodup_app_r F (M ++ S) Hnd) HM H). }
  rewrite HFS. rewrite !in_app_iff. tauto.
Qed.

(* linking first and releasing afterwards (the code before fix 98a932c) loses the record of an element that is
   replaced and assigned again:  c = [1; 2];  c[0:2] = [2; 3]  leaves 2 in the list, unrecorded *)
Theorem link_then_release_refuted :
  exists a b ys l x,
    NoDup l /\ In x (py_setslice a b ys l) /\ ~ In x (link_then_release (py_getslice a b l) ys l).
Proof.
  exists (Some 0), (Some 2), [2; 3], [1; 2], 2. split; [|split].
  - repeat constructor; simpl; intuition discriminate.
  - vm_compute. tauto.
  - vm_compute. intuition discriminate.
Qed.
