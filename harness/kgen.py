"""Generators of metamodels, universes and histories for the kernel properties.
Every random choice comes from the rng passed in."""

# feature templates: (name, owner, kind, type, many, ordered, unique, containment, opposite-template-name)
TEMPLATES = {
    # bidirectional pairs A<->B in the four multiplicity pairings
    'p11': [('ab11', 'A', 'ref', 'B', False, True, True, False, 'ba11'), ('ba11', 'B', 'ref', 'A', False, True, True, False, 'ab11')],
    'p1n': [('ab1', 'A', 'ref', 'B', False, True, True, False, 'ban'), ('ban', 'B', 'ref', 'A', True, True, True, False, 'ab1')],
    'pn1': [('abn', 'A', 'ref', 'B', True, True, True, False, 'ba1'), ('ba1', 'B', 'ref', 'A', False, True, True, False, 'abn')],
    'pnn': [('abnn', 'A', 'ref', 'B', True, True, True, False, 'bann'), ('bann', 'B', 'ref', 'A', True, False, True, False, 'abnn')],
    # containment with a container ('parent') end
    'ckn': [('kids', 'A', 'ref', 'B', True, True, True, True, 'parent'), ('parent', 'B', 'ref', 'A', False, True, True, False, 'kids')],
    'ck1': [('kid', 'A', 'ref', 'B', False, True, True, True, 'parent1'), ('parent1', 'B', 'ref', 'A', False, True, True, False, 'kid')],
    # containment without opposite
    'cn': [('ckids', 'A', 'ref', 'B', True, True, True, True, None)],
    'c1': [('ckid', 'A', 'ref', 'B', False, True, True, True, None)],
    'ctree': [('sub', 'A', 'ref', 'A', True, True, True, True, 'sup'), ('sup', 'A', 'ref', 'A', False, True, True, False, 'sub')],
    'ctree0': [('subs', 'A', 'ref', 'A', True, False, True, True, None)],
    # plain references without opposite
    'r1': [('ref', 'A', 'ref', 'B', False, True, True, False, None)],
    'rn': [('refs', 'A', 'ref', 'B', True, True, True, False, None)],
    'rl': [('lrefs', 'A', 'ref', 'B', True, True, False, False, None)],       # EList: duplicates allowed
    'rbag': [('brefs', 'B', 'ref', 'A', True, False, False, False, None)],    # EBag
    'rself': [('next', 'A', 'ref', 'A', False, True, True, False, None)],
    # same-class pairs and self-opposites
    's11': [('mate', 'A', 'ref', 'A', False, True, True, False, 'mate')],
    'snn': [('friends', 'A', 'ref', 'A', True, True, True, False, 'friends')],
    'spair': [('succ', 'A', 'ref', 'A', False, True, True, False, 'pred'), ('pred', 'A', 'ref', 'A', False, True, True, False, 'succ')],
    'spairn': [('outs', 'A', 'ref', 'A', True, True, True, False, 'ins'), ('ins', 'A', 'ref', 'A', True, True, True, False, 'outs')],
    # attributes
    'ai': [('n', 'A', 'attr', 'EInt', False, True, True, False, None)],
    'as': [('name', 'A', 'attr', 'EString', False, True, True, False, None)],
    'ab': [('flag', 'B', 'attr', 'EBoolean', False, True, True, False, None)],
    'ae': [('col', 'B', 'attr', 'Color', False, True, True, False, None)],
    'ains': [('ns', 'A', 'attr', 'EInt', True, True, True, False, None)],
    'ainl': [('nl', 'A', 'attr', 'EInt', True, True, False, False, None)],
    'asl': [('ss', 'B', 'attr', 'EString', True, True, False, False, None)],
    'aes': [('cols', 'B', 'attr', 'Color', True, False, True, False, None)],
    'aobj': [('any', 'A', 'attr', 'EJavaObject', False, True, True, False, None)],
}
REF_TEMPLATES = [k for k, v in TEMPLATES.items() if v[0][2] == 'ref']
OPP_TEMPLATES = ['p11', 'p1n', 'pn1', 'pnn', 'ckn', 'ck1', 'ctree', 's11', 'snn', 'spair', 'spairn']
CONT_TEMPLATES = ['ckn', 'ck1', 'cn', 'c1', 'ctree', 'ctree0']
ATTR_TEMPLATES = [k for k, v in TEMPLATES.items() if v[0][2] == 'attr']

STRINGS = ['', 'a', 'b c', 'red', 'green', 'x', 'blue', 'big']
ENUMS = [{'name': 'Color', 'literals': ['red', 'green', 'blue']}, {'name': 'Size', 'literals': ['red', 'big']}]


def make_mm(template_names, diamond=False):
    classes = {'A': {'name': 'A', 'supers': [], 'features': []},
               'B': {'name': 'B', 'supers': [], 'features': []},
               'A2': {'name': 'A2', 'supers': ['A'], 'features': []},
               'C': {'name': 'C', 'supers': [], 'features': []}}
    owner_of = {}
    for t in template_names:
        for (name, owner, kind, typ, many, ordered, unique, cont, opp) in TEMPLATES[t]:
            owner_of[name] = owner
    for t in template_names:
        for (name, owner, kind, typ, many, ordered, unique, cont, opp) in TEMPLATES[t]:
            fd = {'name': name, 'kind': kind, 'type': typ, 'many': many, 'ordered': ordered, 'unique': unique,
                  'containment': cont, 'opposite': [owner_of[opp], opp] if opp else None}
            classes[owner]['features'].append(fd)
    extra = []
    if diamond:
        # Both -> (L, R) -> A : every feature of A is inherited along two paths
        extra = [{'name': 'L', 'supers': ['A'], 'features': []}, {'name': 'R', 'supers': ['A'], 'features': []},
                 {'name': 'Both', 'supers': ['L', 'R'], 'features': []}]
    return {'classes': [classes['A'], classes['B'], classes['A2'], classes['C']] + extra, 'enums': ENUMS}


def flat_features(mm):
    """[(class, fdesc)] in global feature-index order (same order as kimpl.World.feats)"""
    return [(c['name'], fd) for c in mm['classes'] for fd in c['features']]


def supers_closure(mm):
    sup = {c['name']: set(c['supers']) for c in mm['classes']}
    changed = True
    while changed:
        changed = False
        for c in sup:
            for s in list(sup[c]):
                n = sup[s] - sup[c]
                if n:
                    sup[c] |= n
                    changed = True
    return sup


def applicable(mm, cls):
    sup = supers_closure(mm)
    own = {cls} | sup[cls]
    return [i for i, (cn, fd) in enumerate(flat_features(mm)) if cn in own]


def opposite_index(mm):
    ff = flat_features(mm)
    idx = {(cn, fd['name']): i for i, (cn, fd) in enumerate(ff)}
    return {i: (idx[tuple(fd['opposite'])] if fd.get('opposite') else None) for i, (cn, fd) in enumerate(ff)}


DEFAULT_OBJS = ['A', 'A', 'A2', 'B', 'B', 'B', 'C']
DIAMOND_OBJS = ['A', 'Both', 'A2', 'B', 'B', 'B', 'Both']


def conforming_values(mm, objs, fd, rng, wrong=False):
    """a value of (or, if wrong, outside) the feature's type"""
    sup = supers_closure(mm)
    if fd['kind'] == 'ref':
        ok = [i for i, c in enumerate(objs) if c == fd['type'] or fd['type'] in sup[c]]
        bad = [i for i, c in enumerate(objs) if i not in ok]
        if wrong:
            # (a CLASSIFIER object offered as a value: the EClass of class 0 / a data type — never a value of a reference)
            # ['k', 100 + i]: the PYTHON CLASS of class i (here: of the reference's own type) - `a.b = B` with the
            # parentheses forgotten
            cnames = [c['name'] for c in mm['classes']]
            pool = [['o', i] for i in bad] + [['i', 3], ['s', 1], ['k', 0], ['k', -1],
                                               ['k', 100 + cnames.index(fd['type'])]]
        else:
            pool = [['o', i] for i in ok]
        return rng.choice(pool) if pool else None
    t = fd['type']
    goods = {
        'EInt': [['i', 0], ['i', 1], ['i', -1], ['i', 7], ['b', 1]],
        'EString': [['s', 0], ['s', 1], ['s', 2], ['s', 3]],
        'EBoolean': [['b', 0], ['b', 1]],
        'EDouble': [['f', 1], ['f', 2], ['f', -3]],
        'EJavaObject': [['i', 1], ['s', 1], ['b', 1], ['f', 3], ['o', 0]],
        'Color': [['e', 0, 0], ['e', 0, 1], ['e', 0, 2], ['s', 3], ['s', 4]],
    }
    bads = {
        'EInt': [['s', 1], ['f', 1], ['o', 0], ['e', 0, 0]],
        'EString': [['i', 1], ['b', 1], ['o', 0]],
        'EBoolean': [['i', 1], ['s', 1], ['o', 3]],
        'EDouble': [['i', 1], ['s', 1]],
        'EJavaObject': [['i', 1]],
        'Color': [['e', 1, 1], ['s', 1], ['i', 0], ['o', 3], ['e', 1, 0]],
    }
    return rng.choice(bads[t] if wrong and t != 'EJavaObject' else goods[t])


def gen_op(mm, objs, nres, rng, p_wrong=0.06, weights=None):
    ff = flat_features(mm)
    w = weights or {}
    r = rng.random()
    if r < w.get('delete', 0.04):
        return ['delete', rng.randrange(len(objs)), rng.choice([1, 1, 0])]
    r -= w.get('delete', 0.04)
    if nres and r < w.get('res', 0.08):
        k = rng.choice(['rappend', 'rappend', 'rremove', 'rextend'])
        if k == 'rextend':
            return ['rextend', rng.randrange(nres), [rng.randrange(len(objs)) for _ in range(rng.randrange(0, 3))]]
        return [k, rng.randrange(nres), rng.randrange(len(objs))]
    for _ in range(50):
        o = rng.randrange(len(objs))
        app = applicable(mm, objs[o])
        if not app:
            continue
        fi = rng.choice(app)
        fd = ff[fi][1]
        wrong = rng.random() < p_wrong
        v = lambda: (None if (rng.random() < 0.04) else conforming_values(mm, objs, fd, rng, wrong and rng.random() < 0.7))
        if not fd['many']:
            k = rng.choice(['set'] * 6 + ['unset', 'del', 'read'])
            if k == 'set':
                return ['set', o, fi, v(), rng.choice(['attr', 'attr', 'eset-name', 'eset-feat'])]
            if k == 'read':
                return ['read', o, fi, rng.choice(['attr', 'eget-name', 'eget-feat'])]
            return [k, o, fi]
        uniq = fd['unique']
        kinds = ['append'] * 5 + ['insert'] * 3 + ['remove'] * 3 + ['pop'] * 2 + ['clear', 'extend', 'extend', 'iadd',
                                                                                   'assign', 'setitem', 'delitem', 'del', 'read']
        if uniq:
            kinds += ['add', 'update']
        else:
            kinds += ['setslice', 'delslice']
        k = rng.choice(kinds)
        idx = lambda: rng.randrange(-4, 5)
        if k in ('append', 'add'):
            return [k, o, fi, v()]
        if k == 'insert':
            return ['insert', o, fi, idx(), v()]
        if k == 'remove':
            return ['remove', o, fi, v()]
        if k == 'pop':
            return ['pop', o, fi, rng.choice([None, None, idx()])]
        if k in ('clear', 'del'):
            return [k, o, fi]
        if k in ('extend', 'update', 'iadd'):
            if rng.random() < 0.12:
                return ['extendself', o, fi, k]          # c.extend(c) / c += c : the argument is the collection itself
            if rng.random() < 0.15:
                others = [j for j in range(len(objs)) if j != o and fi in applicable(mm, objs[j])]
                if others:                               # b.items.extend(a.items): another object's LIVE collection
                    return ['extendfrom', o, fi, k, rng.choice(others)]
            return [k, o, fi, [v() for _ in range(rng.randrange(0, 4))]]
        if k == 'assign':
            return ['assign', o, fi, [v() for _ in range(rng.randrange(0, 4))], rng.choice(['list', 'list', 'tuple', 'gen'])]
        if k == 'setitem':
            return ['setitem', o, fi, idx(), v()]
        if k == 'delitem':
            return ['delitem', o, fi, idx()]
        if k == 'setslice':
            a = rng.randrange(0, 4)
            return ['setslice', o, fi, a, a + rng.randrange(0, 3), [v() for _ in range(rng.randrange(0, 3))]]
        if k == 'delslice':
            a = rng.randrange(0, 4)
            return ['delslice', o, fi, a, a + rng.randrange(0, 3)]
        if k == 'read':
            return ['read', o, fi, rng.choice(['attr', 'eget-name', 'eget-feat'])]
    return ['delete', 0, 1]


def gen_case(rng, templates=None, nops=12, nres=2, objs=None, p_wrong=0.06, weights=None, pool=None):
    pool = pool or list(TEMPLATES)
    if templates is None:
        n = rng.randrange(2, 6)
        templates = rng.sample(pool, min(n, len(pool)))
    diamond = rng.random() < 0.3
    mm = make_mm(templates, diamond)
    objs = objs or (DIAMOND_OBJS if diamond else DEFAULT_OBJS)
    hist = []
    for _ in range(rng.randrange(max(1, nops // 2), nops + 1)):
        if hist and rng.random() < 0.1:
            hist.append(list(rng.choice(hist)))          # the same call again (idempotent re-assignment, second append...)
        else:
            hist.append(gen_op(mm, objs, nres, rng, p_wrong, weights))
    return {'mm': mm, 'templates': templates, 'objs': list(objs), 'nres': nres, 'strings': STRINGS, 'history': hist}


def gen_focus_case(rng, template, nops=10, nres=1, objs=None):
    """histories concentrated on ONE multi-valued feature of object 0 (positions shift a lot):
    append/insert/pop/remove/item writes with in-range and out-of-range, positive and negative indices"""
    mm = make_mm([template])
    objs = objs or ['A', 'B', 'B', 'B', 'B', 'A', 'A2']
    ff = flat_features(mm)
    cands = [(o, fi) for o in range(len(objs)) for fi in applicable(mm, objs[o]) if ff[fi][1]['many']]
    o, fi = cands[0]
    fd = ff[fi][1]
    hist = []
    if nres:
        hist.append(['rappend', 0, o])
        if rng.random() < 0.5:
            hist.append(['rappend', 0, len(objs) - 1])
    for _ in range(nops):
        v = conforming_values(mm, objs, fd, rng, False)
        k = rng.choice(['append', 'append', 'append', 'insert', 'insert', 'pop', 'pop', 'remove', 'delitem',
                        'setitem', 'extend', 'clear'] if (rng.random() < 0.9 or not nres) else ['rremove', 'rappend'])
        idx = rng.randrange(-4, 5)
        if k == 'append':
            hist.append(['append', o, fi, v])
        elif k == 'insert':
            hist.append(['insert', o, fi, idx, v])
        elif k == 'pop':
            hist.append(['pop', o, fi, rng.choice([None, None, idx])])
        elif k == 'remove':
            hist.append(['remove', o, fi, v])
        elif k == 'delitem':
            hist.append(['delitem', o, fi, idx])
        elif k == 'setitem':
            hist.append(['setitem', o, fi, idx, v])
        elif k == 'extend':
            hist.append(['extend', o, fi, [conforming_values(mm, objs, fd, rng, False) for _ in range(rng.randrange(1, 4))]])
        elif k == 'clear':
            if rng.random() < 0.2:
                hist.append(['clear', o, fi])
        elif k == 'rremove':
            hist.append(['rremove', 0, o])
        else:
            hist.append(['rappend', 0, rng.randrange(len(objs))])
    return {'mm': mm, 'templates': [template], 'objs': list(objs), 'nres': nres, 'strings': STRINGS, 'history': hist}


def gen_delete_case(rng, nres=1):
    """a containment chain several levels deep with references into and out of it, then delete()"""
    t = rng.choice(['ctree', 'ctree0'])
    extra = rng.sample(['rself', 'rn', 'r1', 'pnn', 'spair', 'snn', 'rl'], rng.randrange(1, 4))
    mm = make_mm([t] + extra)
    objs = ['A', 'A', 'A', 'A', 'A2', 'B', 'B']
    ff = flat_features(mm)
    name2fi = {fd['name']: i for i, (_, fd) in enumerate(ff)}
    sub = name2fi['sub'] if t == 'ctree' else name2fi['subs']
    depth = rng.randrange(2, 5)
    hist = []
    for i in range(depth):
        hist.append(['append', i, sub, ['o', i + 1]])
    if nres and rng.random() < 0.6:
        hist.append(['rappend', 0, 0])
    for _ in range(rng.randrange(2, 7)):
        hist.append(gen_op(mm, objs, nres, rng, 0.0, {'delete': 0.0, 'res': 0.05}))
    hist.append(['delete', rng.randrange(0, depth), rng.choice([1, 1, 1, 0])])
    return {'mm': mm, 'templates': [t] + extra, 'objs': objs, 'nres': nres, 'strings': STRINGS, 'history': hist}
