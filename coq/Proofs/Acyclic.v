(* Reachable states are acyclic and stay within the universe of objects.
   pyecore does not check for containment cycles, so the properties quantify over
   "acyclic containment only": an operation that would put an object inside its own
   containment subtree is excluded by a precondition evaluated in the state where
   the operation runs (op_nocycle, the model-side twin of creates_cycle in
   harness/krun.py).  Under that precondition every operation of the kernel model
   preserves acyclic_cont (Proofs/C19Once.v), and the container pointers only ever
   name objects mentioned by the operations (in_universe).
   Route: (1) a graph lemma: if every container edge of s' is an edge of s or a new
   edge child c -> parent x with c in a set D none of whose members is x or a
   transitive container of x in s, then s' is acyclic when s is;
   (2) one "edges" lemma per kernel procedure (edges_le E s s': every container
   pointer of s' is one of s or a pair of E), proved by following the procedures:
   only set_cont writes the pointers, inside uc_clear (erases) and update_container
   (erases, and writes y -> (x,f)); no invariant is needed for that;
   (3) the 17 operations, histories, a boolean checker for the precondition, and
   the corollaries for C19 (eAllContents) and C02 (forest, root's resource). *)
From Coq Require Import ZArith List Bool Arith Lia.
From PyecoreV Require Import Lib.PyBase Lib.PyList Model.Kernel Proofs.KernelFacts Proofs.C01Proofs
  Proofs.C01Full Proofs.C02Proofs Proofs.WFBase Proofs.SymLink Proofs.OwnPrim Proofs.OwnAll
  Proofs.C19Proofs Proofs.C19Once Proofs.WFCorollaries.
Import ListNotations.
Open Scope nat_scope.

(* ---------- (1) the graph lemma ---------- *)
Section Graph.
Variables s s' : state.
Variable x : oid.
Variable D : oid -> Prop.
Hypothesis Hac : acyclic_cont s.
(* every edge of s' is an edge of s, or links a member of D to the parent x *)
Hypothesis Hedges : forall (c p : oid) (f : fid),
  cont s' c = Some (p, f) -> cont s c = Some (p, f) \/ (p = x /\ D c).
(* no member of D is x or a transitive container of x *)
Hypothesis Hfresh : forall (c : oid) n, D c -> up s n x <> Some c.

(* follow a chain of s': either it is a chain of s, or its first new edge leaves a
   member c of D, reached by i edges common to s and s', and the rest starts at x *)
Lemma chain_split n : forall (z y : oid),
  up s' n z = Some y ->
  up s n z = Some y \/
  exists i j (c : oid), i + S j = n /\ up s i z = Some c /\ up s' i z = Some c /\ D c /\ up s' j x = Some y.
Proof.
  induction n as [|n IH]; intros z y H; [left; exact H|].
  simpl in H. destruct (cont s' z) as [[p f]|] eqn:Ec; [|discriminate].
  destruct (Hedges z p f Ec) as [Eo|[Ep Dz]].
  - destruct (IH p y H) as [Hs|[i [j [c [Hn [Hi [Hi' [Dc Hj]]]]]]]].
    + left. simpl. rewrite Eo. exact Hs.
    + right. exists (S i), j, c. split; [lia|]. simpl. rewrite Eo, Ec. repeat split; assumption.
  - subst p. right. exists 0, n, z. split; [lia|]. simpl. repeat split; assumption.
Qed.

(* in s' too, x never reaches a member of D *)
Lemma fresh_after n (c : oid) : D c -> up s' n x <> Some c.
Proof.
  intros Dc H. destruct (chain_split n x c H) as [Hs|[i [j [c' [_ [Hi [_ [Dc' _]]]]]]]].
  - exact (Hfresh c n Dc Hs).
  - exact (Hfresh c' i Dc' Hi).
Qed.

Lemma acyclic_new_edges : acyclic_cont s'.
Proof.
  intros z n H. destruct (chain_split (S n) z z H) as [Hs|[i [j [c [_ [_ [Hi' [Dc Hj]]]]]]]].
  - exact (Hac z n Hs).
  - apply (fresh_after (j + i) c Dc). rewrite up_add, Hj. exact Hi'.
Qed.
End Graph.

(* only removing edges *)
Lemma acyclic_fewer_edges s s' :
  acyclic_cont s ->
  (forall (c p : oid) (f : fid), cont s' c = Some (p, f) -> cont s c = Some (p, f)) ->
  acyclic_cont s'.
Proof.
  intros Hac He. apply (acyclic_new_edges s s' 0 (fun _ => False) Hac).
  - intros c p f H. left. apply He. exact H.
  - intros c n [].
Qed.

(* ---------- (2) edges of s' among those of s and a set E of (parent, child) pairs ---------- *)
Definition edges_le (E : oid -> oid -> Prop) (s s' : state) : Prop :=
  forall (c p : oid) (f : fid), cont s' c = Some (p, f) -> cont s c = Some (p, f) \/ E p c.

Lemma edges_refl E s : edges_le E s s.
Proof. intros c p f H. left. exact H. Qed.

Lemma edges_same E s t t' : (forall c, cont t' c = cont t c) -> edges_le E s t -> edges_le E s t'.
Proof. intros Ec H c p f Hc. rewrite Ec in Hc. apply H. exact Hc. Qed.

Lemma edges_mono (E E' : oid -> oid -> Prop) s t :
  (forall p c, E p c -> E' p c) -> edges_le E s t -> edges_le E' s t.
Proof. intros HE H c p f Hc. destruct (H c p f Hc) as [A|A]; [left; exact A | right; apply HE; exact A]. Qed.

Lemma edges_set_none E s t (o : oid) : edges_le E s t -> edges_le E s (set_cont t o None).
Proof.
  intros H c p f Hc. cbn [cont set_cont] in Hc. unfold updn in Hc.
  destruct (o =? c); [discriminate | apply H; exact Hc].
Qed.

Lemma edges_set_some (E : oid -> oid -> Prop) s t (y x : oid) (f : fid) :
  E x y -> edges_le E s t -> edges_le E s (set_cont t y (Some (x, f))).
Proof.
  intros HE H c p g Hc. cbn [cont set_cont] in Hc. unfold updn in Hc.
  destruct (Nat.eqb_spec y c) as [Ey|Ny]; [|apply H; exact Hc].
  inversion Hc; subst. right. exact HE.
Qed.

(* ---------- the removal direction: for every E ---------- *)
Section Removal.
Variable m : mm.
Variable E : oid -> oid -> Prop.
Variable s : state.

Lemma E_uc_clear t f p : edges_le E s t -> edges_le E s (uc_clear m t f p).
Proof.
  intros H. unfold uc_clear. destruct (f_cont (fd m f)); [|exact H].
  destruct p as [q|]; [apply edges_set_none; exact H | exact H].
Qed.

Lemma E_set_store t k v : edges_le E s t -> edges_le E s (set_store m t k v).
Proof. apply edges_same. reflexivity. Qed.

Lemma E_set_vals t k l : edges_le E s t -> edges_le E s (set_vals t k l).
Proof. apply edges_same. reflexivity. Qed.

Lemma E_notify t o f kd a b : edges_le E s t -> edges_le E s (notify m t o f kd a b).
Proof. apply edges_same. reflexivity. Qed.

Lemma E_set_isset t k : edges_le E s t -> edges_le E s (set_isset t k).
Proof. apply edges_same. reflexivity. Qed.

Lemma E_inv_add t o c : edges_le E s t -> edges_le E s (inv_add t o c).
Proof. apply edges_same. intros c0. rewrite cont_inv_add_any. reflexivity. Qed.

Lemma E_inv_del t o c : edges_le E s t -> edges_le E s (inv_del t o c).
Proof. apply edges_same. reflexivity. Qed.

Lemma E_res_remove_raw t r o : edges_le E s t -> edges_le E s (res_remove_raw t r o).
Proof. apply edges_same. reflexivity. Qed.

Lemma E_set_none_raw t k : edges_le E s t -> edges_le E s (set_none_raw m t k).
Proof.
  intros H. unfold set_none_raw. destruct (f_isref (fd m (snd k))).
  - apply E_uc_clear. apply E_set_store. exact H.
  - apply E_set_store. exact H.
Qed.

Lemma E_coll_remove_raw t k x : edges_le E s t -> edges_le E s (coll_remove_raw m t k x).
Proof.
  intros H. unfold coll_remove_raw. destruct (vmem (VObj x) (vals t k)); [|exact H].
  apply E_notify. apply E_set_vals. apply E_uc_clear. exact H.
Qed.

Lemma E_update_opposite_remove t x f y :
  edges_le E s t -> edges_le E s (update_opposite_remove m t x f y).
Proof.
  intros H. unfold update_opposite_remove. destruct (f_opp (fd m f)) as [g|].
  - destruct (f_many (fd m g)).
    + destruct (cell_eqb (y, g) (x, f)); [exact H | apply E_coll_remove_raw; exact H].
    + apply E_set_none_raw. exact H.
  - destruct (cmem (x, f) (inv t y)); [apply E_inv_del | apply E_inv_add]; exact H.
Qed.

Lemma E_unlink_elem t x f v : edges_le E s t -> edges_le E s (unlink_elem m t x f v).
Proof.
  intros H. unfold unlink_elem. destruct (f_isref (fd m f)); [|exact H].
  destruct (obj_of v) as [y|]; [|exact H].
  apply E_update_opposite_remove. apply E_uc_clear. exact H.
Qed.

Lemma E_coll_remove_full t k v : edges_le E s t -> edges_le E s (coll_remove_full m t k v).
Proof.
  intros H. destruct k as [x f]. unfold coll_remove_full.
  apply E_notify. apply E_set_vals.
  change (edges_le E s (unlink_elem m t x f v)). apply E_unlink_elem. exact H.
Qed.

Lemma E_set_none_full t k : edges_le E s t -> edges_le E s (set_none_full m t k).
Proof.
  intros H. destruct k as [x f]. unfold set_none_full.
  destruct (f_isref (fd m f)); cbn [negb]; [|apply E_set_store; exact H].
  assert (H2 : edges_le E s (uc_clear m (set_store m t (x, f) VNone) f (obj_of (single t (x, f))))).
  { apply E_uc_clear. apply E_set_store. exact H. }
  destruct (f_opp (fd m f)) as [g|].
  - destruct (obj_of (single t (x, f))) as [q|]; [|exact H2].
    destruct (f_many (fd m g)); [apply E_coll_remove_raw; exact H2|].
    destruct (cell_eqb (q, g) (x, f)); [exact H2 | apply E_set_none_raw; exact H2].
  - destruct (obj_of (single t (x, f))) as [q|]; [apply E_inv_del; exact H2 | exact H2].
Qed.

Lemma E_remove_or_unset t k y : edges_le E s t -> edges_le E s (remove_or_unset m t k y).
Proof.
  intros H. unfold remove_or_unset. destruct (f_many (fd m (snd k))).
  - destruct (vmem (VObj y) (vals t k)); [apply E_coll_remove_full; exact H | exact H].
  - apply E_set_none_full. exact H.
Qed.

Lemma E_fold_unlink x f l : forall t, edges_le E s t ->
  edges_le E s (fold_left (fun acc v => unlink_elem m acc x f v) l t).
Proof.
  induction l as [|v l IH]; intros t H; simpl; [exact H|]. apply IH. apply E_unlink_elem. exact H.
Qed.

Lemma E_coll_clear_full t k : edges_le E s t -> edges_le E s (coll_clear_full m t k).
Proof.
  intros H. destruct k as [x f]. unfold coll_clear_full.
  destruct (vals t (x, f)) as [|v0 l0] eqn:El; [exact H|].
  apply E_notify. apply E_set_vals. apply E_fold_unlink. exact H.
Qed.

Lemma E_coll_pop_full t k i : edges_le E s t -> edges_le E s (snd (fst (coll_pop_full m t k i))).
Proof.
  intros H. destruct k as [x f]. unfold coll_pop_full.
  destruct (vals t (x, f)) as [|v0 l0] eqn:El; [exact H|].
  destruct (py_pop i (v0 :: l0)) as [[v l']|]; cbn [fst snd]; [|exact H].
  apply E_notify. apply E_unlink_elem. apply E_set_vals. exact H.
Qed.

Lemma E_coll_delitem_full t k i : edges_le E s t -> edges_le E s (snd (coll_delitem_full m t k i)).
Proof.
  intros H. unfold coll_delitem_full. destruct (f_unique (fd m (snd k))).
  - apply E_coll_pop_full. exact H.
  - destruct (py_pop i (vals t k)) as [[v l']|]; cbn [snd]; [apply E_set_vals; exact H | exact H].
Qed.

Lemma E_coll_remove_top t k v : edges_le E s t -> edges_le E s (snd (coll_remove_top m t k v)).
Proof.
  intros H. unfold coll_remove_top. destruct (vmem v (vals t k)); cbn [snd]; [|exact H].
  apply E_coll_remove_full. exact H.
Qed.
End Removal.

(* ---------- the linking direction ---------- *)
(* the container edges that writing value v into feature f of x may create:
   y under x when f is a containment, x under y when f is the container end of one *)
Definition wr (m : mm) (x : oid) (f : fid) (v : value) (p c : oid) : Prop :=
  exists y : oid, v = VObj y /\
    ((f_cont (fd m f) = true /\ p = x /\ c = y) \/
     (exists g, f_opp (fd m f) = Some g /\ f_cont (fd m g) = true /\ p = y /\ c = x)).

Section Linking.
Variable m : mm.
Variable E : oid -> oid -> Prop.
Variable s : state.

Lemma E_update_container t (x : oid) (f : fid) (value prev : option oid) :
  (forall y, value = Some y -> f_cont (fd m f) = true -> E x y) ->
  edges_le E s t -> edges_le E s (update_container m t x f value prev).
Proof.
  intros HE H. unfold update_container. destruct (f_cont (fd m f)) eqn:Hc; cbn [negb]; [|exact H].
  assert (H1 : edges_le E s
     (match value with
      | Some y =>
        let sa := match eresource_of m t y with
                  | Some r => if nmem y (rcont t r) then res_remove_raw t r y else t
                  | None => t end in
        let sb := match cont sa y with
                  | Some (p, pf) => if negb ((p =? x) && (pf =? f)) then remove_or_unset m sa (p, pf) y else sa
                  | None => sa end in
        set_cont sb y (Some (x, f))
      | None => t end)).
  { destruct value as [y|]; [|exact H]. cbv zeta.
    apply edges_set_some; [apply HE; reflexivity|].
    set (sa := match eresource_of m t y with
               | Some r => if nmem y (rcont t r) then res_remove_raw t r y else t
               | None => t end).
    assert (Ha : edges_le E s sa).
    { unfold sa. destruct (eresource_of m t y) as [r|]; [|exact H].
      destruct (nmem y (rcont t r)); [apply E_res_remove_raw; exact H | exact H]. }
    destruct (cont sa y) as [[p pf]|]; [|exact Ha].
    destruct (negb ((p =? x) && (pf =? f))); [apply E_remove_or_unset; exact Ha | exact Ha]. }
  destruct prev as [q|]; [|exact H1].
  destruct value as [y|]; [destruct (y =? q); [exact H1|]|]; apply edges_set_none; exact H1.
Qed.

Lemma E_set_obj_raw t (a : oid) (h : fid) (x : oid) :
  (f_cont (fd m h) = true -> E a x) ->
  edges_le E s t -> edges_le E s (set_obj_raw m t (a, h) x).
Proof.
  intros HE H. unfold set_obj_raw. cbn [fst snd]. destruct (f_isref (fd m h)).
  - apply E_update_container; [|apply E_set_store; exact H].
    intros y Ey Hc. inversion Ey; subst y. exact (HE Hc).
  - apply E_set_store. exact H.
Qed.

Lemma E_coll_append_raw t (a : oid) (h : fid) (x : oid) :
  (f_cont (fd m h) = true -> E a x) ->
  edges_le E s t -> edges_le E s (coll_append_raw m t (a, h) x).
Proof.
  intros HE H. unfold coll_append_raw. cbn [fst snd].
  apply E_set_isset. apply E_notify. apply E_set_vals.
  apply E_update_container; [|exact H].
  intros y Ey Hc. inversion Ey; subst y. exact (HE Hc).
Qed.

Lemma E_update_opposite_add t (x : oid) (f : fid) (y : oid) :
  (forall g, f_opp (fd m f) = Some g -> f_cont (fd m g) = true -> E y x) ->
  edges_le E s t -> edges_le E s (update_opposite_add m t x f y).
Proof.
  intros HE H. unfold update_opposite_add. destruct (f_opp (fd m f)) as [g|]; [|apply E_inv_add; exact H].
  destruct (f_many (fd m g)).
  - destruct (cell_eqb (y, g) (x, f)); [exact H|].
    apply E_coll_append_raw; [apply HE; reflexivity | exact H].
  - apply E_set_obj_raw; [apply HE; reflexivity|].
    destruct (obj_of (single t (y, g))) as [c|]; [|exact H].
    destruct (c =? x); [exact H | apply E_coll_remove_raw; exact H].
Qed.

Lemma E_link_elem t (x : oid) (f : fid) (v : value) :
  (forall p c, wr m x f v p c -> E p c) ->
  edges_le E s t -> edges_le E s (link_elem m t x f v).
Proof.
  intros HE H. unfold link_elem. destruct (f_isref (fd m f)); [|exact H].
  destruct v as [|y| | | | |]; cbn [obj_of]; try exact H.
  apply E_update_opposite_add.
  - intros g Hg Hc. apply HE. exists y. split; [reflexivity|]. right. exists g. repeat split; assumption.
  - apply E_update_container; [|exact H].
    intros y' Ey Hc. inversion Ey; subst y'. apply HE. exists y. split; [reflexivity|]. left. repeat split. exact Hc.
Qed.
End Linking.

Section Composite.
Variable m : mm.
Variable E : oid -> oid -> Prop.
Variable s : state.

(* EValue._set *)
Lemma E_set_full t (x : oid) (f : fid) (v : value) :
  (forall p c, wr m x f v p c -> E p c) ->
  edges_le E s t -> edges_le E s (snd (set_full m t (x, f) v)).
Proof.
  intros HE H. unfold set_full.
  destruct (check_single m f v); cbn [negb snd]; [|exact H].
  destruct (f_isref (fd m f)); cbn [negb snd]; [|apply E_set_store; exact H].
  set (pv := single t (x, f)).
  assert (H2 : edges_le E s (update_container m (set_store m t (x, f) v) x f (obj_of v) (obj_of pv))).
  { apply E_update_container; [|apply E_set_store; exact H].
    intros y Ey Hc. apply HE. exists y. split; [destruct v; inversion Ey; reflexivity|].
    left. repeat split. exact Hc. }
  set (s2 := update_container m (set_store m t (x, f) v) x f (obj_of v) (obj_of pv)) in *.
  destruct (f_opp (fd m f)) as [g|] eqn:Hg.
  - set (s3 := match obj_of pv with
               | Some q =>
                 if (match obj_of v with Some y => y =? q | None => false end) then s2
                 else if f_many (fd m g) then coll_remove_raw m s2 (q, g) x
                 else if cell_eqb (q, g) (x, f) then s2 else set_none_raw m s2 (q, g)
               | None => s2 end).
    assert (H3 : edges_le E s s3).
    { unfold s3. destruct (obj_of pv) as [q|]; [|exact H2].
      destruct (match obj_of v with Some y => y =? q | None => false end); [exact H2|].
      destruct (f_many (fd m g)); [apply E_coll_remove_raw; exact H2|].
      destruct (cell_eqb (q, g) (x, f)); [exact H2 | apply E_set_none_raw; exact H2]. }
    destruct v as [|y| | | | |]; cbn [obj_of snd]; try exact H3.
    assert (HEg : f_cont (fd m g) = true -> E y x).
    { intros Hc. apply HE. exists y. split; [reflexivity|]. right. exists g. repeat split; assumption. }
    destruct (f_many (fd m g)); cbn [snd].
    + apply E_coll_append_raw; assumption.
    + apply E_set_obj_raw; [exact HEg|].
      destruct (obj_of (single s3 (y, g))) as [c|]; [|exact H3].
      destruct (c =? x); [exact H3 | apply E_set_none_raw; exact H3].
  - cbn [snd]. assert (H3 : edges_le E s (match obj_of pv with Some q => inv_del s2 q (x, f) | None => s2 end)).
    { destruct (obj_of pv); [apply E_inv_del; exact H2 | exact H2]. }
    destruct (obj_of v); [apply E_inv_add; exact H3 | exact H3].
Qed.

(* ECollection.insert / append / add *)
Lemma E_coll_add_full t (x : oid) (f : fid) pos (v : value) :
  (forall p c, wr m x f v p c -> E p c) ->
  edges_le E s t -> edges_le E s (snd (coll_add_full m t (x, f) pos v)).
Proof.
  intros HE H. unfold coll_add_full. destruct (check_elem m f v); cbn [negb snd]; [|exact H].
  apply E_set_isset. apply E_notify. apply E_set_vals. apply E_link_elem; assumption.
Qed.

Lemma E_fold_link_u (x : oid) (f : fid) (vs : list value) :
  (forall v p c, In v vs -> wr m x f v p c -> E p c) ->
  forall t, edges_le E s t ->
  edges_le E s (fold_left (fun acc v => link_elem m (set_vals acc (x, f) (raw_append true v (vals acc (x, f)))) x f v) vs t).
Proof.
  induction vs as [|v vs IH]; intros HE t H; simpl; [exact H|].
  apply IH; [intros v' p c Hi; apply HE; right; exact Hi|].
  apply E_link_elem; [intros p c; apply HE; left; reflexivity | apply E_set_vals; exact H].
Qed.

Lemma E_fold_link (x : oid) (f : fid) (vs : list value) :
  (forall v p c, In v vs -> wr m x f v p c -> E p c) ->
  forall t, edges_le E s t ->
  edges_le E s (fold_left (fun acc v => link_elem m acc x f v) vs t).
Proof.
  induction vs as [|v vs IH]; intros HE t H; simpl; [exact H|].
  apply IH; [intros v' p c Hi; apply HE; right; exact Hi|].
  apply E_link_elem; [intros p c; apply HE; left; reflexivity | exact H].
Qed.

(* EList.extend / EAbstractSet.update *)
Lemma E_coll_extend_full t (x : oid) (f : fid) (vs : list value) :
  (forall v p c, In v vs -> wr m x f v p c -> E p c) ->
  edges_le E s t -> edges_le E s (snd (coll_extend_full m t (x, f) vs)).
Proof.
  intros HE H. unfold coll_extend_full. destruct (forallb (check_elem m f) vs); cbn [negb snd]; [|exact H].
  apply E_set_isset. apply E_notify. destruct (f_unique (fd m f)).
  - apply E_fold_link_u; assumption.
  - apply E_set_vals. apply E_fold_link; assumption.
Qed.

Lemma E_coll_setitem_full t (x : oid) (f : fid) i (v : value) :
  (forall p c, wr m x f v p c -> E p c) ->
  edges_le E s t -> edges_le E s (snd (coll_setitem_full m t (x, f) i v)).
Proof.
  intros HE H. unfold coll_setitem_full. destruct (check_elem m f v) eqn:Hk; cbn [negb snd]; [|exact H].
  destruct (f_unique (fd m f)).
  - set (i' := if (i <? 0)%Z then (zlen (vals t (x, f)) + i)%Z else i).
    destruct ((i <? 0) && (i' <? 0))%Z; cbn [snd]; [exact H|].
    pose proof (E_coll_pop_full m E s t (x, f) i' H) as Hp.
    destruct (coll_pop_full m t (x, f) i') as [[[e|] t1] r]; cbn [fst snd seq_outcome] in *; [exact Hp|].
    apply E_coll_add_full; assumption.
  - assert (H1 : edges_le E s (link_elem m t x f v)) by (apply E_link_elem; assumption).
    destruct (norm_index (zlen (vals (link_elem m t x f v) (x, f))) i) as [n|]; cbn [snd]; [|exact H1].
    apply E_set_isset. apply E_notify. apply E_set_vals. exact H1.
Qed.

Lemma E_assign_full t (x : oid) (f : fid) (vs : list value) :
  (forall v p c, In v vs -> wr m x f v p c -> E p c) ->
  edges_le E s t -> edges_le E s (snd (assign_full m t (x, f) vs)).
Proof.
  intros HE H. unfold assign_full. cbn [snd]. destruct (forallb (check_elem m f) vs); cbn [negb snd]; [|exact H].
  apply E_coll_extend_full; [exact HE | apply E_coll_clear_full; exact H].
Qed.

Lemma E_del_full t (x : oid) (f : fid) :
  (forall p c, f_many (fd m f) = false -> wr m x f (f_default (fd m f)) p c -> E p c) ->
  edges_le E s t -> edges_le E s (snd (del_full m t (x, f))).
Proof.
  intros HE H. unfold del_full. cbn [snd]. destruct (f_many (fd m f)) eqn:Hm; cbn [snd].
  - apply E_coll_clear_full. exact H.
  - apply E_set_full; [intros p c; apply HE; reflexivity | exact H].
Qed.
End Composite.

(* ---------- delete and the resource operations only erase container pointers ---------- *)
Section DeleteRes.
Variable m : mm.
Variable E : oid -> oid -> Prop.
Variable s : state.

Lemma wr_none x f p c : ~ wr m x f VNone p c.
Proof. intros [y [Hy _]]. discriminate. Qed.

Lemma E_set_full_none t (x : oid) (f : fid) : edges_le E s t -> edges_le E s (snd (set_full m t (x, f) VNone)).
Proof. apply E_set_full. intros p c H. destruct (wr_none x f p c H). Qed.

Lemma E_delete_step (x : oid) t k : edges_le E s t -> edges_le E s (delete_step m x t k).
Proof.
  intros H. destruct k as [owner f]. unfold delete_step. destruct (f_many (fd m f)).
  - destruct (owner =? x); [apply E_coll_clear_full; exact H|].
    destruct (vmem (VObj x) (vals t (owner, f))); [apply E_coll_remove_full; exact H | exact H].
  - destruct ((match single t (owner, f) with VObj y => y =? x | _ => false end) || (owner =? x)); [|exact H].
    apply E_set_full_none. exact H.
Qed.

Lemma E_fold_delete_step (x : oid) l : forall t, edges_le E s t -> edges_le E s (fold_left (delete_step m x) l t).
Proof. induction l as [|k l IH]; intros t H; simpl; [exact H|]. apply IH. apply E_delete_step. exact H. Qed.

Lemma E_delete_obj fuel : forall t (x : oid) r, edges_le E s t -> edges_le E s (delete_obj fuel m t x r).
Proof.
  induction fuel as [|fu IH]; intros t x r H; simpl; [exact H|].
  apply E_fold_delete_step. destruct r; [|exact H].
  generalize (econtents m t x). intros l. revert t H.
  induction l as [|c l IHl]; intros t H; simpl; [exact H|]. apply IHl. apply IH. exact H.
Qed.

Lemma E_res_append t r (o : oid) : edges_le E s t -> edges_le E s (res_append m t r o).
Proof.
  intros H.
  assert (G : forall t0, edges_le E s t0 ->
    edges_le E s
      (let s1 := set_eres (set_rcont t0 r (rcont t0 r ++ [o])) o (Some r) in
       match cont s1 o with
       | Some (p, pf) =>
         if f_many (fd m pf)
         then (if vmem (VObj o) (vals s1 (p, pf)) then coll_remove_full m s1 (p, pf) (VObj o) else s1)
         else snd (set_full m s1 (p, pf) VNone)
       | None => s1 end)).
  { intros t0 H0. cbv zeta. set (s1 := set_eres (set_rcont t0 r (rcont t0 r ++ [o])) o (Some r)).
    assert (H1 : edges_le E s s1) by (apply (edges_same E s t0); [reflexivity | exact H0]).
    destruct (cont s1 o) as [[p pf]|]; [|exact H1].
    destruct (f_many (fd m pf)); [|apply E_set_full_none; exact H1].
    destruct (vmem (VObj o) (vals s1 (p, pf))); [apply E_coll_remove_full; exact H1 | exact H1]. }
  unfold res_append. destruct (eres t o) as [p|]; [|apply G; exact H].
  destruct (nmem o (rcont t p)); [|apply G; exact H].
  destruct (p =? r); [exact H|]. apply G. apply E_res_remove_raw. exact H.
Qed.

Lemma E_res_extend r l : forall t, edges_le E s t -> edges_le E s (fold_left (fun acc o => res_append m acc r o) l t).
Proof. induction l as [|o l IH]; intros t H; simpl; [exact H|]. apply IH. apply E_res_append. exact H. Qed.
End DeleteRes.

(* ---------- every operation ---------- *)
(* the (parent, child) pairs an operation may add to the container pointers *)
Definition op_edges (m : mm) (o : op) (p c : oid) : Prop :=
  match o with
  | OSet x f v | OAppend x f v | OInsert x f _ v | OSetItem x f _ v => wr m x f v p c
  | OAssign x f vs | OExtend x f vs => exists v, In v vs /\ wr m x f v p c
  | ODel x f => f_many (fd m f) = false /\ wr m x f (f_default (fd m f)) p c
  | _ => False
  end.

Theorem step_edges m s o : edges_le (op_edges m o) s (next m s o).
Proof.
  pose proof (edges_refl (op_edges m o) s) as H. unfold next, step.
  destruct o as [x f v|x f|x f|x f vs|x f v|x f i v|x f v|x f i|x f|x f vs|x f i v|x f i|x r|r o|r o|r os|x f];
    cbn [fst snd]; cbn [op_edges] in *.
  - destruct (f_many (fd m f)); [exact H | apply E_set_full; [intros p c A; exact A | exact H]].
  - destruct (f_many (fd m f)); [exact H | apply E_set_full_none; exact H].
  - apply E_del_full; [intros p c A B; split; assumption | exact H].
  - destruct (f_many (fd m f)); [|exact H]. apply E_assign_full; [|exact H].
    intros v p c Hi Hw. exists v. split; assumption.
  - apply E_coll_add_full; [intros p c A; exact A | exact H].
  - apply E_coll_add_full; [intros p c A; exact A | exact H].
  - apply E_coll_remove_top. exact H.
  - apply E_coll_pop_full. exact H.
  - apply E_coll_clear_full. exact H.
  - apply E_coll_extend_full; [|exact H]. intros v p c Hi Hw. exists v. split; assumption.
  - apply E_coll_setitem_full; [intros p c A; exact A | exact H].
  - apply E_coll_delitem_full. exact H.
  - apply E_delete_obj. exact H.
  - apply E_res_append. exact H.
  - unfold res_remove. destruct (nmem o (rcont s r)); cbn [snd]; [apply E_res_remove_raw; exact H | exact H].
  - apply E_res_extend. exact H.
  - exact H.
Qed.

(* ---------- (3) the precondition "this call creates no containment cycle" ---------- *)
(* writing v = VObj y into feature f of x: when f is a containment, y is neither x nor a
   transitive container of x; when f is the container end of a containment (x gets
   container y), x is neither y nor a transitive container of y.  Evaluated in the
   state s where the call runs (creates_cycle in harness/krun.py does the same with
   subtrees: "x in subtree(y)", "y in subtree(x)"). *)
Definition write_nocycle (m : mm) (s : state) (x : oid) (f : fid) (v : value) : Prop :=
  forall y : oid, v = VObj y ->
    (f_cont (fd m f) = true -> forall n, up s n x <> Some y) /\
    (forall g, f_opp (fd m f) = Some g -> f_cont (fd m g) = true -> forall n, up s n y <> Some x).

(* removal operations, delete, the resource operations and reads create no container
   pointer; `del x.f` writes the feature's default (None for every reference when
   ref_defaults_none holds: see del_nocycle_default) *)
Definition op_nocycle (m : mm) (s : state) (o : op) : Prop :=
  match o with
  | OSet x f v | OAppend x f v | OInsert x f _ v | OSetItem x f _ v => write_nocycle m s x f v
  | OAssign x f vs | OExtend x f vs => forall v, In v vs -> write_nocycle m s x f v
  | ODel x f => f_many (fd m f) = false -> write_nocycle m s x f (f_default (fd m f))
  | _ => True
  end.

Lemma acyclic_no_edges s s' : acyclic_cont s -> edges_le (fun _ _ => False) s s' -> acyclic_cont s'.
Proof.
  intros Hac He. apply (acyclic_fewer_edges s s' Hac).
  intros c p f H. destruct (He c p f H) as [A|[]]. exact A.
Qed.

Section NoCycle.
Variable m : mm.
Hypothesis W : wf_mm m.

(* one written value *)
Lemma acyclic_wr1 s s' (x : oid) (f : fid) (v : value) :
  acyclic_cont s -> edges_le (wr m x f v) s s' -> write_nocycle m s x f v -> acyclic_cont s'.
Proof.
  intros Hac He Hn.
  destruct v as [|y| | | | |];
    try (apply (acyclic_no_edges s s' Hac); intros c0 p0 h0 H; destruct (He c0 p0 h0 H) as [A|[y0 [A _]]];
         [left; exact A | discriminate A]).
  destruct (Hn y eq_refl) as [N1 N2].
  destruct (f_cont (fd m f)) eqn:Hc.
  - apply (acyclic_new_edges s s' x (eq y) Hac).
    + intros c p h H. destruct (He c p h H) as [A|[y0 [Ey [[_ [Ep Ecy]]|[g [Hg [Hcg _]]]]]]].
      * left; exact A.
      * inversion Ey; subst y0. right. split; congruence.
      * destruct (wf_container_end m W f g Hg Hc) as [_ B]. congruence.
    + intros c n Ec. subst c. apply N1. reflexivity.
  - destruct (f_opp (fd m f)) as [g|] eqn:Hg.
    + destruct (f_cont (fd m g)) eqn:Hcg.
      * apply (acyclic_new_edges s s' y (eq x) Hac).
        -- intros c p h H. destruct (He c p h H) as [A|[y0 [Ey [[B _]|[g0 [_ [_ [Ep Ecx]]]]]]]].
           ++ left; exact A.
           ++ congruence.
           ++ inversion Ey; subst y0. right. split; congruence.
        -- intros c n Ec. subst c. apply (N2 g eq_refl Hcg).
      * apply (acyclic_no_edges s s' Hac). intros c p h H.
        destruct (He c p h H) as [A|[y0 [Ey [[B _]|[g0 [Hg0 [Hcg0 _]]]]]]]; [left; exact A | congruence | congruence].
    + apply (acyclic_no_edges s s' Hac). intros c p h H.
      destruct (He c p h H) as [A|[y0 [Ey [[B _]|[g0 [Hg0 _]]]]]]; [left; exact A | congruence | congruence].
Qed.

(* several values written into a many-valued feature: all become children of x *)
Lemma acyclic_wrs s s' (x : oid) (f : fid) (vs : list value) :
  f_many (fd m f) = true ->
  acyclic_cont s -> edges_le (fun p c => exists v, In v vs /\ wr m x f v p c) s s' ->
  (forall v, In v vs -> write_nocycle m s x f v) -> acyclic_cont s'.
Proof.
  intros Hm Hac He Hn.
  apply (acyclic_new_edges s s' x (fun c => In (VObj c) vs /\ f_cont (fd m f) = true) Hac).
  - intros c p h H. destruct (He c p h H) as [A|[v [Hi [y [Ey [[Hc [Ep Ecy]]|[g [Hg [Hcg _]]]]]]]]].
    + left; exact A.
    + subst v p c. right. repeat split; assumption.
    + pose proof (many_opp_not_cont m f g W Hg Hm). congruence.
  - intros c n [Hi Hc]. destruct (Hn (VObj c) Hi c eq_refl) as [N1 _]. apply N1. exact Hc.
Qed.

Theorem acyclic_step s o :
  WF m s -> acyclic_cont s -> op_fits m s o -> op_nocycle m s o -> acyclic_cont (next m s o).
Proof.
  intros _ Hac Hf Hn. pose proof (step_edges m s o) as He. unfold op_fits in Hf.
  destruct o as [x f v|x f|x f|x f vs|x f v|x f i v|x f v|x f i|x f|x f vs|x f i v|x f i|x r|r o|r o|r os|x f];
    cbn [op_edges op_nocycle op_many] in *;
    try (apply (acyclic_no_edges s _ Hac); exact He);
    try (apply (acyclic_wr1 s _ x f v Hac He Hn)).
  - destruct (f_many (fd m f)) eqn:Hm.
    + apply (acyclic_no_edges s _ Hac). intros c p h H. destruct (He c p h H) as [A|[B _]]; [left; exact A | congruence].
    + apply (acyclic_wr1 s _ x f (f_default (fd m f)) Hac); [|apply Hn; reflexivity].
      intros c p h H. destruct (He c p h H) as [A|[_ B]]; [left; exact A | right; exact B].
  - destruct (f_many (fd m f)) eqn:Hm; [exact (acyclic_wrs s _ x f vs Hm Hac He Hn)|].
    unfold next, step. rewrite Hm. exact Hac.
  - exact (acyclic_wrs s _ x f vs Hf Hac He Hn).
Qed.
End NoCycle.

(* where every reference defaults to None, `del x.f` never needs the precondition *)
Lemma del_nocycle_default m s (x : oid) (f : fid) :
  wf_mm m -> ref_defaults_none m -> op_nocycle m s (ODel x f).
Proof.
  intros W Dn Hm y Ey. split.
  - intros Hc. rewrite (Dn f (wf_cont_ref m W f Hc) Hm) in Ey. discriminate.
  - intros g Hg _. rewrite (Dn f (wf_opp_ref m W f g Hg) Hm) in Ey. discriminate.
Qed.

(* ---------- the universe of objects ---------- *)
Definition in_universe (m : mm) (s : state) : Prop :=
  forall (c p : oid) (f : fid), cont s c = Some (p, f) -> c < length (ocls m) /\ p < length (ocls m).

Definition val_in_universe (m : mm) (v : value) : Prop := forall y : oid, v = VObj y -> y < length (ocls m).

(* the objects an operation may link (the receiver and the written values) exist *)
Definition op_in_universe (m : mm) (o : op) : Prop :=
  match o with
  | OSet x f v | OAppend x f v | OInsert x f _ v | OSetItem x f _ v =>
    x < length (ocls m) /\ val_in_universe m v
  | OAssign x f vs | OExtend x f vs =>
    x < length (ocls m) /\ forall v, In v vs -> val_in_universe m v
  | ODel x f => f_many (fd m f) = false -> x < length (ocls m) /\ val_in_universe m (f_default (fd m f))
  | _ => True
  end.

Lemma wr_bound m (x : oid) (f : fid) (v : value) (p c : oid) :
  x < length (ocls m) -> val_in_universe m v -> wr m x f v p c -> c < length (ocls m) /\ p < length (ocls m).
Proof.
  intros Hx Hv [y [Ey [[_ [Ep Ec]]|[g [_ [_ [Ep Ec]]]]]]]; subst p c; pose proof (Hv y Ey); split; assumption.
Qed.

Lemma op_edges_bound m o (p c : oid) :
  op_in_universe m o -> op_edges m o p c -> c < length (ocls m) /\ p < length (ocls m).
Proof.
  intros Hu He.
  destruct o as [x f v|x f|x f|x f vs|x f v|x f i v|x f v|x f i|x f|x f vs|x f i v|x f i|x r|r o|r o|r os|x f];
    cbn [op_edges op_in_universe] in *; try (destruct He; fail);
    try (destruct Hu as [Hx Hv]; exact (wr_bound m x f v p c Hx Hv He)).
  - destruct He as [Hm He]. destruct (Hu Hm) as [Hx Hv]. exact (wr_bound m x f _ p c Hx Hv He).
  - destruct Hu as [Hx Hv]. destruct He as [v [Hi He]]. exact (wr_bound m x f v p c Hx (Hv v Hi) He).
  - destruct Hu as [Hx Hv]. destruct He as [v [Hi He]]. exact (wr_bound m x f v p c Hx (Hv v Hi) He).
Qed.

Theorem universe_step m s o : in_universe m s -> op_in_universe m o -> in_universe m (next m s o).
Proof.
  intros Hu Ho c p f H. destruct (step_edges m s o c p f H) as [A|A].
  - exact (Hu c p f A).
  - exact (op_edges_bound m o p c Ho A).
Qed.

Lemma in_universe_children m s :
  in_universe m s -> forall (c p : oid) (f : fid), cont s c = Some (p, f) -> c < length (ocls m).
Proof. intros H c p f Hc. exact (proj1 (H c p f Hc)). Qed.

(* ---------- histories ---------- *)
(* every call addresses a collection through a many-valued feature (op_fits), would not
   close a containment cycle in the state where it runs (op_nocycle), and names
   existing objects (op_in_universe) *)
Fixpoint fits_history (m : mm) (s : state) (ops : list op) : Prop :=
  match ops with
  | [] => True
  | o :: r => op_fits m s o /\ op_nocycle m s o /\ op_in_universe m o /\ fits_history m (next m s o) r
  end.

Lemma fits_history_many m ops : forall s, fits_history m s ops -> Forall (op_many m) ops.
Proof.
  induction ops as [|o ops IH]; intros s H; [constructor|].
  destruct H as [Hf [_ [_ Hr]]]. constructor; [exact Hf | exact (IH _ Hr)].
Qed.

Theorem acyclic_history_from m : wf_mm m -> forall ops s,
  WF m s -> acyclic_cont s -> in_universe m s -> fits_history m s ops ->
  WF m (fold_left (next m) ops s) /\ acyclic_cont (fold_left (next m) ops s) /\
  in_universe m (fold_left (next m) ops s).
Proof.
  intros W ops. induction ops as [|o ops IH]; intros s Hw Ha Hu Hf; simpl; [split; [exact Hw | split; [exact Ha | exact Hu]]|].
  destruct Hf as [Hf [Hn [Ho Hr]]]. apply IH.
  - apply (WF_step m W); assumption.
  - apply (acyclic_step m W); assumption.
  - apply universe_step; assumption.
  - exact Hr.
Qed.

Lemma acyclic_init m : acyclic_cont (init_state m).
Proof. intros x n H. simpl in H. discriminate. Qed.

Lemma in_universe_init m : in_universe m (init_state m).
Proof. intros c p f H. simpl in H. discriminate. Qed.

Theorem acyclic_history m : wf_mm m -> ref_defaults_none m -> forall ops,
  fits_history m (init_state m) ops ->
  acyclic_cont (reach m ops) /\ in_universe m (reach m ops).
Proof.
  intros W Dn ops Hf.
  destruct (acyclic_history_from m W ops (init_state m) (WF_init m W Dn) (acyclic_init m) (in_universe_init m) Hf)
    as [_ H]. exact H.
Qed.

Print Assumptions acyclic_step.
Print Assumptions universe_step.
Print Assumptions acyclic_history.

(* ---------- a boolean checker for the precondition (what the harness evaluates) ---------- *)
Fixpoint reaches_b (fuel : nat) (s : state) (x y : oid) : bool :=
  (x =? y) ||
  match fuel with
  | O => false
  | S k => match cont s x with Some (p, _) => reaches_b k s p y | None => false end
  end.

Lemma reaches_b_complete fuel : forall s (x y : oid) n,
  up s n x = Some y -> n <= fuel -> reaches_b fuel s x y = true.
Proof.
  induction fuel as [|k IH]; intros s x y n Hu Hn.
  - assert (n = 0) by lia. subst n. simpl in Hu. inversion Hu; subst y. simpl. rewrite Nat.eqb_refl. reflexivity.
  - destruct n as [|n].
    + simpl in Hu. inversion Hu; subst y. simpl. rewrite Nat.eqb_refl. reflexivity.
    + simpl in Hu. simpl. destruct (cont s x) as [[p f]|]; [|discriminate].
      rewrite (IH s p y n Hu); [apply orb_true_r | lia].
Qed.

Lemma reaches_b_false m s (x y : oid) :
  acyclic_cont s -> in_universe m s -> reaches_b (length (ocls m)) s x y = false ->
  forall n, up s n x <> Some y.
Proof.
  intros Hac Hu Hb n H.
  pose proof (up_bounded m s n x y Hac (in_universe_children m s Hu) H) as Hn.
  rewrite (reaches_b_complete _ s x y n H Hn) in Hb. discriminate.
Qed.

Definition write_nocycle_b (m : mm) (s : state) (x : oid) (f : fid) (v : value) : bool :=
  match v with
  | VObj y =>
    (if f_cont (fd m f) then negb (reaches_b (length (ocls m)) s x y) else true) &&
    match f_opp (fd m f) with
    | Some g => if f_cont (fd m g) then negb (reaches_b (length (ocls m)) s y x) else true
    | None => true
    end
  | _ => true
  end.

Lemma write_nocycle_b_sound m s (x : oid) (f : fid) (v : value) :
  acyclic_cont s -> in_universe m s -> write_nocycle_b m s x f v = true -> write_nocycle m s x f v.
Proof.
  intros Hac Hu Hb y Ey. subst v. cbn [write_nocycle_b] in Hb. apply andb_true_iff in Hb. destruct Hb as [B1 B2].
  split.
  - intros Hc. rewrite Hc in B1. apply negb_true_iff in B1. exact (reaches_b_false m s x y Hac Hu B1).
  - intros g Hg Hc. rewrite Hg, Hc in B2. apply negb_true_iff in B2. exact (reaches_b_false m s y x Hac Hu B2).
Qed.

Definition val_in_universe_b (m : mm) (v : value) : bool :=
  match v with VObj y => y <? length (ocls m) | _ => true end.

Lemma val_in_universe_b_sound m v : val_in_universe_b m v = true -> val_in_universe m v.
Proof. intros H y Ey. subst v. apply Nat.ltb_lt. exact H. Qed.

(* op_fits, op_nocycle and op_in_universe at once *)
Definition op_ok_b (m : mm) (s : state) (o : op) : bool :=
  match o with
  | OSet x f v =>
    write_nocycle_b m s x f v && (x <? length (ocls m)) && val_in_universe_b m v
  | OAppend x f v | OInsert x f _ v | OSetItem x f _ v =>
    f_many (fd m f) && write_nocycle_b m s x f v && (x <? length (ocls m)) && val_in_universe_b m v
  | OAssign x f vs =>
    forallb (write_nocycle_b m s x f) vs && (x <? length (ocls m)) && forallb (val_in_universe_b m) vs
  | OExtend x f vs =>
    f_many (fd m f) && forallb (write_nocycle_b m s x f) vs && (x <? length (ocls m)) && forallb (val_in_universe_b m) vs
  | ODel x f =>
    f_many (fd m f) ||
    (write_nocycle_b m s x f (f_default (fd m f)) && (x <? length (ocls m)) && val_in_universe_b m (f_default (fd m f)))
  | ORemove x f _ | OPop x f _ | OClear x f | ODelItem x f _ => f_many (fd m f)
  | _ => true
  end.

Lemma op_ok_b_sound m s o :
  acyclic_cont s -> in_universe m s -> op_ok_b m s o = true ->
  op_fits m s o /\ op_nocycle m s o /\ op_in_universe m o.
Proof.
  intros Hac Hu Hb. unfold op_fits.
  destruct o as [x f v|x f|x f|x f vs|x f v|x f i v|x f v|x f i|x f|x f vs|x f i v|x f i|x r|r o|r o|r os|x f];
    cbn [op_ok_b op_many op_nocycle op_in_universe] in *;
    repeat (apply andb_true_iff in Hb; let B := fresh "B" in destruct Hb as [Hb B]);
    try (split; [first [exact I | exact Hb] | split; exact I]).
  - split; [exact I|]. split; [apply write_nocycle_b_sound; assumption|].
    split; [apply Nat.ltb_lt; assumption | apply val_in_universe_b_sound; assumption].
  - split; [exact I|]. apply orb_true_iff in Hb. destruct Hb as [Hb|Hb].
    + split; intros Hm; congruence.
    + repeat (apply andb_true_iff in Hb; let B := fresh "B" in destruct Hb as [Hb B]).
      split; [intros _; apply write_nocycle_b_sound; assumption|]. intros _.
      split; [apply Nat.ltb_lt; assumption | apply val_in_universe_b_sound; assumption].
  - split; [exact I|]. rewrite forallb_forall in Hb, B. split.
    + intros v Hi. apply write_nocycle_b_sound; [assumption | assumption | apply Hb; exact Hi].
    + split; [apply Nat.ltb_lt; assumption | intros v Hi; apply val_in_universe_b_sound; apply B; exact Hi].
  - split; [exact Hb|]. split; [apply write_nocycle_b_sound; assumption|].
    split; [apply Nat.ltb_lt; assumption | apply val_in_universe_b_sound; assumption].
  - split; [exact Hb|]. split; [apply write_nocycle_b_sound; assumption|].
    split; [apply Nat.ltb_lt; assumption | apply val_in_universe_b_sound; assumption].
  - split; [exact Hb|]. rewrite forallb_forall in B, B1. split.
    + intros v Hi. apply write_nocycle_b_sound; [assumption | assumption | apply B1; exact Hi].
    + split; [apply Nat.ltb_lt; assumption | intros v Hi; apply val_in_universe_b_sound; apply B; exact Hi].
  - split; [exact Hb|]. split; [apply write_nocycle_b_sound; assumption|].
    split; [apply Nat.ltb_lt; assumption | apply val_in_universe_b_sound; assumption].
Qed.

Fixpoint fits_b (m : mm) (s : state) (ops : list op) : bool :=
  match ops with
  | [] => true
  | o :: r => op_ok_b m s o && fits_b m (next m s o) r
  end.

Theorem fits_b_sound m : wf_mm m -> forall ops s,
  WF m s -> acyclic_cont s -> in_universe m s -> fits_b m s ops = true -> fits_history m s ops.
Proof.
  intros W ops. induction ops as [|o ops IH]; intros s Hw Ha Hu Hb; [exact I|].
  cbn [fits_b] in Hb. apply andb_true_iff in Hb. destruct Hb as [Ho Hr].
  destruct (op_ok_b_sound m s o Ha Hu Ho) as [Hf [Hn Hi]].
  cbn [fits_history]. split; [exact Hf|]. split; [exact Hn|]. split; [exact Hi|].
  apply IH; [apply (WF_step m W) | apply (acyclic_step m W) | apply universe_step | exact Hr]; assumption.
Qed.

Theorem fits_b_sound_init m : wf_mm m -> ref_defaults_none m -> forall ops,
  fits_b m (init_state m) ops = true -> fits_history m (init_state m) ops.
Proof.
  intros W Dn ops. apply (fits_b_sound m W); [apply WF_init; assumption | apply acyclic_init | apply in_universe_init].
Qed.

(* ---------- corollaries in every reachable state of a fitting history ---------- *)
Section Reachable.
Variable m : mm.
Hypothesis W : wf_mm m.
Hypothesis Dn : ref_defaults_none m.
Variable ops : list op.
Hypothesis Hops : fits_history m (init_state m) ops.

Lemma fit_WF : WF m (reach m ops).
Proof. apply (reach_WF m W Dn). exact (fits_history_many m ops _ Hops). Qed.

Lemma fit_acyclic : acyclic_cont (reach m ops).
Proof. exact (proj1 (acyclic_history m W Dn ops Hops)). Qed.

Lemma fit_universe : in_universe m (reach m ops).
Proof. exact (proj2 (acyclic_history m W Dn ops Hops)). Qed.

(* C19: eAllContents is a duplicate-free enumeration of exactly the strict descendants *)
Theorem reach_eallcontents_exact fuel (o : oid) :
  length (ocls m) <= fuel ->
  NoDup (eallcontents fuel m (reach m ops) o) /\
  (forall c, In c (eallcontents fuel m (reach m ops) o) <-> descends m (reach m ops) o c).
Proof.
  intros Hf. apply eallcontents_exact.
  - exact (wf_own m _ fit_WF).
  - exact (wf_shape m _ fit_WF).
  - exact fit_acyclic.
  - exact (in_universe_children m _ fit_universe).
  - exact Hf.
Qed.
End Reachable.

(* ---------- container chains end: depth, root_of, eResource ---------- *)
Section Chains.
Variable m : mm.
Variable s : state.
Hypothesis Hac : acyclic_cont s.
Hypothesis Hu : in_universe m s.

Lemma depth_of_no_up k : forall o : oid, up s k o = None -> exists n, n < k /\ depth s o n.
Proof.
  induction k as [|k IH]; intros o H; [discriminate H|].
  simpl in H. destruct (cont s o) as [[p f]|] eqn:Ec.
  - destruct (IH p H) as [n [Hn Hd]]. exists (S n). split; [lia|]. eapply depth_step; eauto.
  - exists 0. split; [lia|]. constructor. exact Ec.
Qed.

(* every container chain is finite, with at most |universe| links *)
Lemma depth_exists (o : oid) : exists n, n <= length (ocls m) /\ depth s o n.
Proof.
  destruct (up s (S (length (ocls m))) o) as [y|] eqn:E.
  - pose proof (up_bounded m s _ o y Hac (in_universe_children m s Hu) E). lia.
  - destruct (depth_of_no_up _ o E) as [n [Hn Hd]]. exists n. split; [lia | exact Hd].
Qed.

(* root_of, with the model's fuel, stops at the object without container that ends the chain *)
Theorem root_of_ends (o : oid) :
  chain_end s o (root_of (S (length (ocls m))) s o) /\ cont s (root_of (S (length (ocls m))) s o) = None.
Proof.
  destruct (depth_exists o) as [n [Hn Hd]]. apply (root_of_chain s o n); [exact Hd | lia].
Qed.

(* every object reports the resource of the container-less end of its chain *)
Theorem eresource_of_chain_end (o r : oid) : chain_end s o r -> eresource_of m s o = eres s r.
Proof.
  intros Hr. unfold eresource_of. destruct (root_of_ends o) as [Hc _].
  rewrite (chain_end_unique s o _ _ Hc Hr). reflexivity.
Qed.

Lemma up_chain_end n : forall (o r : oid), up s n o = Some r -> cont s r = None -> chain_end s o r.
Proof.
  induction n as [|n IH]; intros o r H Hr; simpl in H.
  - inversion H; subst r. constructor. exact Hr.
  - destruct (cont s o) as [[p f]|] eqn:Ec; [|discriminate]. eapply chain_up; [exact Ec | apply IH; assumption].
Qed.
End Chains.

Section ReachableForest.
Variable m : mm.
Hypothesis W : wf_mm m.
Hypothesis Dn : ref_defaults_none m.
Variable ops : list op.
Hypothesis Hops : fits_history m (init_state m) ops.

(* C02: the containment graph of a reachable state is a forest: no object is its own
   transitive container, an object is held by at most one containment slot, and every
   container chain ends, within the model's fuel, at an object without container *)
Theorem reach_forest :
  acyclic_cont (reach m ops) /\
  (forall (c p p' : oid) (f f' : fid),
     f_cont (fd m f) = true -> f_cont (fd m f') = true ->
     In (VObj c) (vals (reach m ops) (p, f)) -> In (VObj c) (vals (reach m ops) (p', f')) -> p = p' /\ f = f') /\
  (forall o : oid,
     chain_end (reach m ops) o (root_of (S (length (ocls m))) (reach m ops) o) /\
     cont (reach m ops) (root_of (S (length (ocls m))) (reach m ops) o) = None).
Proof.
  split; [exact (fit_acyclic m W Dn ops Hops)|]. split.
  - apply one_owner_slot. exact (fit_WF m W Dn ops Hops).
  - intros o. apply root_of_ends; [exact (fit_acyclic m W Dn ops Hops) | exact (fit_universe m W Dn ops Hops)].
Qed.

(* C02: every object reports the resource of the container-less end r of its chain; in
   particular every descendant of a container-less object r reports r's resource *)
Theorem reach_reports_roots_resource (o r : oid) :
  (chain_end (reach m ops) o r -> eresource_of m (reach m ops) o = eres (reach m ops) r) /\
  (cont (reach m ops) r = None -> descends m (reach m ops) r o ->
   eresource_of m (reach m ops) o = eres (reach m ops) r /\
   eresource_of m (reach m ops) o = eresource_of m (reach m ops) r).
Proof.
  pose proof (fit_acyclic m W Dn ops Hops) as Hac. pose proof (fit_universe m W Dn ops Hops) as Hu.
  pose proof (fit_WF m W Dn ops Hops) as Hw.
  assert (A : forall o', chain_end (reach m ops) o' r -> eresource_of m (reach m ops) o' = eres (reach m ops) r).
  { intros o'. apply eresource_of_chain_end; assumption. }
  split; [apply A|]. intros Hr Hd.
  destruct (descends_descends_in m _ r o Hd) as [n Hn].
  pose proof (descends_in_up m _ n r o (wf_own m _ Hw) Hn) as Hup.
  rewrite (A o (up_chain_end (reach m ops) n o r Hup Hr)). split; [reflexivity|].
  symmetry. apply A. constructor. exact Hr.
Qed.
End ReachableForest.

Print Assumptions reach_eallcontents_exact.
Print Assumptions reach_forest.
Print Assumptions reach_reports_roots_resource.

(* ---------- non-vacuity ---------- *)
(* class 0 "Node": kids (0, containment, many, opposite parent), parent (1, the container end) *)
Definition ex_mm_tree : mm :=
  {| feats := [ {| f_owner := 0; f_isref := true; f_many := true; f_unique := true; f_cont := true;
                   f_opp := Some 1; f_type := TClass 0; f_default := VNone |};
                {| f_owner := 0; f_isref := true; f_many := false; f_unique := true; f_cont := false;
                   f_opp := Some 0; f_type := TClass 0; f_default := VNone |} ];
     conf := [(0, 0)]; ocls := [0; 0; 0; 0]; enames := []; nres := 1 |}.

Ltac tcase f := destruct f as [|[|f]]; [| |destruct f]; cbn.

Lemma ex_mm_tree_wf : wf_mm ex_mm_tree /\ ref_defaults_none ex_mm_tree.
Proof.
  split; [constructor|].
  - intros f g. tcase f; intros H; inversion H; reflexivity.
  - intros f g. tcase f; intros H; try reflexivity; discriminate.
  - intros f. tcase f; intros H; try reflexivity; discriminate.
  - intros f. tcase f; intros H _; try reflexivity; discriminate.
  - intros f g. tcase f; intros H H2; try discriminate; inversion H; subst g; split; reflexivity.
  - intros f. tcase f; intros H H2; try reflexivity; discriminate.
Qed.

(* nesting, a re-parenting (2 moves from 1.kids to 0.kids), a move through the container
   end (2.parent = 1), a grandchild, Resource.append of the contained 2 (it leaves 1),
   an assignment that takes the root 2 back under 0 while releasing 1, a remove that
   fails (KeyError, nothing changes) and `del 3.parent`, which takes 3 out of 2.kids *)
Definition ex_tree_history : list op :=
  [OAppend 0 0 (VObj 1); OAppend 1 0 (VObj 2); OAppend 0 0 (VObj 2); OSet 2 1 (VObj 1);
   OExtend 2 0 [VObj 3]; ORAppend 0 2; OAssign 0 0 [VObj 2]; ORemove 0 0 (VObj 3); ODel 3 1].

Example fits_history_witness :
  fits_history ex_mm_tree (init_state ex_mm_tree) ex_tree_history /\
  (let s := reach ex_mm_tree (firstn 5 ex_tree_history) in
   cont s 1 = Some (0, 0) /\ cont s 2 = Some (1, 0) /\ cont s 3 = Some (2, 0) /\
   eallcontents 5 ex_mm_tree s 0 = [1; 2; 3]) /\
  (let s := reach ex_mm_tree (firstn 6 ex_tree_history) in
   cont s 2 = None /\ rcont s 0 = [2] /\ vals s (1, 0) = [] /\ eresource_of ex_mm_tree s 3 = Some 0) /\
  (let s := reach ex_mm_tree ex_tree_history in
   cont s 1 = None /\ cont s 2 = Some (0, 0) /\ cont s 3 = None /\ rcont s 0 = [] /\
   vals s (2, 0) = [] /\ eallcontents 5 ex_mm_tree s 0 = [2]).
Proof.
  split.
  - destruct ex_mm_tree_wf as [W D]. apply (fits_b_sound_init ex_mm_tree W D). vm_compute. reflexivity.
  - vm_compute. repeat split; reflexivity.
Qed.

(* the excluded calls really close a cycle in the model: x.kids.append(x), putting an
   object under its own child, and the same through the container end *)
Example cycle_excluded :
  let m := ex_mm_tree in
  let s := reach m [OAppend 0 0 (VObj 1)] in
  (op_ok_b m s (OAppend 0 0 (VObj 0)) = false /\ ~ op_nocycle m s (OAppend 0 0 (VObj 0)) /\
   ~ acyclic_cont (next m s (OAppend 0 0 (VObj 0)))) /\
  (op_ok_b m s (OAppend 1 0 (VObj 0)) = false /\ ~ op_nocycle m s (OAppend 1 0 (VObj 0)) /\
   ~ acyclic_cont (next m s (OAppend 1 0 (VObj 0)))) /\
  (op_ok_b m s (OSet 0 1 (VObj 1)) = false /\ ~ op_nocycle m s (OSet 0 1 (VObj 1)) /\
   ~ acyclic_cont (next m s (OSet 0 1 (VObj 1)))) /\
  (* while the invariant WF holds even there *)
  WF m (next m s (OAppend 1 0 (VObj 0))).
Proof.
  cbv zeta. split; [|split; [|split]].
  - split; [vm_compute; reflexivity|]. split.
    + intros H. destruct (H 0 eq_refl) as [N _]. apply (N eq_refl 0). reflexivity.
    + intros H. apply (H 0 0). vm_compute. reflexivity.
  - split; [vm_compute; reflexivity|]. split.
    + intros H. destruct (H 0 eq_refl) as [N _]. apply (N eq_refl 1). vm_compute. reflexivity.
    + intros H. apply (H 0 1). vm_compute. reflexivity.
  - split; [vm_compute; reflexivity|]. split.
    + intros H. destruct (H 1 eq_refl) as [_ N]. apply (N 0 eq_refl eq_refl 1). vm_compute. reflexivity.
    + intros H. apply (H 0 1). vm_compute. reflexivity.
  - destruct ex_mm_tree_wf as [W D]. apply (WF_step _ W); [|reflexivity].
    apply (reach_WF _ W D). repeat constructor.
Qed.
