(* Python str values as lists of Unicode code points, and the numeral
   conversions every data type conversion is built from:
     str(int) / int(str)      on Z, through Coq's Decimal.uint (Z.to_int / Z.of_int of DecimalZ)
     '%02d' / '%06d' style zero padded fields and their fixed-width readers
   The readers are exact on the image of the writers (what the round-trip
   theorems need and what the correspondence validates); outside that image
   they answer None = "not modelled" (Python's int() also accepts '+', blanks,
   underscores and non-ASCII digits).  No proofs here. *)
From Coq Require Import ZArith List Bool String Ascii Decimal DecimalZ.
Import ListNotations.
Open Scope Z_scope.

Definition text := list Z.

Fixpoint cps_of_string (s : string) : text :=
  match s with
  | EmptyString => []
  | String a r => Z.of_N (N_of_ascii a) :: cps_of_string r
  end.

Fixpoint text_eqb (a b : text) : bool :=
  match a, b with
  | [], [] => true
  | x :: a', y :: b' => (x =? y) && text_eqb a' b'
  | _, _ => false
  end.

Definition zlength {A} (l : list A) : Z := Z.of_nat (List.length l).

Definition is_digit (c : Z) : bool := (48 <=? c) && (c <=? 57).
Definition all_digits (l : text) : bool := forallb is_digit l.
Definition nonempty {A} (l : list A) : bool := match l with [] => false | _ => true end.

(* ---------- Decimal.uint <-> digit characters ---------- *)
Fixpoint list_of_uint (u : uint) : text :=
  match u with
  | Nil => []
  | D0 u => 48 :: list_of_uint u | D1 u => 49 :: list_of_uint u | D2 u => 50 :: list_of_uint u
  | D3 u => 51 :: list_of_uint u | D4 u => 52 :: list_of_uint u | D5 u => 53 :: list_of_uint u
  | D6 u => 54 :: list_of_uint u | D7 u => 55 :: list_of_uint u | D8 u => 56 :: list_of_uint u
  | D9 u => 57 :: list_of_uint u
  end.

(* meaningful on digit characters only (callers check all_digits first) *)
Fixpoint uint_of_digits (l : text) : uint :=
  match l with
  | [] => Nil
  | c :: r =>
    let u := uint_of_digits r in
    match c - 48 with
    | 0 => D0 u | 1 => D1 u | 2 => D2 u | 3 => D3 u | 4 => D4 u
    | 5 => D5 u | 6 => D6 u | 7 => D7 u | 8 => D8 u | _ => D9 u
    end
  end.

(* str(z) for a Python int *)
Definition str_of_Z (z : Z) : text :=
  match Z.to_int z with
  | Pos u => list_of_uint u
  | Neg u => 45 :: list_of_uint u
  end.

Definition nat_of_digits (l : text) : option Z :=
  if nonempty l && all_digits l then Some (Z.of_int (Pos (uint_of_digits l))) else None.

(* int(s) for s = '-'? digit+ *)
Definition int_of_text (s : text) : option Z :=
  match s with
  | [] => None
  | c :: r =>
    if c =? 45
    then (if nonempty r && all_digits r then Some (Z.of_int (Neg (uint_of_digits r))) else None)
    else nat_of_digits s
  end.

(* '%+d' % z  and its reader *)
Definition signed_str (z : Z) : text := if z <? 0 then str_of_Z z else 43 :: str_of_Z z.
Definition signed_int_of_text (s : text) : option Z :=
  match s with
  | c :: r => if c =? 43 then nat_of_digits r else int_of_text s
  | [] => None
  end.

(* ---------- fixed-width fields ---------- *)
(* '%0nd' % v   for 0 <= v < 10^n *)
Fixpoint padn (n : nat) (v : Z) : text :=
  match n with
  | O => []
  | S k => (48 + v / 10 ^ Z.of_nat k) :: padn k (v mod 10 ^ Z.of_nat k)
  end.

(* exactly n digit characters *)
Fixpoint take_digits (n : nat) (s : text) (acc : Z) : option (Z * text) :=
  match n with
  | O => Some (acc, s)
  | S k =>
    match s with
    | c :: r => if is_digit c then take_digits k r (acc * 10 + (c - 48)) else None
    | [] => None
    end
  end.

Fixpoint span_digits (s : text) : text * text :=
  match s with
  | c :: r => if is_digit c then let p := span_digits r in (c :: fst p, snd p) else ([], s)
  | [] => ([], [])
  end.

Definition zeros (k : Z) : text := repeat 48 (Z.to_nat k).

(* str.lower() restricted to ASCII (applied to str(bool) only) *)
Definition ascii_lower (s : text) : text :=
  map (fun c => if (65 <=? c) && (c <=? 90) then c + 32 else c) s.

Definition obind {A B} (o : option A) (f : A -> option B) : option B :=
  match o with Some a => f a | None => None end.
