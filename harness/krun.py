"""Run kernel cases on the implementation, evaluate the property oracles after
every call, attribute the first failure to its culprit call, shrink, sign."""
import copy
import json

from harness import kgen, kimpl, koracle

NONE_TOK = -99999


def qualifiers(m, op, pre, outcome):
    q = []
    k = op[0]
    if outcome[0] != 0:
        q.append('raised')
    if k == 'delete':
        return sorted(set(q))
    if k in ('delete', 'rappend', 'rremove', 'rextend'):
        if k in ('rappend',):
            o = pre['objs'][op[2]]
            if o['container'] != NONE_TOK:
                q.append('was-contained')
            if any(op[2] in c for c in pre['res']):
                q.append('was-root')
        if k == 'rremove' and op[2] not in pre['res'][op[1]]:
            q.append('element-absent')
        return q
    if len(op) < 3:
        return q
    x, fi = op[1], op[2]
    fd = m.fd(fi)
    cur = pre['objs'][x]['feats'].get(fi)
    if cur is None:
        q.append('feature-not-applicable')
        return q
    curo = koracle.objs_of(cur)
    vals = []
    if k in ('set', 'append', 'add', 'remove'):
        vals = [op[3]]
    elif k in ('insert', 'setitem'):
        vals = [op[4]]
    elif k in ('extend', 'update', 'iadd', 'assign'):
        vals = list(op[3])
    elif k == 'setslice':
        vals = list(op[5])
    idx = None
    if k in ('insert', 'setitem', 'delitem', 'pop'):
        idx = op[3]
        if idx is None:
            q.append('default-index')
        elif idx < 0:
            q.append('negative-index')
        if idx is not None and not (-len(cur) <= idx < len(cur)):
            q.append('index-out-of-range')
    if k == 'assign' and len(op) > 4 and op[4] == 'gen':
        q.append('once-only-iterable')
    g = m.opp.get(fi)
    for v in vals:
        tv = koracle.tokv(v)
        if tv[0] == 0:
            q.append('value-none')
            continue
        if not koracle.conforms(m, fd, tv):
            q.append('wrong-type')
            continue
        present = list(tv) in [list(c) for c in cur]
        if k == 'remove':
            q.append('element-present' if present else 'element-absent')
        elif present:
            q.append('element-present')
        if fd['kind'] == 'ref' and tv[0] == 1:
            y = tv[1]
            if not fd['many'] and curo and curo[0] != y:
                q.append('had-previous-partner')
            if g is not None:
                back = pre['objs'][y]['feats'].get(g)
                if back is not None:
                    bo = koracle.objs_of(back)
                    if not m.fd(g)['many'] and bo and bo[0] != x:
                        q.append('target-had-partner')
            if fd['containment']:
                yo = pre['objs'][y]
                if yo['container'] != NONE_TOK and (yo['container'], yo['cfeature']) != (x, fi):
                    q.append('target-contained-elsewhere')
                if any(y in c for c in pre['res']):
                    q.append('target-is-root')
                if y == x:
                    q.append('self-containment')
    if len(vals) != len(set(json.dumps(v) for v in vals)):
        q.append('duplicate-in-argument')
    return sorted(set(q))


def shape(m, op):
    if op[0] in ('delete', 'rappend', 'rremove', 'rextend') or len(op) < 3:
        return {}
    fd = m.fd(op[2])
    g = m.opp.get(op[2])
    s = {'kind': fd['kind'], 'many': fd['many'], 'unique': fd['unique']}
    if fd['kind'] == 'ref':
        s['containment'] = fd['containment']
        s['opposite'] = 'none' if g is None else ('self' if g == op[2] else ('many' if m.fd(g)['many'] else 'single'))
        if g is not None and m.fd(g)['containment']:
            s['opposite'] += '-container-end'
    return s


def signature(prop, clause, m, op, pre, outcome):
    if prop == 'C05' and op[0] in ('setitem', 'delitem', 'setslice', 'delslice') and len(op) > 2 \
            and not m.fd(op[2])['unique'] and not (op[0] == 'setslice' and len(op) > 5 and len(op[5]) > 0):
        # one defect, whatever the index or the element: list-based collections do not intercept item/slice writes
        return {'property': prop, 'clause': clause, 'culprit': 'elist-item-or-slice-write', 'shape': {'unique': False},
                'qualifiers': []}
    return {'property': prop, 'clause': clause, 'culprit': op[0], 'shape': shape(m, op),
            'qualifiers': qualifiers(m, op, pre, outcome)}


def creates_cycle(m, pre, op):
    """would this call put an object inside its own containment subtree?  (the
    properties quantify over acyclic containment only; pyecore does not check)"""
    k = op[0]
    if k in ('delete', 'rappend', 'rremove', 'rextend', 'read', 'unset', 'del', 'remove', 'pop', 'clear',
             'delitem', 'delslice') or len(op) < 4:
        return False
    x, fi = op[1], op[2]
    fd = m.fd(fi)
    if fd['kind'] != 'ref':
        return False
    g = m.opp.get(fi)
    vals = []
    if k in ('set', 'append', 'add'):
        vals = [op[3]]
    elif k in ('insert', 'setitem'):
        vals = [op[4]]
    elif k in ('extend', 'update', 'iadd', 'assign'):
        vals = list(op[3])
    elif k == 'setslice':
        vals = list(op[5])
    ys = [v[1] for v in vals if v is not None and v[0] == 'o']
    if fd['containment']:
        return any(x in koracle.subtree(m, pre, y) for y in ys)
    if g is not None and m.fd(g)['containment']:
        # x gets container y
        return any(y in koracle.subtree(m, pre, x) for y in ys)
    return False


def untok(t):
    tag, p = t
    return {0: None, 1: ['o', p], 2: ['i', p], 3: ['s', p], 4: ['b', p], 6: ['f', p]}.get(tag, ['e', p // 100, p % 100] if tag == 5 else None)


class Run:
    """Executes a case on the implementation; after every call evaluates the
    requested oracles; stops at the first failing call (the culprit)."""

    def __init__(self, case, props, observe_views=False, observe_frags=False):
        self.case = case
        self.props = set(props)
        self.m = koracle.MM(case)
        self.failure = None
        self.steps = []
        self.views = observe_views or 'C19' in self.props
        self.frags = observe_frags or 'C11' in self.props

    def run(self, stop_on_failure=True, record=True):
        m = self.m
        w = kimpl.World(self.case)
        pre = w.dump()
        w.take_log()
        mirror = koracle.Mirror(m, pre) if 'C05' in self.props else None
        self.skipped = []
        for i, op in enumerate(self.case['history']):
            if op[0] == 'extendself':
                cur = pre['objs'][op[1]]['feats'].get(op[2], [])
                vals = [untok(t) for t in cur]
                kind = op[3] if (op[3] != 'update' or m.fd(op[2])['unique']) else 'extend'
                op[:] = [kind, op[1], op[2], vals, 'alias']
            if op[0] == 'extendfrom' or (len(op) > 5 and op[4] == 'from'):
                # the argument is the LIVE collection of another object (b.items.extend(a.items)): for the model and the
                # oracles it is the snapshot of that collection taken before the call
                kind, src = (op[3], op[4]) if op[0] == 'extendfrom' else (op[0], op[5])
                cur = pre['objs'][src]['feats'].get(op[2], [])
                vals = [untok(t) for t in cur]
                kind = kind if (kind != 'update' or m.fd(op[2])['unique']) else 'extend'
                op[:] = [kind, op[1], op[2], vals, 'from', src]
            if creates_cycle(m, pre, op):
                self.skipped.append(i)
                continue
            outcome = w.apply(op)
            post = w.dump()
            log = w.take_log()
            step = {'op': op, 'outcome': outcome, 'dump': post, 'log': log}
            if self.views:
                step['views'] = w.views()
            if self.frags:
                step['frags'] = w.fragments()
            if record:
                self.steps.append(step)
            fails = []
            if 'C01' in self.props:
                fails += [('C01',) + f for f in koracle.c01_sym(m, post)]
            if 'C02' in self.props:
                fails += [('C02',) + f for f in koracle.c02_own(m, post)]
                if outcome[0] != 0 and koracle.ownership_projection(m, pre) != koracle.ownership_projection(m, post):
                    fails.append(('C02', 'failed-op-changed-ownership', f'{op} raised but ownership changed'))
            if 'C03' in self.props:
                fails += [('C03',) + f for f in koracle.c03_typed(m, post)]
                fails += [('C03',) + f for f in koracle.c03_op(m, op, outcome, pre, post)]
            if mirror is not None:
                pr = mirror.apply(log)
                fails += [('C05',) + f for f in pr]
                fails += [('C05',) + f for f in mirror.compare(post)]
            if 'C07' in self.props and op[0] == 'delete' and outcome[0] == 0:
                fails += [('C07',) + f for f in koracle.c07_delete(m, pre, post, op[1], op[2])]
            if 'C07' in self.props and op[0] == 'delete' and outcome[0] != 0:
                fails.append(('C07', 'delete-raised', f'delete raised {outcome[0]}'))
            if 'C19' in self.props:
                fails += [('C19',) + f for f in koracle.c19_views(m, post, step['views'])]
            if 'C11' in self.props:
                fails += [('C11',) + f for f in koracle.c11_fragments(m, post, step['frags'])]
            if fails:
                prop, clause, detail = fails[0]
                self.failure = {'index': i, 'property': prop, 'clause': clause, 'detail': detail,
                                'signature': signature(prop, clause, m, op, pre, outcome),
                                'all': [list(f) for f in fails[:5]]}
                if stop_on_failure:
                    return self
                if mirror is not None:
                    mirror = koracle.Mirror(m, post)
            pre = post
        return self


def shrink(case, props, sig):
    """greedy delta-debugging on the history keeping the same signature at the last call"""
    best = copy.deepcopy(case)
    best['history'] = best['history'][:]
    changed = True
    while changed:
        changed = False
        for i in range(len(best['history']) - 1):
            cand = copy.deepcopy(best)
            del cand['history'][i]
            r = Run(cand, props).run(record=False)
            if r.failure and r.failure['signature'] == sig and r.failure['index'] == len(cand['history']) - 1:
                best = cand
                changed = True
                break
    return best


def find_failure(case, props):
    r = Run(case, props).run(record=False)
    if r.skipped:
        case = copy.deepcopy(case)
        case['history'] = [op for i, op in enumerate(case['history']) if i not in r.skipped]
        r = Run(case, props).run(record=False)
    if not r.failure:
        return None
    f = r.failure
    cut = copy.deepcopy(case)
    cut['history'] = cut['history'][:f['index'] + 1]
    small = shrink(cut, props, f['signature'])
    return {'signature': f['signature'], 'what': f'{f["property"]}/{f["clause"]}: {f["detail"]}', 'case': small}
