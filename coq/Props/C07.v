(* C07 — delete() leaves no dangling reference and touches nothing else.
   Statements only; proofs in Proofs/C07Proofs.v and Proofs/C07Full.v over
   Model/Kernel.v (EObject.delete with its recursive part, the walk over own
   references and inverse-reference entries, and every removal procedure it calls).

   PROVED, for every state, object, fuel and choice of recursive:
   * delete never creates a reference: slot by slot, every object reference
     present afterwards was present before;
   * the deleted object's own references are all empty afterwards.

   PROVED, for every metamodel with involutive opposites (wf_opp), WITH OR
   WITHOUT containment, for every operation and hence along every history of
   fitting operations (op_fits: collection operations address many-valued
   features) from the initial state:
   * the inverse-bookkeeping invariant inv_ok: every single-valued or unique
     reference without opposite that holds b is recorded in b's _inverse_rels
     (this is what lets delete() find the holders), together with uniq_ok:
     a unique collection holds an object at most once;
   * decl_ok: a stored reference is a reference of its holder's class
     (operations address applicable features, op_appl; opposite ends are
     typed by each other's owner, wf_typed);
   * the steps of delete() keep symmetry of opposites + shape of slots
     (C01's invariant Inv) and, for EMF-well-formed metamodels (wf_mm), the
     whole well-formedness WF (symmetry, shape, ownership, resources).

   PROVED, containment included, for ANY state that satisfies symmetry, shape,
   uniq_ok, inv_ok and where x's stored references are declared:
   (a) after x.delete(recursive=False) no reference slot that is single-valued
       or a unique collection (refslot) holds x, whoever owns it;
   (b) every such slot of another object is EXACTLY what it was, minus x
       (Ex: a unique collection is filtered, a single slot falls back to None);
       ANY slot of another object (attributes and non-unique collections
       included) that did not hold x is unchanged;
   (c) from a WF state every deleted object has no container afterwards;
   (3) the recursive delete is the non-recursive part run on the sequence
       `deleted` of objects it visits; (a), (b), (c) hold for all of them: no
       refslot holds any deleted object, every refslot of a survivor has exactly
       lost the deleted objects, other slots of survivors that held none of them
       are unchanged.  Every deleted object is x or a (transitive) content of x
       in the state where delete() is called, and every direct content of x is
       deleted; from a WF state with acyclic containment and fuel above the
       depth, every TRANSITIVE content is (Proofs/C07Trans.v): with the model's
       fuel, deleted = {x} + the transitive contents of x, and each of them ends
       without container, holding no reference, held by no refslot.

   PROVED at history level for metamodels WITHOUT containment: for every
   history of fitting, applicable operations followed by x.delete(r): (a), (b),
   unrelated slots unchanged, and the deleted object holds no reference.

   REFUTED (known finding F-C07-nonunique-duplicate-target): a non-unique
   reference without opposite that holds the deleted object twice keeps one
   occurrence — witness below, replayed on the implementation by the check.
   Non-unique many-valued references are therefore outside refslot.

   PARTIAL (what is not proved here):
   * (closed since: with containment, the `…_history_partial` statements take symmetry +
     shape of the reached state as a premise; for EMF-well-formed metamodels
     (wf_mm) that premise is now discharged by the global invariant —
     theorems C07_no_dangling_after_delete_in_every_history,
     C07_exact_frame_after_delete_in_every_history and
     C07_deleted_objects_uncontained_in_every_history at the end of this file);
   * (closed since, Proofs/C07Trans.v: that every transitive content of x is deleted --
     the converse inclusion beyond direct contents -- holds from every WF state
     with acyclic containment for fuel above the content's depth, hence, with
     the model's fuel (number of objects + 1), in every state reached by a
     history whose calls close no containment cycle (fits_history of
     Proofs/Acyclic.v, the property's own quantifier): theorems
     C07_every_transitive_content_is_deleted_state,
     C07_deleted_is_exactly_the_subtree_state and
     C07_recursive_delete_clears_the_whole_subtree_in_every_history at the end
     of this file.  delete() reads x's direct contents in the calling state and
     each child's contents in the state left by the deletion of the previous
     siblings' subtrees; single ownership + acyclicity make those subtrees
     disjoint, so nothing below a later sibling has been touched.  Without
     acyclicity the statement is not meaningful: the walk is cut by the fuel);
   * how many occurrences a NON-unique collection loses is only bounded
     (`cellN`: Ex applied some number of times).
   These are carried by the correspondence and the before/after oracle of
   harness/props/c07.py. *)
From Coq Require Import ZArith List Bool Arith.
From PyecoreV Require Import Lib.PyBase Lib.PyList Model.Kernel Proofs.KernelFacts Proofs.WFBase
     Proofs.C01Proofs Proofs.C01Full Proofs.C07Proofs Proofs.C07Full Proofs.C07Hist.
Import ListNotations.

Theorem C07_delete_never_adds_a_reference_partial :
  forall m fuel s x r, shrinks s (delete_obj fuel m s x r).
Proof. exact delete_only_removes. Qed.
Print Assumptions C07_delete_never_adds_a_reference_partial.

Theorem C07_deleted_object_holds_no_reference_partial :
  forall m fuel s x r f b,
    In f (ref_feats m x) ->
    ~ In (VObj b) (vals (delete_obj (S fuel) m s x r) (x, f)).
Proof. exact delete_empties_own_references. Qed.
Print Assumptions C07_deleted_object_holds_no_reference_partial.

(* ---------- the invariants, containment included ---------- *)
Theorem C07_inverse_bookkeeping_preserved_by_every_operation :
  forall m, wf_opp m ->
  forall s o, uniq_ok m s /\ inv_ok m s -> op_fits m o -> uniq_ok m (next m s o) /\ inv_ok m (next m s o).
Proof. exact J_step. Qed.
Print Assumptions C07_inverse_bookkeeping_preserved_by_every_operation.

Theorem C07_inverse_bookkeeping_along_histories :
  forall m, wf_opp m ->
  forall ops, ref_defaults_none m -> Forall (op_fits m) ops ->
  inv_ok m (fold_left (next m) ops (init_state m)).
Proof. exact inv_ok_history. Qed.
Print Assumptions C07_inverse_bookkeeping_along_histories.

Theorem C07_unique_collections_along_histories :
  forall m, wf_opp m ->
  forall ops, ref_defaults_none m -> Forall (op_fits m) ops ->
  uniq_ok m (fold_left (next m) ops (init_state m)).
Proof. exact uniq_ok_history. Qed.
Print Assumptions C07_unique_collections_along_histories.

Theorem C07_stored_references_are_declared_along_histories :
  forall m, wf_typed m ->
  forall ops, ref_defaults_none m -> Forall (op_appl m) ops ->
  decl_ok m (fold_left (next m) ops (init_state m)).
Proof. exact decl_ok_history. Qed.
Print Assumptions C07_stored_references_are_declared_along_histories.

Theorem C07_delete_steps_keep_symmetry_and_shape :
  forall m, wf_opp m -> forall x s k, Inv m s -> Inv m (delete_step m x s k).
Proof. exact Inv_delete_step. Qed.
Print Assumptions C07_delete_steps_keep_symmetry_and_shape.

Theorem C07_delete_keeps_wellformedness :
  forall m, wf_mm m -> forall fuel s x r, WF m s -> WF m (delete_obj fuel m s x r).
Proof. exact WF_delete_obj. Qed.
Print Assumptions C07_delete_keeps_wellformedness.

(* ---------- x.delete(recursive=False) from any state satisfying the invariants ---------- *)
Theorem C07_no_dangling_after_delete_state :
  forall m, wf_opp m ->
  forall fuel s x a f,
    sym m s /\ shape m s /\ uniq_ok m s /\ inv_ok m s -> declared m x s -> refslot m f ->
    ~ In (VObj x) (vals (delete_obj (S fuel) m s x false) (a, f)).
Proof. exact delete_no_dangling_gen. Qed.
Print Assumptions C07_no_dangling_after_delete_state.

Theorem C07_exact_frame_after_delete_state :
  forall m, wf_opp m ->
  forall fuel s x a f,
    sym m s /\ shape m s /\ uniq_ok m s /\ inv_ok m s -> declared m x s -> a <> x -> refslot m f ->
    vals (delete_obj (S fuel) m s x false) (a, f) = Ex m x f (vals s (a, f)).
Proof. exact delete_frame_gen. Qed.
Print Assumptions C07_exact_frame_after_delete_state.

Theorem C07_unique_collection_is_filtered_by_delete_state :
  forall m, wf_opp m ->
  forall fuel s x a f,
    sym m s /\ shape m s /\ uniq_ok m s /\ inv_ok m s -> declared m x s -> a <> x ->
    f_isref (fd m f) = true -> f_many (fd m f) = true -> f_unique (fd m f) = true ->
    vals (delete_obj (S fuel) m s x false) (a, f) =
    filter (fun v => negb (veqb v (VObj x))) (vals s (a, f)).
Proof. exact delete_frame_many_gen. Qed.
Print Assumptions C07_unique_collection_is_filtered_by_delete_state.

Theorem C07_single_slot_after_delete_state :
  forall m, wf_opp m ->
  forall fuel s x a f,
    sym m s /\ shape m s /\ uniq_ok m s /\ inv_ok m s -> declared m x s -> a <> x ->
    f_isref (fd m f) = true -> f_many (fd m f) = false ->
    vals (delete_obj (S fuel) m s x false) (a, f) =
    if vmem (VObj x) (vals s (a, f)) then [VNone] else vals s (a, f).
Proof. exact delete_frame_single_gen. Qed.
Print Assumptions C07_single_slot_after_delete_state.

Theorem C07_unrelated_slots_unchanged_by_delete_state :
  forall m, wf_opp m ->
  forall fuel s x a f,
    sym m s -> shape m s -> a <> x -> ~ In (VObj x) (vals s (a, f)) ->
    vals (delete_obj (S fuel) m s x false) (a, f) = vals s (a, f).
Proof. exact delete_frame_unrelated_gen. Qed.
Print Assumptions C07_unrelated_slots_unchanged_by_delete_state.

(* ---------- the recursive delete ---------- *)
Theorem C07_recursive_delete_is_a_sequence_of_plain_deletes :
  forall m fuel s x r,
    delete_obj fuel m s x r = fold_left (nonrec m) (deleted m fuel s x r) s.
Proof. exact delete_obj_trace. Qed.
Print Assumptions C07_recursive_delete_is_a_sequence_of_plain_deletes.

Theorem C07_deleted_objects_are_in_the_subtree :
  forall m fuel s x r d, In d (deleted m fuel s x r) -> d = x \/ desc m s x d.
Proof. exact deleted_in_subtree. Qed.
Print Assumptions C07_deleted_objects_are_in_the_subtree.

Theorem C07_direct_contents_are_deleted :
  forall m fu s x c, In c (econtents m s x) -> In c (deleted m (S (S fu)) s x true).
Proof. exact children_deleted. Qed.
Print Assumptions C07_direct_contents_are_deleted.

Theorem C07_no_dangling_after_recursive_delete_state :
  forall m, wf_opp m ->
  forall fuel s x r d a f,
    sym m s /\ shape m s /\ uniq_ok m s /\ inv_ok m s -> decl_ok m s ->
    In d (deleted m fuel s x r) -> refslot m f ->
    ~ In (VObj d) (vals (delete_obj fuel m s x r) (a, f)).
Proof. exact delete_rec_no_dangling_gen. Qed.
Print Assumptions C07_no_dangling_after_recursive_delete_state.

Theorem C07_exact_frame_after_recursive_delete_state :
  forall m, wf_opp m ->
  forall fuel s x r a f,
    sym m s /\ shape m s /\ uniq_ok m s /\ inv_ok m s -> decl_ok m s ->
    ~ In a (deleted m fuel s x r) -> refslot m f ->
    vals (delete_obj fuel m s x r) (a, f) =
    fold_left (fun l d => Ex m d f l) (deleted m fuel s x r) (vals s (a, f)).
Proof. exact delete_rec_frame_gen. Qed.
Print Assumptions C07_exact_frame_after_recursive_delete_state.

Theorem C07_unrelated_slots_unchanged_by_recursive_delete_state :
  forall m, wf_opp m ->
  forall fuel s x r a f,
    sym m s -> shape m s -> ~ In a (deleted m fuel s x r) ->
    (forall d, In d (deleted m fuel s x r) -> ~ In (VObj d) (vals s (a, f))) ->
    vals (delete_obj fuel m s x r) (a, f) = vals s (a, f).
Proof. exact delete_rec_frame_unrelated_gen. Qed.
Print Assumptions C07_unrelated_slots_unchanged_by_recursive_delete_state.

Theorem C07_deleted_objects_have_no_container :
  forall m, wf_mm m ->
  forall fuel s x r d,
    WF m s -> uniq_ok m s -> inv_ok m s -> decl_ok m s ->
    In d (deleted m fuel s x r) ->
    cont (delete_obj fuel m s x r) d = None.
Proof. exact delete_rec_uncontained. Qed.
Print Assumptions C07_deleted_objects_have_no_container.

(* ---------- histories without containment, then x.delete(r) ---------- *)
Theorem C07_no_dangling_after_delete_nocont :
  forall m, no_containment m -> wf_opp m -> wf_typed m -> ref_defaults_none m ->
  forall ops, Forall (op_fits m) ops -> Forall (op_appl m) ops ->
  forall x r a f, refslot m f ->
    ~ In (VObj x) (vals (next m (fold_left (next m) ops (init_state m)) (ODelete x r)) (a, f)).
Proof. exact history_delete_no_dangling. Qed.
Print Assumptions C07_no_dangling_after_delete_nocont.

Theorem C07_exact_frame_after_delete_nocont :
  forall m, no_containment m -> wf_opp m -> wf_typed m -> ref_defaults_none m ->
  forall ops, Forall (op_fits m) ops -> Forall (op_appl m) ops ->
  forall x r a f, a <> x -> refslot m f ->
    vals (next m (fold_left (next m) ops (init_state m)) (ODelete x r)) (a, f) =
    Ex m x f (vals (fold_left (next m) ops (init_state m)) (a, f)).
Proof. exact history_delete_frame. Qed.
Print Assumptions C07_exact_frame_after_delete_nocont.

Theorem C07_unrelated_slots_unchanged_after_delete_nocont :
  forall m, no_containment m -> wf_opp m -> wf_typed m -> ref_defaults_none m ->
  forall ops, Forall (op_fits m) ops -> Forall (op_appl m) ops ->
  forall x r a f, a <> x ->
    ~ In (VObj x) (vals (fold_left (next m) ops (init_state m)) (a, f)) ->
    vals (next m (fold_left (next m) ops (init_state m)) (ODelete x r)) (a, f) =
    vals (fold_left (next m) ops (init_state m)) (a, f).
Proof. exact history_delete_frame_unrelated. Qed.
Print Assumptions C07_unrelated_slots_unchanged_after_delete_nocont.

Theorem C07_deleted_object_holds_nothing_nocont :
  forall m, no_containment m -> wf_opp m -> wf_typed m -> ref_defaults_none m ->
  forall ops, Forall (op_fits m) ops -> Forall (op_appl m) ops ->
  forall x r f b, f_isref (fd m f) = true ->
    ~ In (VObj b) (vals (next m (fold_left (next m) ops (init_state m)) (ODelete x r)) (x, f)).
Proof. exact history_deleted_holds_nothing. Qed.
Print Assumptions C07_deleted_object_holds_nothing_nocont.

(* ---------- histories of any metamodel: C01 for the reached state is the only open premise ---------- *)
Theorem C07_no_dangling_after_delete_history_partial :
  forall m, wf_opp m -> wf_typed m -> ref_defaults_none m ->
  forall ops, Forall (op_fits m) ops -> Forall (op_appl m) ops ->
  forall x r d a f,
    Inv m (fold_left (next m) ops (init_state m)) ->
    In d (deleted m (S (length (ocls m))) (fold_left (next m) ops (init_state m)) x r) ->
    refslot m f ->
    ~ In (VObj d) (vals (next m (fold_left (next m) ops (init_state m)) (ODelete x r)) (a, f)).
Proof. exact gen_history_delete_no_dangling. Qed.
Print Assumptions C07_no_dangling_after_delete_history_partial.

Theorem C07_exact_frame_after_delete_history_partial :
  forall m, wf_opp m -> wf_typed m -> ref_defaults_none m ->
  forall ops, Forall (op_fits m) ops -> Forall (op_appl m) ops ->
  forall x r a f,
    Inv m (fold_left (next m) ops (init_state m)) ->
    ~ In a (deleted m (S (length (ocls m))) (fold_left (next m) ops (init_state m)) x r) ->
    refslot m f ->
    vals (next m (fold_left (next m) ops (init_state m)) (ODelete x r)) (a, f) =
    fold_left (fun l d => Ex m d f l)
      (deleted m (S (length (ocls m))) (fold_left (next m) ops (init_state m)) x r)
      (vals (fold_left (next m) ops (init_state m)) (a, f)).
Proof. exact gen_history_delete_frame. Qed.
Print Assumptions C07_exact_frame_after_delete_history_partial.

(* what Ex is *)
Theorem C07_Ex_on_unique_collections :
  forall m x f l, f_many (fd m f) = true -> nodup_objs l ->
    Ex m x f l = filter (fun v => negb (veqb v (VObj x))) l.
Proof. exact Ex_many_unique. Qed.
Print Assumptions C07_Ex_on_unique_collections.

Theorem C07_Ex_on_single_slots :
  forall m x f l, f_many (fd m f) = false ->
    Ex m x f l = if vmem (VObj x) l then [VNone] else l.
Proof. exact Ex_single. Qed.
Print Assumptions C07_Ex_on_single_slots.

(* the premises are satisfiable: a unique many-valued reference without opposite (0), a pair
   of opposite references (1 many-valued, 2 single-valued) and an attribute (3); objects 0, 1
   of class 0 and 2, 3 of class 1; object 2 is referenced through 0 by two holders and
   through the pair, then deleted *)
Example C07_premises_satisfiable :
  no_containment ex_c07_mm /\ wf_opp ex_c07_mm /\ wf_typed ex_c07_mm /\ ref_defaults_none ex_c07_mm /\
  Forall (op_fits ex_c07_mm) ex_c07_ops /\ Forall (op_appl ex_c07_mm) ex_c07_ops.
Proof. exact ex_c07_ok. Qed.

Example C07_witness_full :
  let s := fold_left (next ex_c07_mm) ex_c07_ops (init_state ex_c07_mm) in
  let s' := next ex_c07_mm s (ODelete 2 false) in
  (vals s (0, 0), vals s (1, 0), vals s (0, 1), vals s (2, 2), vals s (3, 2), vals s (0, 3)) =
    ([VObj 2; VObj 3], [VObj 2], [VObj 2; VObj 3], [VObj 0], [VObj 0], [VInt 5]) /\
  (vals s' (0, 0), vals s' (1, 0), vals s' (0, 1), vals s' (2, 2), vals s' (3, 2), vals s' (0, 3)) =
    ([VObj 3], [], [VObj 3], [VNone], [VObj 0], [VInt 5]).
Proof. vm_compute. split; reflexivity. Qed.

(* containment: kids (0, containment, unique many) and watch (1, unique many, no opposite);
   1 is a child of 0, 2 a child of 1; 3 watches 1 and 2; 1.delete() visits 2 then 1 *)
Definition ex_mm_tree : mm :=
  {| feats := [ {| f_owner := 0; f_isref := true; f_many := true; f_unique := true; f_cont := true;
                   f_opp := None; f_type := TClass 0; f_default := VNone |};
                {| f_owner := 0; f_isref := true; f_many := true; f_unique := true; f_cont := false;
                   f_opp := None; f_type := TClass 0; f_default := VNone |} ];
     conf := [(0, 0)]; ocls := [0; 0; 0; 0]; enames := []; nres := 0 |}.

Example C07_witness_containment :
  let s := fold_left (next ex_mm_tree)
             [OAppend 0 0 (VObj 1); OAppend 1 0 (VObj 2); OAppend 3 1 (VObj 2); OAppend 3 1 (VObj 1)]
             (init_state ex_mm_tree) in
  let s' := next ex_mm_tree s (ODelete 1 true) in
  deleted ex_mm_tree (S (length (ocls ex_mm_tree))) s 1 true = [2; 1] /\
  (vals s (0, 0), vals s (1, 0), vals s (3, 1), cont s 1, cont s 2) =
    ([VObj 1], [VObj 2], [VObj 2; VObj 1], Some (0, 0), Some (1, 0)) /\
  (vals s' (0, 0), vals s' (1, 0), vals s' (3, 1), cont s' 1, cont s' 2) =
    ([], [], [], None, None).
Proof. vm_compute. repeat split; reflexivity. Qed.

(* a non-unique reference without opposite (EList) holding the target twice *)
Definition ex_mm : mm :=
  {| feats := [ {| f_owner := 0; f_isref := true; f_many := true; f_unique := false; f_cont := false;
                   f_opp := None; f_type := TClass 1; f_default := VNone |} ];
     conf := [(0, 0); (1, 1)]; ocls := [0; 1]; enames := []; nres := 0 |}.

Example C07_dangling_after_delete_refuted :
  let s := fold_left (next ex_mm) [OExtend 0 0 [VObj 1; VObj 1]; ODelete 1 true] (init_state ex_mm) in
  vals s (0, 0) = [VObj 1].
Proof. vm_compute. reflexivity. Qed.

Example C07_witness :
  let s := fold_left (next ex_mm) [OAppend 0 0 (VObj 1); ODelete 1 true] (init_state ex_mm) in
  vals s (0, 0) = [].
Proof. vm_compute. reflexivity. Qed.

(* ---------- every history of an EMF-well-formed metamodel, containment included ---------- *)
Theorem C07_no_dangling_after_delete_in_every_history :
  forall m, wf_mm m -> wf_typed m -> ref_defaults_none m ->
  forall ops, Forall (op_fits m) ops -> Forall (op_appl m) ops ->
  forall x r d a f,
    In d (deleted m (S (length (ocls m))) (fold_left (next m) ops (init_state m)) x r) ->
    refslot m f ->
    ~ In (VObj d) (vals (next m (fold_left (next m) ops (init_state m)) (ODelete x r)) (a, f)).
Proof. exact wf_history_delete_no_dangling. Qed.
Print Assumptions C07_no_dangling_after_delete_in_every_history.

Theorem C07_exact_frame_after_delete_in_every_history :
  forall m, wf_mm m -> wf_typed m -> ref_defaults_none m ->
  forall ops, Forall (op_fits m) ops -> Forall (op_appl m) ops ->
  forall x r a f,
    ~ In a (deleted m (S (length (ocls m))) (fold_left (next m) ops (init_state m)) x r) ->
    refslot m f ->
    vals (next m (fold_left (next m) ops (init_state m)) (ODelete x r)) (a, f) =
    fold_left (fun l d => Ex m d f l)
      (deleted m (S (length (ocls m))) (fold_left (next m) ops (init_state m)) x r)
      (vals (fold_left (next m) ops (init_state m)) (a, f)).
Proof. exact wf_history_delete_frame. Qed.
Print Assumptions C07_exact_frame_after_delete_in_every_history.

Theorem C07_deleted_objects_uncontained_in_every_history :
  forall m, wf_mm m -> wf_typed m -> ref_defaults_none m ->
  forall ops, Forall (op_fits m) ops -> Forall (op_appl m) ops ->
  forall x r d,
    In d (deleted m (S (length (ocls m))) (fold_left (next m) ops (init_state m)) x r) ->
    cont (next m (fold_left (next m) ops (init_state m)) (ODelete x r)) d = None.
Proof. exact wf_history_deleted_uncontained. Qed.
Print Assumptions C07_deleted_objects_uncontained_in_every_history.

(* ---------- the recursive delete reaches every transitive content (Proofs/C07Trans.v) ---------- *)
From PyecoreV Require Import Proofs.C19Proofs Proofs.C19Once Proofs.OwnAll Proofs.WFCorollaries Proofs.Acyclic
     Proofs.C07Trans.

(* (T1) from a WF state with acyclic containment: every content at depth n < fuel is visited *)
Theorem C07_every_transitive_content_is_deleted_state :
  forall m, wf_mm m -> forall fuel s x y n,
    WF m s -> acyclic_cont s -> descends_in m s n x y -> n < fuel ->
    In y (deleted m fuel s x true).
Proof. exact descendants_deleted. Qed.
Print Assumptions C07_every_transitive_content_is_deleted_state.

(* with the model's fuel the visited objects are exactly x and its transitive contents *)
Theorem C07_deleted_is_exactly_the_subtree_state :
  forall m, wf_mm m -> forall fuel s x d,
    WF m s -> acyclic_cont s -> in_universe m s -> length (ocls m) < fuel ->
    (In d (deleted m fuel s x true) <-> d = x \/ descends m s x d).
Proof. exact deleted_iff_subtree. Qed.
Print Assumptions C07_deleted_is_exactly_the_subtree_state.

Theorem C07_every_deleted_object_holds_no_reference :
  forall m fuel s x r d f b,
    In d (deleted m fuel s x r) -> In f (ref_feats m d) ->
    ~ In (VObj b) (vals (delete_obj fuel m s x r) (d, f)).
Proof. exact deleted_hold_nothing. Qed.
Print Assumptions C07_every_deleted_object_holds_no_reference.

(* (T2) every history that closes no containment cycle, then x.delete(recursive=True) *)
Theorem C07_deleted_is_exactly_the_subtree_in_every_history :
  forall m, wf_mm m -> ref_defaults_none m ->
  forall ops, fits_history m (init_state m) ops ->
  forall x d,
    In d (deleted m (S (length (ocls m))) (reach m ops) x true) <-> d = x \/ descends m (reach m ops) x d.
Proof. exact history_deleted_iff_subtree. Qed.
Print Assumptions C07_deleted_is_exactly_the_subtree_in_every_history.

Theorem C07_recursive_delete_clears_the_whole_subtree_in_every_history :
  forall m, wf_mm m -> wf_typed m -> ref_defaults_none m ->
  forall ops, fits_history m (init_state m) ops -> Forall (op_appl m) ops ->
  forall x y,
    y = x \/ descends m (reach m ops) x y ->
    cont (next m (reach m ops) (ODelete x true)) y = None /\
    (forall f b, In f (ref_feats m y) -> ~ In (VObj b) (vals (next m (reach m ops) (ODelete x true)) (y, f))) /\
    (forall a f, refslot m f -> ~ In (VObj y) (vals (next m (reach m ops) (ODelete x true)) (a, f))).
Proof. exact history_recursive_delete_whole_subtree. Qed.
Print Assumptions C07_recursive_delete_clears_the_whole_subtree_in_every_history.

(* (T3) satisfiable: 0 > {1 > 2 > 3, 4}, 5 watches 0, 2, 3 and is watched by 3; 0.delete() *)
Example C07_transitive_delete_witness :
  let m := ex_mm_chain in
  let s := reach m ex_chain_ops in
  let s' := next m s (ODelete 0 true) in
  (wf_mm m /\ wf_typed m /\ ref_defaults_none m /\
   fits_history m (init_state m) ex_chain_ops /\ Forall (op_appl m) ex_chain_ops) /\
  (map (cont s) [0; 1; 2; 3; 4; 5], vals s (5, 2), vals s (3, 2)) =
    ([None; Some (0, 0); Some (1, 0); Some (2, 0); Some (0, 0); None], [VObj 0; VObj 2; VObj 3], [VObj 5]) /\
  eallcontents 7 m s 0 = [1; 4; 2; 3] /\
  deleted m (S (length (ocls m))) s 0 true = [3; 2; 1; 4; 0] /\
  descends m s 0 2 /\ descends m s 0 3 /\
  (cont s' 3 = None /\ (forall f b, In f (ref_feats m 3) -> ~ In (VObj b) (vals s' (3, f))) /\
   (forall a f, refslot m f -> ~ In (VObj 3) (vals s' (a, f)))) /\
  (map (cont s') [0; 1; 2; 3; 4; 5], map (fun o => vals s' (o, 0)) [0; 1; 2; 3; 4; 5], vals s' (5, 2), vals s' (3, 2)) =
    ([None; None; None; None; None; None], [[]; []; []; []; []; []], [], []).
Proof. exact transitive_delete_witness. Qed.
Print Assumptions C07_transitive_delete_witness.

(* Models reached through a SLICE assignment on a list-based plain reference (Model/Slice.v): delete() finds the holders
   of an object through its inverse bookkeeping; releasing the replaced elements and THEN linking the new ones (the code
   since fix 98a932c) records exactly the elements of the new list - those replaced and assigned again included -, for
   every pair of bounds; the former order (link, then release) is refuted on the model by the witness that failed on the
   implementation:  c = [1; 2];  c[0:2] = [2; 3]. *)
From PyecoreV Require Import Model.Slice Proofs.SliceProofs.
Theorem C07_slice_assignment_keeps_the_inverse_bookkeeping :
  forall (a b : option BinNums.Z) (ys l inv : list BinNums.Z),
    NoDup l -> (forall x, In x inv <-> In x l) ->
    forall x, In x (release_then_link (py_getslice a b l) ys inv) <-> In x (py_setslice a b ys l).
Proof. exact release_then_link_exact. Qed.
Print Assumptions C07_slice_assignment_keeps_the_inverse_bookkeeping.

Theorem C07_link_then_release_refuted :
  exists a b ys l x,
    NoDup l /\ In x (py_setslice a b ys l) /\ ~ In x (link_then_release (py_getslice a b l) ys l).
Proof. exact link_then_release_refuted. Qed.
Print Assumptions C07_link_then_release_refuted.
